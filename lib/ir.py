"""E2 - model of clang-14 textual LLVM IR (typed pointers, -O0 -g -fno-discard-value-names).

Parses a .ll file into Module / Function / Block / Ins with structured operands, resolves
struct field names through debug info, and offers CFG analyses (dominators, reachability with
avoid sets, no-return summaries).  Nothing is executed; this is a reader for compiler output.

Values are tuples:
  ('reg', name)            SSA register or parameter  %name
  ('glob', name)           @name
  ('int', n)               integer constant
  ('null',)                null pointer
  ('cgep', srcty, base, idx)   constant-expression getelementptr; idx = list of values
  ('ccast', op, v)         constant cast expression
  ('cbin', op, a, b)       constant binary expression
  ('other', text)          anything else (undef, float, aggregate, metadata ...)
"""
import re, os, pickle, sys

sys.setrecursionlimit(10000)

# ------------------------------------------------------------------ types

class Ty:
    """Structured LLVM type."""
    __slots__ = ('k', 'a', 'b')   # kind, payload
    def __init__(s, k, a=None, b=None): s.k = k; s.a = a; s.b = b
    def __repr__(s):
        if s.k == 'int': return 'i%d' % s.a
        if s.k == 'ptr': return '%r*' % (s.a,)
        if s.k == 'named': return '%' + s.a
        if s.k == 'arr': return '[%d x %r]' % (s.a, s.b)
        if s.k == 'vec': return '<%d x %r>' % (s.a, s.b)
        if s.k == 'struct': return '{' + ', '.join(map(repr, s.a)) + '}'
        if s.k == 'fn': return '%r (%s)' % (s.a, ', '.join(map(repr, s.b)))
        return s.k
    def __eq__(s, o): return isinstance(o, Ty) and repr(s) == repr(o)
    def __hash__(s): return hash(repr(s))
    def pointee(s): return s.a if s.k == 'ptr' else None

_prim = {'void', 'float', 'double', 'half', 'x86_fp80', 'fp128', 'label', 'metadata', 'token', 'ptr', 'opaque', 'x86_mmx'}
_ident = re.compile(r'%("(?:[^"\\]|\\.)*"|[-\w.$]+)')
_gident = re.compile(r'@("(?:[^"\\]|\\.)*"|[-\w.$]+)')
_ws = re.compile(r'\s*')

def _skipws(s, i):
    return _ws.match(s, i).end()

def parse_type(s, i=0):
    """Parse a type at s[i:]; returns (Ty, j)."""
    i = _skipws(s, i)
    c = s[i]
    if c == 'i' and s[i+1].isdigit():
        j = i + 1
        while j < len(s) and s[j].isdigit(): j += 1
        t = Ty('int', int(s[i+1:j]))
    elif c == '%':
        m = _ident.match(s, i)
        t = Ty('named', m.group(1).strip('"')); j = m.end()
    elif c == '[' or (c == '<' and s[i+1] != '{'):
        close = ']' if c == '[' else '>'
        m = re.compile(r'\s*(\d+)\s*x\s*').match(s, i + 1)
        if c == '<' and s.startswith('vscale', _skipws(s, i + 1)):
            m = re.compile(r'\s*vscale\s*x\s*(\d+)\s*x\s*').match(s, i + 1)
        n = int(m.group(1))
        el, j = parse_type(s, m.end())
        j = _skipws(s, j)
        assert s[j] == close, (s[i:i+60])
        j += 1
        t = Ty('arr' if c == '[' else 'vec', n, el)
    elif c == '{' or (c == '<' and s[i+1] == '{'):
        packed = c == '<'
        j = i + (2 if packed else 1)
        fields = []
        j = _skipws(s, j)
        if s[j] != '}':
            while True:
                f, j = parse_type(s, j)
                fields.append(f)
                j = _skipws(s, j)
                if s[j] == ',': j += 1; continue
                break
        assert s[j] == '}', s[i:i+80]
        j += 1
        if packed:
            j = _skipws(s, j); assert s[j] == '>'; j += 1
        t = Ty('struct', fields, packed)
    else:
        m = re.compile(r'[a-z_0-9]+').match(s, i)
        if not m or m.group(0) not in _prim:
            raise ValueError('type? ' + s[i:i+60])
        t = Ty(m.group(0)); j = m.end()
    # suffixes
    while True:
        k = _skipws(s, j)
        if k < len(s) and s[k] == '*':
            t = Ty('ptr', t); j = k + 1; continue
        if k < len(s) and s[k] == '(' and t.k != 'label':
            # function type
            k += 1; args = []
            k = _skipws(s, k)
            if s[k] != ')':
                while True:
                    k = _skipws(s, k)
                    if s.startswith('...', k):
                        args.append(Ty('...')); k += 3
                    else:
                        a, k = parse_type(s, k); args.append(a)
                    k = _skipws(s, k)
                    if s[k] == ',': k += 1; continue
                    break
            assert s[k] == ')', s[i:i+80]
            t = Ty('fn', t, args); j = k + 1; continue
        if s.startswith('addrspace(', k):
            k = s.index(')', k) + 1; j = k; continue
        break
    return t, j

_param_attrs = re.compile(
    r'\s*(?:noundef|nonnull|signext|zeroext|inreg|noalias|nocapture|readonly|writeonly|readnone|returned|immarg|nest|nofree|swiftself|swifterror|'
    r'align \d+|dereferenceable\(\d+\)|dereferenceable_or_null\(\d+\)|'
    r'(?:sret|byval|byref|inalloca|preallocated|elementtype)\((?:[^()]|\([^()]*\))*\))(?![\w.])')

def _skip_attrs(s, i):
    while True:
        m = _param_attrs.match(s, i)
        if not m: return i
        i = m.end()

_num = re.compile(r'-?\d+(?![\w.])')
_castops = ('bitcast', 'ptrtoint', 'inttoptr', 'sext', 'zext', 'trunc', 'addrspacecast', 'fptosi', 'sitofp', 'uitofp', 'fptoui', 'fpext', 'fptrunc')
_binops = ('add', 'sub', 'mul', 'sdiv', 'udiv', 'srem', 'urem', 'shl', 'lshr', 'ashr', 'and', 'or', 'xor',
           'fadd', 'fsub', 'fmul', 'fdiv', 'frem')

def parse_value(s, i):
    """Parse an untyped value at s[i:]; returns (value, j)."""
    i = _skipws(s, i)
    c = s[i]
    if c == '%':
        m = _ident.match(s, i); return ('reg', m.group(1).strip('"')), m.end()
    if c == '@':
        m = _gident.match(s, i); return ('glob', m.group(1).strip('"')), m.end()
    m = _num.match(s, i)
    if m: return ('int', int(m.group(0))), m.end()
    if s.startswith('null', i): return ('null',), i + 4
    if s.startswith('true', i): return ('int', 1), i + 4
    if s.startswith('false', i): return ('int', 0), i + 5
    if s.startswith('getelementptr', i):
        j = i + len('getelementptr')
        j = _skipws(s, j)
        if s.startswith('inbounds', j): j += 8
        j = _skipws(s, j); assert s[j] == '(', s[i:i+80]
        srcty, j = parse_type(s, j + 1)
        j = _skipws(s, j); assert s[j] == ','
        (bt, base), j = parse_typed(s, j + 1)
        idx = []
        while True:
            j = _skipws(s, j)
            if s[j] == ',':
                j = _skipws(s, j + 1)
                if s.startswith('inrange', j): j += 7
                (_, v), j = parse_typed(s, j); idx.append(v); continue
            break
        assert s[j] == ')', s[i:i+120]
        return ('cgep', srcty, base, idx), j + 1
    for op in _castops:
        if s.startswith(op + ' (', i) or s.startswith(op + '(', i):
            j = s.index('(', i)
            (_, v), j = parse_typed(s, j + 1)
            j = _skipws(s, j); assert s.startswith('to', j)
            _, j = parse_type(s, j + 2)
            j = _skipws(s, j); assert s[j] == ')'
            return ('ccast', op, v), j + 1
    m = re.compile(r'(' + '|'.join(_binops) + r')(?: nsw| nuw| exact)* \(').match(s, i)
    if m:
        (_, a), j = parse_typed(s, m.end())
        j = _skipws(s, j); assert s[j] == ','
        (_, b), j = parse_typed(s, j + 1)
        j = _skipws(s, j); assert s[j] == ')'
        return ('cbin', m.group(1), a, b), j + 1
    if s.startswith('icmp', i) or s.startswith('select', i):
        j = s.index('(', i); d = 0
        while True:
            if s[j] == '(': d += 1
            elif s[j] == ')':
                d -= 1
                if d == 0: break
            j += 1
        return ('other', s[i:j+1]), j + 1
    if c == 'c' and s[i+1] == '"':
        j = i + 2
        while s[j] != '"': j += 1
        return ('cstr', s[i+2:j]), j + 1
    if c in '{[<':
        # aggregate constant: balanced skip (strings inside handled crudely)
        j = i; d = 0
        pairs = {'{': '}', '[': ']', '<': '>', '(': ')'}
        stack = []
        while True:
            ch = s[j]
            if ch == '"':
                j += 1
                while s[j] != '"': j += 1
            elif ch in pairs: stack.append(pairs[ch])
            elif stack and ch == stack[-1]:
                stack.pop()
                if not stack: break
            j += 1
        return ('agg', s[i:j+1]), j + 1
    m = re.compile(r'(undef|poison|zeroinitializer|none|blockaddress\([^)]*\)|dso_local_equivalent @[\w.$]+|0x[0-9A-Fa-f]+|-?\d+\.\d+(?:e[-+]?\d+)?|!DIExpression\([^)]*\)|!DIArgList\([^)]*\)|![\w.]+|!\{[^}]*\})').match(s, i)
    if m: return ('other', m.group(0)), m.end()
    raise ValueError('value? ' + s[i:i+80])

def parse_typed(s, i):
    """Parse `type [attrs] value`; returns ((Ty, value), j)."""
    t, j = parse_type(s, i)
    j = _skip_attrs(s, j)
    if t.k == 'metadata':
        j = _skipws(s, j)
        # metadata operand: `metadata i32* %x` or `metadata !12` or `metadata !DIExpression()`
        if s[j] == '!':
            v, j = parse_value(s, j); return (t, v), j
        (t2, v), j = parse_typed(s, j); return (t, v), j
    v, j = parse_value(s, j)
    return (t, v), j

# ------------------------------------------------------------------ instructions

class Ins:
    __slots__ = ('fn', 'blk', 'idx', 'text', 'res', 'op', 'dbg', 'ty', 'ops', 'callee', 'pred',
                 'targets', 'cases', 'srcty', 'gidx', 'n', 'argtys')
    def __init__(s):
        s.res = None; s.ty = None; s.ops = []; s.callee = None; s.pred = None
        s.targets = []; s.cases = None; s.srcty = None; s.dbg = None; s.argtys = None
    @property
    def line(s):
        return s.fn.mod.line_of(s.dbg)
    @property
    def loc(s):
        return s.fn.mod.loc_of(s.dbg)
    def __repr__(s):
        return '<%s:%s#%d %s>' % (s.fn.name, s.blk.name, s.idx, s.text.strip()[:90])
    # convenience accessors
    @property
    def ptr(s):
        """address operand of load/store"""
        return s.ops[0] if s.op == 'load' else s.ops[1] if s.op == 'store' else None
    @property
    def val(s):
        return s.ops[0] if s.op == 'store' else None

class Block:
    __slots__ = ('fn', 'name', 'ins', 'succ', 'pred', 'n')
    def __init__(s, fn, name): s.fn = fn; s.name = name; s.ins = []; s.succ = []; s.pred = []
    def __repr__(s): return '<blk %s:%s>' % (s.fn.name, s.name)

class Function:
    def __init__(s, mod, name, sig):
        s.mod = mod; s.name = name; s.sig = sig; s.blocks = []; s.bmap = {}
        s.params = []      # (Ty, name)
        s.retty = None
        s.attrs = set()
        s.dbg = None
        s._dom = None; s._pdom = None; s._defs = None; s._uses = None
        s.linkage = ''
    @property
    def ins(s):
        for b in s.blocks:
            for i in b.ins: yield i
    @property
    def entry(s): return s.blocks[0]
    def defs(s):
        """map register name -> defining instruction"""
        if s._defs is None:
            s._defs = {i.res: i for i in s.ins if i.res is not None}
        return s._defs
    def def_of(s, v):
        if v[0] == 'reg': return s.defs().get(v[1])
        return None
    def uses(s):
        """map register name -> list of instructions using it as a direct operand"""
        if s._uses is None:
            u = {}
            for i in s.ins:
                for o in i.ops:
                    for r in regs_in(o): u.setdefault(r, []).append(i)
                if i.op in ('call', 'invoke') and not isinstance(i.callee, str) and i.callee is not None:
                    for r in regs_in(i.callee): u.setdefault(r, []).append(i)
            s._uses = u
        return s._uses
    @property
    def file(s):
        return s.mod.file_of_sp(s.dbg)
    @property
    def line(s):
        t = s.mod.meta.get(s.dbg, '')
        m = re.search(r'\bline: (\d+)', t)
        return int(m.group(1)) if m else None
    def is_param(s, name):
        return any(n == name for _, n in s.params)
    def calls(s, *names):
        return [i for i in s.ins if i.op in ('call', 'invoke') and i.callee in names]

def regs_in(v):
    if not isinstance(v, tuple): return
    if v[0] == 'reg': yield v[1]
    elif v[0] == 'cgep':
        yield from regs_in(v[2])
        for x in v[3]: yield from regs_in(x)
    elif v[0] == 'ccast': yield from regs_in(v[2])
    elif v[0] == 'cbin':
        yield from regs_in(v[2]); yield from regs_in(v[3])

def globs_in(v):
    if not isinstance(v, tuple): return
    if v[0] == 'glob': yield v[1]
    elif v[0] == 'cgep':
        yield from globs_in(v[2])
        for x in v[3]: yield from globs_in(x)
    elif v[0] == 'ccast': yield from globs_in(v[2])
    elif v[0] == 'cbin':
        yield from globs_in(v[2]); yield from globs_in(v[3])
    elif v[0] in ('agg', 'other'):
        for m in _gident.finditer(v[1]): yield m.group(1).strip('"')

_res_re = re.compile(r'\s*%("(?:[^"\\]|\\.)*"|[-\w.$]+) = ')
_dbg_re = re.compile(r', !dbg !(\d+)')
_label_re = re.compile(r'label %("(?:[^"\\]|\\.)*"|[-\w.$]+)')
_fnattr_tail = re.compile(r'\s*(#\d+|nounwind|noreturn|readnone|readonly|nobuiltin|builtin|cold|nomerge|willreturn|allocsize\([^)]*\)|"[^"]*"(="[^"]*")?)')

def _strip_meta(text):
    """remove trailing ', !dbg !N', ', !tbaa ..', ', !llvm.loop ..' etc.; returns (core, dbg)"""
    m = _dbg_re.search(text)
    dbg = int(m.group(1)) if m else None
    k = text.find(', !')
    core = text if k < 0 else text[:k]
    return core, dbg

def parse_ins(text, fn, blk):
    i = Ins(); i.fn = fn; i.blk = blk; i.text = text
    core, i.dbg = _strip_meta(text)
    m = _res_re.match(core)
    p = 0
    if m:
        i.res = m.group(1).strip('"'); p = m.end()
    p = _skipws(core, p)
    m = re.compile(r'[a-z_]+').match(core, p)
    op = m.group(0); p = m.end()
    if op in ('tail', 'musttail', 'notail'):
        p = _skipws(core, p); m = re.compile(r'[a-z_]+').match(core, p); op = m.group(0); p = m.end()
    i.op = op
    try:
        _parse_body(i, core, p)
    except Exception as e:   # keep going: unknown instruction forms are kept as opaque
        i.ops = []; i.op = op
        fn.mod.parse_errors.append((fn.name, text.strip()[:160], repr(e)))
    return i

def _parse_body(i, s, p):
    op = i.op
    if op == 'load':
        p = _skipws(s, p)
        if s.startswith('volatile', p): p += 8
        if s.startswith('atomic', _skipws(s, p)): p = _skipws(s, p) + 6
        if s.startswith('volatile', _skipws(s, p)): p = _skipws(s, p) + 8
        i.ty, p = parse_type(s, p)
        p = _skipws(s, p); assert s[p] == ','
        (_, v), p = parse_typed(s, p + 1)
        i.ops = [v]
    elif op == 'store':
        p = _skipws(s, p)
        if s.startswith('volatile', p): p += 8
        if s.startswith('atomic', _skipws(s, p)): p = _skipws(s, p) + 6
        if s.startswith('volatile', _skipws(s, p)): p = _skipws(s, p) + 8
        (t, v), p = parse_typed(s, p)
        p = _skipws(s, p); assert s[p] == ','
        (_, a), p = parse_typed(s, p + 1)
        i.ty = t; i.ops = [v, a]
    elif op == 'alloca':
        p = _skipws(s, p)
        if s.startswith('inalloca', p): p += 8
        i.ty, p = parse_type(s, p)
        i.ops = []
        p = _skipws(s, p)
        if p < len(s) and s[p] == ',' and not s.startswith('align', _skipws(s, p + 1)):
            (_, v), p = parse_typed(s, p + 1); i.ops = [v]
    elif op == 'getelementptr':
        p = _skipws(s, p)
        if s.startswith('inbounds', p): p += 8
        i.srcty, p = parse_type(s, p)
        p = _skipws(s, p); assert s[p] == ','
        (bt, base), p = parse_typed(s, p + 1)
        idx = []
        while True:
            p = _skipws(s, p)
            if p < len(s) and s[p] == ',':
                (_, v), p = parse_typed(s, p + 1); idx.append(v)
            else: break
        i.ops = [base] + idx
    elif op in _castops:
        (t, v), p = parse_typed(s, p)
        p = _skipws(s, p); assert s.startswith('to', p)
        i.ty, p = parse_type(s, p + 2)
        i.srcty = t
        i.ops = [v]
    elif op in _binops:
        while True:
            p = _skipws(s, p)
            m = re.compile(r'(nsw|nuw|exact|fast|nnan|ninf|nsz|arcp|contract|afn|reassoc)\b').match(s, p)
            if not m: break
            p = m.end()
        (t, a), p = parse_typed(s, p)
        p = _skipws(s, p); assert s[p] == ','
        b, p = parse_value(s, p + 1)
        i.ty = t; i.ops = [a, b]
    elif op == 'fneg':
        (t, a), p = parse_typed(s, p); i.ty = t; i.ops = [a]
    elif op in ('icmp', 'fcmp'):
        p = _skipws(s, p)
        while True:
            m = re.compile(r'(fast|nnan|ninf|nsz|arcp|contract|afn|reassoc)\s+').match(s, p)
            if not m: break
            p = m.end()
        m = re.compile(r'\w+').match(s, p); i.pred = m.group(0); p = m.end()
        (t, a), p = parse_typed(s, p)
        p = _skipws(s, p); assert s[p] == ','
        b, p = parse_value(s, p + 1)
        i.ty = t; i.ops = [a, b]
    elif op in ('call', 'invoke'):
        # [fast-math] [cconv] [ret attrs] <ty>|<fnty> <fnptrval>(<args>) [fn attrs] [to label .. unwind label ..]
        while True:
            p = _skipws(s, p)
            m = re.compile(r'(fastcc|ccc|coldcc|fast|nnan|ninf|nsz|arcp|contract|afn|reassoc|zeroext|signext|inreg|noalias|nonnull|noundef|align \d+|dereferenceable\(\d+\)|dereferenceable_or_null\(\d+\))(?![\w.])').match(s, p)
            if not m: break
            p = m.end()
        rt, p = parse_type(s, p)
        if rt.k == 'ptr' and rt.a.k == 'fn':   # explicit function pointer type (varargs)
            rt = rt.a.a
        elif rt.k == 'fn':
            rt = rt.a
        i.ty = rt
        cv, p = parse_value(s, p)
        if cv[0] == 'glob': i.callee = cv[1]
        elif cv[0] == 'ccast' and cv[2][0] == 'glob': i.callee = cv[2][1]
        else: i.callee = cv
        p = _skipws(s, p); assert s[p] == '(', s[p:p+40]
        p += 1
        args = []; tys = []
        p = _skipws(s, p)
        if s[p] != ')':
            while True:
                (t, v), p = parse_typed(s, p)
                args.append(v); tys.append(t)
                p = _skipws(s, p)
                if s[p] == ',': p += 1; continue
                break
        assert s[p] == ')', s[p:p+40]
        i.ops = args; i.argtys = tys
        if op == 'invoke':
            i.targets = [x.strip('"') for x in _label_re.findall(s[p:])]
    elif op == 'br':
        p = _skipws(s, p)
        if s.startswith('label', p):
            i.targets = [x.strip('"') for x in _label_re.findall(s[p:])]
        else:
            (t, v), p = parse_typed(s, p)
            i.ops = [v]
            i.targets = [x.strip('"') for x in _label_re.findall(s[p:])]
    elif op == 'switch':
        (t, v), p = parse_typed(s, p)
        i.ops = [v]; i.ty = t
        m = _label_re.search(s, p); default = m.group(1).strip('"'); p = m.end()
        cases = []
        for cm in re.finditer(r'i\d+ (-?\d+), label %("(?:[^"\\]|\\.)*"|[-\w.$]+)', s[p:]):
            cases.append((int(cm.group(1)), cm.group(2).strip('"')))
        i.cases = cases
        seen = []
        for t_ in [default] + [c[1] for c in cases]:
            if t_ not in seen: seen.append(t_)
        i.targets = seen
        i.callee = default   # reuse slot: default label
    elif op == 'ret':
        p = _skipws(s, p)
        if s.startswith('void', p): i.ops = []
        else:
            (t, v), p = parse_typed(s, p); i.ops = [v]; i.ty = t
    elif op == 'phi':
        t, p = parse_type(s, p); i.ty = t
        inc = []; labs = []
        for pm in re.finditer(r'\[\s*', s[p:]):
            pass
        q = p
        while True:
            q = s.find('[', q)
            if q < 0: break
            v, q2 = parse_value(s, q + 1)
            q2 = _skipws(s, q2); assert s[q2] == ','
            lv, q2 = parse_value(s, q2 + 1)
            inc.append(v); labs.append(lv[1])
            q = s.index(']', q2) + 1
        i.ops = inc; i.targets = []; i.cases = labs
    elif op == 'select':
        (t, c), p = parse_typed(s, p)
        p = _skipws(s, p); assert s[p] == ','
        (t, a), p = parse_typed(s, p + 1)
        p = _skipws(s, p); assert s[p] == ','
        (t, b), p = parse_typed(s, p + 1)
        i.ty = t; i.ops = [c, a, b]
    elif op in ('unreachable', 'resume', 'landingpad', 'fence', 'cleanupret', 'catchret', 'catchswitch', 'catchpad', 'cleanuppad'):
        if op == 'resume':
            (t, v), p = parse_typed(s, p); i.ops = [v]
    elif op in ('extractvalue', 'insertvalue', 'extractelement', 'insertelement', 'shufflevector', 'va_arg', 'freeze', 'atomicrmw', 'cmpxchg'):
        # operands parsed loosely: collect registers
        i.ops = [('reg', r.strip('"')) for r in _ident.findall(s[p:]) if not r.startswith('struct.') and not r.startswith('class.') and not r.startswith('union.')]
    else:
        raise ValueError('opcode ' + op)

# ------------------------------------------------------------------ module

class GlobalVar:
    __slots__ = ('name', 'ty', 'constant', 'linkage', 'init', 'text', 'external', 'dbg', 'internal')
    def __repr__(s): return '<@%s %s%s>' % (s.name, 'constant ' if s.constant else '', s.ty)

_gline = re.compile(r'^@("(?:[^"\\]|\\.)*"|[-\w.$]+) = (.*)$')
_gkw = re.compile(r'\s*(private|internal|external|available_externally|linkonce_odr|linkonce|weak_odr|weak|common|appending|extern_weak|dso_local|dso_preemptable|hidden|protected|default|unnamed_addr|local_unnamed_addr|thread_local(?:\([a-z]+\))?|externally_initialized|dllimport|dllexport|addrspace\(\d+\))\s+')

class Module:
    def __init__(s, path):
        s.path = path
        s.functions = {}      # defined functions
        s.declares = {}       # declared only: name -> attrs set
        s.globals = {}
        s.aliases = {}
        s.meta = {}
        s.types = {}          # named type -> Ty (struct) or None (opaque)
        s.attrgroups = {}
        s.parse_errors = []
        s._fields = {}
        s._di_struct = None
        s.peers = ()
        s._load(path)

    # -------- loading
    def _load(s, path):
        cur = None; blk = None
        with open(path, errors='replace') as f:
            lines = f.read().split('\n')
        n = len(lines); k = 0
        while k < n:
            line = lines[k]; k += 1
            if cur is None:
                if not line or line[0] == ';': continue
                c = line[0]
                if c == 'd' and line.startswith('define '):
                    cur = s._start_fn(line); blk = None
                    continue
                if c == 'd' and line.startswith('declare '):
                    m = re.search(r'@("(?:[^"\\]|\\.)*"|[-\w.$]+)\(', line)
                    if m:
                        name = m.group(1).strip('"')
                        s.declares[name] = set(re.findall(r'#\d+', line[m.end():]))
                    continue
                if c == '!':
                    m = re.match(r'^!(\d+) = (.*)$', line)
                    if m: s.meta[int(m.group(1))] = m.group(2)
                    continue
                if c == '@':
                    s._global(line); continue
                if c == '%':
                    m = re.match(r'^%("(?:[^"\\]|\\.)*"|[-\w.$]+) = type (.*)$', line)
                    if m:
                        nm = m.group(1).strip('"')
                        if m.group(2).strip() == 'opaque': s.types[nm] = None
                        else:
                            t, _ = parse_type(m.group(2), 0); s.types[nm] = t
                    continue
                if c == 'a' and line.startswith('attributes #'):
                    m = re.match(r'attributes (#\d+) = \{(.*)\}', line)
                    if m: s.attrgroups[m.group(1)] = m.group(2)
                continue
            # inside a function
            if line == '}':
                s._finish_fn(cur); cur = None; continue
            if not line: continue
            if line[0] not in ' \t':
                m = re.match(r'^("(?:[^"\\]|\\.)*"|[-\w.$]+):', line)
                if m:
                    blk = Block(cur, m.group(1).strip('"')); cur.blocks.append(blk); cur.bmap[blk.name] = blk
                continue
            st = line.strip()
            if not st or st[0] == ';': continue
            if blk is None:
                nm = 'entry' if 'entry' not in cur.bmap else '%0'
                blk = Block(cur, nm); cur.blocks.append(blk); cur.bmap[nm] = blk
            # switch spans several lines
            if st.startswith('switch '):
                while ']' not in line:
                    line += ' ' + lines[k].strip(); k += 1
            if '@llvm.dbg.' in st or '@llvm.lifetime.' in st: continue
            if st.startswith('catch ') or st.startswith('cleanup') or st.startswith('filter '): continue   # landingpad clauses
            ins = parse_ins(line, cur, blk)
            ins.idx = len(blk.ins); blk.ins.append(ins)
        # resolve declared attrs
        for nm, groups in list(s.declares.items()):
            att = set()
            for g in groups: att |= set(s.attrgroups.get(g, '').split())
            s.declares[nm] = att

    def _start_fn(s, line):
        m = re.search(r'@("(?:[^"\\]|\\.)*"|[-\w.$]+)\(', line)
        name = m.group(1).strip('"')
        fn = Function(s, name, line)
        head = line[:m.start()]
        fn.linkage = 'internal' if re.search(r'\b(internal|private)\b', head) else ('linkonce' if 'linkonce' in head or 'weak' in head else 'external')
        # return type: last type before @name
        try:
            hp = len('define ')
            while True:
                mm = _gkw.match(head, hp - 1) if False else re.compile(r'\s*(private|internal|available_externally|linkonce_odr|linkonce|weak_odr|weak|dso_local|hidden|protected|unnamed_addr|local_unnamed_addr|noundef|nonnull|signext|zeroext|noalias|align \d+|dereferenceable\(\d+\)|dereferenceable_or_null\(\d+\)|fastcc|ccc|inreg)\s+').match(head, hp)
                if not mm: break
                hp = mm.end()
            fn.retty, _ = parse_type(head, hp)
        except Exception:
            fn.retty = None
        # params
        p = m.end(); params = []
        p = _skipws(line, p)
        if line[p] != ')':
            while True:
                p = _skipws(line, p)
                if line.startswith('...', p):
                    params.append((Ty('...'), None)); p += 3
                else:
                    t, p = parse_type(line, p)
                    p = _skip_attrs(line, p)
                    p = _skipws(line, p)
                    nm = None
                    if line[p] == '%':
                        mm = _ident.match(line, p); nm = mm.group(1).strip('"'); p = mm.end()
                    params.append((t, nm))
                p = _skipws(line, p)
                if line[p] == ',': p += 1; continue
                break
        fn.params = params
        tail = line[p:]
        for g in re.findall(r'#\d+', tail):
            fn.attrs |= set(s.attrgroups.get(g, '').split()) if g in s.attrgroups else {g}
        fn._attr_groups = re.findall(r'#\d+', tail)
        mm = re.search(r'!dbg !(\d+)', tail)
        fn.dbg = int(mm.group(1)) if mm else None
        return fn

    def _finish_fn(s, fn):
        for g in getattr(fn, '_attr_groups', []):
            fn.attrs |= set(s.attrgroups.get(g, '').split())
        for b in fn.blocks:
            if b.ins:
                t = b.ins[-1]
                labs = t.targets
                if t.op == 'br' and t.ops and len(t.targets) == 2:
                    # an edge that can never be taken is not an edge: constant conditions, and unsigned comparisons with 0
                    # that hold for no / every value (clang -O0 keeps `if ((size_t) x < 0)` as icmp ult x, 0)
                    c = t.ops[0]; k = None
                    if c[0] == 'int': k = bool(c[1])
                    elif c[0] == 'reg':
                        d = fn.def_of(c) if hasattr(fn, 'def_of') else None
                        if d is not None and d.op == 'icmp':
                            z0 = d.ops[0] == ('int', 0); z1 = d.ops[1] == ('int', 0)
                            if d.pred == 'ult' and z1: k = False
                            elif d.pred == 'uge' and z1: k = True
                            elif d.pred == 'ugt' and z0: k = False
                            elif d.pred == 'ule' and z0: k = True
                    if k is not None: labs = [t.targets[0] if k else t.targets[1]]
                for lab in labs:
                    sb = fn.bmap.get(lab)
                    if sb is not None and sb not in b.succ:
                        b.succ.append(sb); sb.pred.append(b)
        s.functions[fn.name] = fn

    def _global(s, line):
        m = _gline.match(line)
        if not m: return
        name = m.group(1).strip('"'); rest = ' ' + m.group(2)
        g = GlobalVar(); g.name = name; g.text = line; g.linkage = []
        p = 0
        while True:
            mm = _gkw.match(rest, p)
            if not mm: break
            g.linkage.append(mm.group(1)); p = mm.end() - 1
        p = _skipws(rest, p)
        if rest.startswith('alias', p) or rest.startswith('ifunc', p):
            s.aliases[name] = rest[p:]; return
        if rest.startswith('constant', p): g.constant = True; p += 8
        elif rest.startswith('global', p): g.constant = False; p += 6
        else: return
        try:
            g.ty, p = parse_type(rest, p)
        except Exception:
            g.ty = None
        g.external = 'external' in g.linkage or 'extern_weak' in g.linkage
        g.internal = 'internal' in g.linkage or 'private' in g.linkage
        p = _skipws(rest, p)
        g.init = None
        if not g.external and p < len(rest):
            try:
                g.init, _ = parse_value(rest, p)
            except Exception:
                g.init = ('other', rest[p:])
        mm = re.search(r'!dbg !(\d+)', rest)
        g.dbg = int(mm.group(1)) if mm else None
        s.globals[name] = g

    # -------- debug info helpers
    def line_of(s, dbg):
        if dbg is None: return None
        t = s.meta.get(dbg)
        if not t: return None
        m = re.search(r'\bline: (\d+)', t)
        return int(m.group(1)) if m else None

    def _file_name(s, fid):
        t = s.meta.get(fid, '')
        m = re.search(r'filename: "([^"]*)"', t)
        return os.path.basename(m.group(1)) if m else None

    def file_of_scope(s, sid, depth=0):
        while sid is not None and depth < 50:
            t = s.meta.get(sid, '')
            m = re.search(r'\bfile: !(\d+)', t)
            if m and not t.startswith('!DILocation'):
                return s._file_name(int(m.group(1)))
            m = re.search(r'\bscope: !(\d+)', t)
            if not m: return None
            sid = int(m.group(1)); depth += 1
        return None

    def file_of_sp(s, sid):
        return s.file_of_scope(sid)

    def loc_of(s, dbg):
        """(file, line) of a !DILocation id"""
        if dbg is None: return (None, None)
        t = s.meta.get(dbg, '')
        m = re.search(r'\bline: (\d+)', t); ln = int(m.group(1)) if m else None
        m = re.search(r'\bscope: !(\d+)', t)
        return (s.file_of_scope(int(m.group(1))) if m else None, ln)

    def cstring(s, v):
        """C string constant a value points to (through a constant GEP), or None."""
        if not isinstance(v, tuple): return None
        if v[0] == 'cgep': v = v[2]
        if v[0] == 'ccast': return s.cstring(v[2])
        if v[0] != 'glob': return None
        g = s.globals.get(v[1])
        if g is None or g.init is None: return None
        if g.init[0] == 'cstr':
            return decode_cstr(g.init[1])
        if g.init[0] == 'other' and g.init[1] == 'zeroinitializer' and g.ty and g.ty.k == 'arr' and g.ty.b == Ty('int', 8):
            return ''
        return None

    # -------- struct field names from debug info
    def _di_structs(s):
        if s._di_struct is None:
            d = {}
            for k, t in s.meta.items():
                if 'DICompositeType(' in t and ('DW_TAG_structure_type' in t or 'DW_TAG_class_type' in t or 'DW_TAG_union_type' in t):
                    if 'DIFlagFwdDecl' in t: continue
                    m = re.search(r'\bname: "([^"]*)"', t)
                    e = re.search(r'\belements: !(\d+)', t)
                    if m and e: d.setdefault(m.group(1), []).append((k, int(e.group(1))))
            s._di_struct = d
        return s._di_struct

    def sizeof(s, t):
        return s._layout(t)[0]

    def _layout(s, t):
        """(size, align) in bytes for x86-64"""
        k = t.k
        if k == 'int':
            b = max(1, (t.a + 7) // 8)
            sz = 1
            while sz < b: sz *= 2
            return (sz, min(sz, 16) if sz <= 8 else 16)
        if k == 'ptr': return (8, 8)
        if k == 'float': return (4, 4)
        if k == 'double': return (8, 8)
        if k == 'half': return (2, 2)
        if k in ('x86_fp80', 'fp128'): return (16, 16)
        if k == 'arr':
            sz, al = s._layout(t.b); return (sz * t.a, al)
        if k == 'vec':
            sz, al = s._layout(t.b); return (sz * t.a, sz * t.a)
        if k == 'named':
            tt = s.types.get(t.a)
            if tt is None: return (0, 1)
            return s._layout(tt)
        if k == 'struct':
            off = 0; mal = 1
            for f in t.a:
                sz, al = s._layout(f)
                if t.b: al = 1
                off = (off + al - 1) // al * al
                off += sz; mal = max(mal, al)
            off = (off + mal - 1) // mal * mal
            return (off, mal)
        return (0, 1)

    def field_offsets(s, t):
        if t.k == 'named': t = s.types.get(t.a)
        if t is None or t.k != 'struct': return []
        off = 0; out = []
        for f in t.a:
            sz, al = s._layout(f)
            if t.b: al = 1
            off = (off + al - 1) // al * al
            out.append(off); off += sz
        return out

    def struct_fields(s, tyname):
        """list of field names for named LLVM type `struct.X` / `class.X` / `union.X` (index -> name)."""
        if tyname in s._fields: return s._fields[tyname]
        t = s.types.get(tyname)
        names = None
        if t is not None and t.k == 'struct':
            base = re.sub(r'^(struct|class|union)\.', '', tyname)
            base = re.sub(r'\.\d+$', '', base)        # clang suffixes duplicate type names
            base = re.sub(r'\.base$', '', base)
            offs = s.field_offsets(t)
            for (did, eid) in s._di_structs().get(base, []):
                members = []
                for mid in re.findall(r'!(\d+)', s.meta.get(eid, '')):
                    mt = s.meta.get(int(mid), '')
                    if 'DW_TAG_member' in mt and 'DIFlagStaticMember' not in mt:
                        nm = re.search(r'\bname: "([^"]*)"', mt); of = re.search(r'\boffset: (\d+)', mt)
                        members.append((int(of.group(1)) // 8 if of else 0, nm.group(1) if nm else '?'))
                    elif 'DW_TAG_inheritance' in mt:
                        of = re.search(r'\boffset: (\d+)', mt)
                        bt = re.search(r'\bbaseType: !(\d+)', mt)
                        bn = re.search(r'\bname: "([^"]*)"', s.meta.get(int(bt.group(1)), '')) if bt else None
                        members.append((int(of.group(1)) // 8 if of else 0, '<base %s>' % (bn.group(1) if bn else '?')))
                bymap = {}
                for of, nm in members: bymap.setdefault(of, nm)
                cand = [bymap.get(o) for o in offs]
                if all(c is not None for c in cand) or (names is None and any(c is not None for c in cand)):
                    names = [c if c is not None else '#%d' % ix for ix, c in enumerate(cand)]
                    if all(c is not None for c in cand): break
        if names is None and t is not None and t.k == 'struct':
            # this TU only declares the struct's objects extern and carries no debug info for it:
            # take the names from a peer TU of the same program that defines the identical LLVM type
            for peer in getattr(s, 'peers', ()):
                if peer is s: continue
                pt = peer.types.get(tyname)
                if pt is not None and repr(pt) == repr(t):
                    saved = peer.__dict__.get('peers'); peer.peers = ()
                    try: pn = peer.struct_fields(tyname)
                    finally: peer.peers = saved if saved is not None else ()
                    if pn and not all(x.startswith('#') for x in pn):
                        names = pn; break
                    peer._fields.pop(tyname, None)
        if names is None and t is not None and t.k == 'struct':
            names = ['#%d' % ix for ix in range(len(t.a))]
        s._fields[tyname] = names
        return names

    def field_name(s, ty, index):
        """ty: Ty of the aggregate being indexed (named struct)."""
        if ty is None or ty.k != 'named': return None
        names = s.struct_fields(ty.a)
        if names is None or index >= len(names): return None
        return names[index]

def decode_cstr(t):
    out = []; k = 0
    while k < len(t):
        if t[k] == '\\':
            if t[k+1] == '\\': out.append('\\'); k += 2; continue
            out.append(chr(int(t[k+1:k+3], 16))); k += 3
        else:
            out.append(t[k]); k += 1
    r = ''.join(out)
    return r[:-1] if r.endswith('\0') else r

# ------------------------------------------------------------------ access paths

def short_struct(name):
    return re.sub(r'^(struct|class|union)\.', '', name)

class Resolver:
    """Resolve pointer values to abstract locations within one function.

    Location forms (tuples):
      ('global', name)
      ('local', allocaname)
      ('field', structname, fieldname, baseloc)   baseloc = location/value the struct pointer came from
      ('elem', baseloc)                           array element / pointer arithmetic on baseloc
      ('deref', loc)                              the object pointed to by the value stored at loc
      ('call', callee, ins)                       memory returned by a call
      ('param', name)                             object pointed to by a parameter (only when used without .addr)
      ('unknown', text)
    """
    def __init__(s, fn):
        s.fn = fn; s.mod = fn.mod; s.memo = {}

    def loc(s, v, depth=0):
        """abstract location designated by pointer value v"""
        if depth > 40: return ('unknown', 'deep')
        key = v if v[0] in ('reg', 'glob') else None
        if key is not None and key in s.memo: return s.memo[key]
        r = s._loc(v, depth)
        if key is not None: s.memo[key] = r
        return r

    def _loc(s, v, depth):
        k = v[0]
        if k == 'glob': return ('global', v[1])
        if k == 'null': return ('null',)
        if k == 'cgep': return s._gep(v[1], v[2], v[3], depth)
        if k == 'ccast': return s.loc(v[2], depth + 1)
        if k == 'reg':
            d = s.fn.def_of(v)
            if d is None:
                return ('param', v[1]) if s.fn.is_param(v[1]) else ('unknown', v[1])
            if d.op == 'alloca': return ('local', d.res)
            if d.op == 'getelementptr': return s._gep(d.srcty, d.ops[0], d.ops[1:], depth)
            if d.op in ('bitcast', 'addrspacecast', 'inttoptr'): return s.loc(d.ops[0], depth + 1)
            if d.op == 'load': return ('deref', s.loc(d.ops[0], depth + 1))
            if d.op in ('call', 'invoke'): return ('call', d.callee if isinstance(d.callee, str) else '?', d)
            if d.op == 'phi' or d.op == 'select':
                return ('unknown', d.op)
            return ('unknown', d.op)
        return ('unknown', k)

    def _gep(s, srcty, base, idx, depth):
        bl = s.loc(base, depth + 1)
        cur = srcty; out = bl
        first = True
        for ix in idx:
            if first:
                first = False
                if not (ix[0] == 'int' and ix[1] == 0):
                    out = ('elem', out)
                continue
            t = cur
            if t is not None and t.k == 'named':
                tt = s.mod.types.get(t.a)
                if tt is not None and tt.k == 'struct' and ix[0] == 'int':
                    fname = s.mod.field_name(t, ix[1]) or ('#%d' % ix[1])
                    out = ('field', short_struct(t.a), fname, out)
                    cur = tt.a[ix[1]] if ix[1] < len(tt.a) else None
                    continue
            if t is not None and t.k == 'struct' and ix[0] == 'int':
                out = ('field', 'anon', '#%d' % ix[1], out); cur = t.a[ix[1]] if ix[1] < len(t.a) else None; continue
            if t is not None and t.k in ('arr', 'vec'):
                out = ('elem', out); cur = t.b; continue
            out = ('elem', out); cur = None
        return out

def loc_class(loc):
    """object-insensitive class of a location: ('global', g) | ('field', S, f) | ('local', n) | other"""
    while loc and loc[0] == 'elem': loc = loc[1]
    if not loc: return loc
    if loc[0] == 'field': return ('field', loc[1], loc[2])
    if loc[0] in ('global', 'local', 'param'): return loc
    if loc[0] == 'deref': return ('deref',) + (loc_class(loc[1]),)
    return (loc[0],)

def loc_str(loc):
    if loc is None: return '?'
    k = loc[0]
    if k == 'global': return '@' + loc[1]
    if k == 'local': return loc[1]
    if k == 'param': return '%' + loc[1]
    if k == 'field': return '%s->%s' % (loc_str(loc[3]), loc[2]) if loc[3][0] in ('deref', 'param', 'call') else '%s.%s' % (loc_str(loc[3]), loc[2])
    if k == 'elem': return loc_str(loc[1]) + '[]'
    if k == 'deref': return '*' + loc_str(loc[1]) if loc[1][0] not in ('local', 'global') else loc_str(loc[1])
    if k == 'call': return '%s()' % loc[1]
    if k == 'null': return 'null'
    return '?' + str(loc[1] if len(loc) > 1 else '')

def field_of(loc):
    """innermost named field (struct, field) reached by loc ignoring array steps, else None"""
    while loc and loc[0] == 'elem': loc = loc[1]
    if loc and loc[0] == 'field': return (loc[1], loc[2])
    return None

def root_of(loc):
    """outermost base of a location chain"""
    while True:
        if loc[0] in ('elem', 'deref'): loc = loc[1]
        elif loc[0] == 'field': loc = loc[3]
        else: return loc

# ------------------------------------------------------------------ CFG analyses

class CFG:
    """Block-level CFG of a function, optionally cut after no-return calls."""
    def __init__(s, fn, noreturn=frozenset()):
        s.fn = fn
        s.noreturn = noreturn
        s.blocks = fn.blocks
        s.cut = {}      # block -> index of first no-return call (block ends there)
        for b in fn.blocks:
            for i in b.ins:
                if i.op in ('call', 'invoke') and isinstance(i.callee, str) and i.callee in noreturn:
                    s.cut[b] = i.idx; break
        s.succ = {b: ([] if b in s.cut else list(b.succ)) for b in fn.blocks}
        s.pred = {b: [] for b in fn.blocks}
        for b, ss in s.succ.items():
            for t in ss: s.pred[t].append(b)
        s._dom = None; s._pdom = None

    def exits(s):
        """blocks that end the function: ret, unreachable, no-return call"""
        return [b for b in s.blocks if not s.succ[b]]

    def ret_blocks(s):
        return [b for b in s.blocks if b not in s.cut and b.ins and b.ins[-1].op == 'ret']

    def reachable_blocks(s, start=None):
        start = start or s.fn.entry
        seen = {start}; st = [start]
        while st:
            b = st.pop()
            for t in s.succ[b]:
                if t not in seen: seen.add(t); st.append(t)
        return seen

    def dominators(s):
        if s._dom is None: s._dom = _domtree(s.blocks, s.fn.entry, s.succ, s.pred)
        return s._dom

    def dominates(s, a, b):
        """block a dominates block b"""
        dom = s.dominators()
        return b in dom and a in dom[b]

    def ins_dominates(s, x, y):
        """instruction x dominates instruction y (both reachable)"""
        if x.blk is y.blk: return x.idx <= y.idx
        return s.dominates(x.blk, y.blk)

    def postdominators(s):
        """block -> set of blocks that post-dominate it (paths to any exit: ret, unreachable, no-return call)"""
        if s._pdom is None:
            s._pdom, s._exit = _cfg_postdom(s)
        return s._pdom

    def control_deps(s, blk):
        """list of (terminator_instruction, successor_block) edges on which `blk` is control dependent"""
        pd = s.postdominators()
        out = []
        for a in s.blocks:
            if len(s.succ[a]) < 2: continue
            for t in s.succ[a]:
                # blk postdominates t (or is t) but does not strictly postdominate a
                if t in pd and blk in pd[t] and not (a in pd and blk in pd[a] and blk is not a):
                    out.append((a.ins[-1], t))
        return out

    def control_deps_closure(s, blk):
        """transitive control dependences: all (terminator, successor) edges that decide whether blk runs"""
        seen = set(); out = []; work = [blk]; done = set()
        while work:
            b = work.pop()
            if b in done: continue
            done.add(b)
            for br, t in s.control_deps(b):
                if (br, t) not in seen:
                    seen.add((br, t)); out.append((br, t)); work.append(br.blk)
        return out

    # ---- instruction-level reachability
    def _live_len(s, b):
        return s.cut[b] + 1 if b in s.cut else len(b.ins)

    def reach(s, start, avoid=(), include_start=False, edge_filter=None):
        """set of instructions reachable from instruction `start` (exclusive unless include_start)
        along paths that do not pass *through* an instruction in `avoid` (an avoided instruction is
        itself not reached).  edge_filter(blk, succ) -> bool may remove CFG edges."""
        avoid = set(avoid)
        out = set()
        seen_blocks = set()
        work = []
        def walk(b, k):
            n = s._live_len(b)
            for j in range(k, n):
                x = b.ins[j]
                if x in avoid: return
                out.add(x)
            if b in s.cut: return
            for t in s.succ[b]:
                if edge_filter is not None and not edge_filter(b, t): continue
                if t not in seen_blocks:
                    seen_blocks.add(t); work.append(t)
        walk(start.blk, start.idx if include_start else start.idx + 1)
        while work:
            walk(work.pop(), 0)
        return out

    def reach_from_block(s, blk, avoid=(), edge_filter=None):
        avoid = set(avoid); out = set(); seen = {blk}; work = [blk]
        while work:
            b = work.pop(); n = s._live_len(b); stopped = False
            for j in range(n):
                x = b.ins[j]
                if x in avoid: stopped = True; break
                out.add(x)
            if stopped or b in s.cut: continue
            for t in s.succ[b]:
                if edge_filter is not None and not edge_filter(b, t): continue
                if t not in seen: seen.add(t); work.append(t)
        return out

    def path(s, start, goal_pred, avoid=(), include_start=False, edge_filter=None):
        """shortest block path witness from instruction start to an instruction satisfying goal_pred,
        avoiding `avoid`; returns list of instructions (one per block visited + goal) or None"""
        avoid = set(avoid)
        from collections import deque
        q = deque(); seen = set()
        def scan(b, k, trail):
            n = s._live_len(b)
            for j in range(k, n):
                x = b.ins[j]
                if x in avoid: return None
                if goal_pred(x): return trail + [x]
            if b in s.cut: return None
            for t in s.succ[b]:
                if edge_filter is not None and not edge_filter(b, t): continue
                if t not in seen:
                    seen.add(t); q.append((t, trail + [b.ins[n - 1]]))
            return None
        r = scan(start.blk, start.idx if include_start else start.idx + 1, [start])
        if r: return r
        while q:
            b, trail = q.popleft()
            r = scan(b, 0, trail)
            if r: return r
        return None

    def postdominated_by(s, start, targets, edge_filter=None):
        """True if every path from instruction `start` that reaches a function exit (ret) passes through
        an instruction in targets (paths ending in unreachable / no-return calls are vacuous)."""
        tg = set(targets)
        r = s.reach(start, avoid=tg, edge_filter=edge_filter)
        return not any(x.op == 'ret' for x in r)

class _Exit:
    name = '<exit>'
    def __repr__(s): return '<exit>'

def _cfg_postdom(cfg):
    """post-dominator sets over the cut CFG with a virtual exit joined to every exit block"""
    ex = _Exit()
    blocks = list(cfg.blocks) + [ex]
    rsucc = {b: list(cfg.pred[b]) for b in cfg.blocks}    # successors in the reversed graph
    rsucc[ex] = list(cfg.exits())
    rpred = {b: list(cfg.succ[b]) for b in cfg.blocks}
    for b in cfg.exits(): rpred[b] = rpred[b] + [ex]
    rpred[ex] = []
    return _domtree(blocks, ex, rsucc, rpred), ex

def _domtree(blocks, entry, succ, pred):
    # iterative dataflow dominators on reachable blocks
    order = []; seen = {entry}; st = [(entry, iter(succ[entry]))]
    while st:
        b, it = st[-1]
        adv = False
        for t in it:
            if t not in seen:
                seen.add(t); st.append((t, iter(succ[t]))); adv = True; break
        if not adv:
            order.append(b); st.pop()
    rpo = order[::-1]
    idx = {b: k for k, b in enumerate(rpo)}
    idom = {entry: entry}
    changed = True
    def inter(a, b):
        while a is not b:
            while idx[a] > idx[b]: a = idom[a]
            while idx[b] > idx[a]: b = idom[b]
        return a
    while changed:
        changed = False
        for b in rpo[1:]:
            ps = [p for p in pred[b] if p in idom]
            if not ps: continue
            new = ps[0]
            for p in ps[1:]: new = inter(new, p)
            if idom.get(b) is not new:
                idom[b] = new; changed = True
    dom = {}
    for b in rpo:
        s_ = {b}; x = b
        while idom[x] is not x:
            x = idom[x]; s_.add(x)
        dom[b] = s_
    return dom

# ------------------------------------------------------------------ whole-program helpers

class Program:
    """A set of modules linked by name (flex itself = 21 TUs; a scanner variant = 1 TU)."""
    def __init__(s, modules):
        s.modules = modules
        s.functions = {}
        for m in modules: m.peers = modules
        for m in modules:
            for n, f in m.functions.items():
                if n in s.functions and f.linkage == 'internal':
                    # static functions with equal names in different TUs: keep both under TU-qualified key
                    s.functions['%s@%s' % (n, os.path.basename(m.path))] = f
                else:
                    s.functions.setdefault(n, f)
        s._noret = None
        s._cfg = {}

    def fn(s, name):
        return s.functions.get(name)

    def declared_noreturn(s):
        out = set()
        for m in s.modules:
            for n, att in m.declares.items():
                if 'noreturn' in att: out.add(n)
            for n, f in m.functions.items():
                if 'noreturn' in f.attrs: out.add(n)
        return out

    def noreturn(s):
        """fixpoint: a function is no-return if no `ret` is reachable once calls to no-return functions cut
        the CFG.  longjmp/exit/abort/_exit/__assert_fail are seeds by attribute."""
        if s._noret is None:
            nr = set(s.declared_noreturn()) | {'longjmp', '_longjmp', 'siglongjmp', '__longjmp_chk', 'exit', '_exit', 'abort', '__assert_fail', '__cxa_throw', '_ZSt9terminatev', '__cxa_rethrow', '__clang_call_terminate'}
            changed = True
            while changed:
                changed = False
                for n, f in s.functions.items():
                    if f.name in nr or not f.blocks: continue
                    c = CFG(f, nr)
                    rb = c.reachable_blocks()
                    if not any(b in rb for b in c.ret_blocks()):
                        nr.add(f.name); changed = True
            s._noret = nr
        return s._noret

    def cfg(s, fn, cut=True):
        """CFG of fn; cut=True ends paths at calls to (derived) no-return functions, cut=False keeps the
        plain CFG (use it for control dependence, where refusals such as flexerror() would otherwise make
        everything after them control dependent on their guard)"""
        if isinstance(fn, str): fn = s.functions[fn]
        c = s._cfg.get((fn, cut))
        if c is None:
            c = s._cfg[(fn, cut)] = CFG(fn, s.noreturn() if cut else frozenset())
        return c

    def all_ins(s):
        for f in s.functions.values():
            yield from f.ins

    def callers(s, name):
        return [i for i in s.all_ins() if i.op in ('call', 'invoke') and i.callee == name]

    def callgraph(s):
        g = {}
        for n, f in s.functions.items():
            g[f.name] = {i.callee for i in f.ins if i.op in ('call', 'invoke') and isinstance(i.callee, str)}
        return g

    def reachable_fns(s, roots):
        g = s.callgraph(); seen = set(roots); st = list(roots)
        while st:
            x = st.pop()
            for y in g.get(x, ()):
                if y not in seen: seen.add(y); st.append(y)
        return seen

# ------------------------------------------------------------------ loading with pickle cache

def load_module(path):
    pk = path + '.pickle'
    try:
        if os.path.exists(pk) and os.path.getmtime(pk) >= os.path.getmtime(path) and os.path.getmtime(pk) >= os.path.getmtime(__file__):
            with open(pk, 'rb') as f: return pickle.load(f)
    except Exception:
        pass
    m = Module(path)
    try:
        tmp = pk + '.%d.tmp' % os.getpid()
        with open(tmp, 'wb') as f: pickle.dump(m, f, protocol=pickle.HIGHEST_PROTOCOL)
        os.replace(tmp, pk)
    except Exception:
        pass
    return m

if __name__ == '__main__':
    import time
    for p in sys.argv[1:]:
        t0 = time.time(); m = Module(p)
        print(p, len(m.functions), 'functions', len(m.globals), 'globals', len(m.meta), 'meta', 'errors', len(m.parse_errors), '%.2fs' % (time.time() - t0))
        for e in m.parse_errors[:10]: print('  ERR', e)
