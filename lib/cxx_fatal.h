/* Included (with -include) when a C++ scanner variant is compiled to IR for analysis only:
 * YY_FATAL_ERROR is the documented override point; routing it to a noreturn function turns
 * every fatal site into a direct call instead of a virtual call to LexerError. */
#ifdef __cplusplus
extern "C" {
#endif
__attribute__((noreturn)) void yy_verif_fatal(const char *msg);
#ifdef __cplusplus
}
#endif
