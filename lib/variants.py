"""Scanner variants: probe specifications per back end, option matrix, instantiation by the freshly
built flex (used as a template instantiator), compilation to LLVM IR.  Nothing generated is ever run.
"""
import os, sys, subprocess, json, re, itertools, random, hashlib, shutil
from concurrent.futures import ThreadPoolExecutor
from common import VERIF, AnalysisBroken
import e0

SPELL = {
    'nr':  dict(push='yy_push_state({0})', pop='yy_pop_state()', top='yy_top_state()', input='yyinput()', echo='ECHO', lex='yylex()'),
    'r':   dict(push='yy_push_state({0}, yyscanner)', pop='yy_pop_state(yyscanner)', top='yy_top_state(yyscanner)', input='yyinput(yyscanner)', echo='ECHO', lex='yylex(s)'),
    'cxx': dict(push='yy_push_state({0})', pop='yy_pop_state()', top='yy_top_state()', input='yyinput()', echo='ECHO', lex=''),
    'c99': dict(push='yy_push_state({0}, yyscanner)', pop='yy_pop_state(yyscanner)', top='yy_top_state(yyscanner)', input='yyinput()', echo='yyecho()', lex='yylex(s)'),
}
SPELL['go'] = SPELL['c99']

BACKENDS = ('nr', 'r', 'cxx', 'c99', 'go')
ALL_FEATS = ('bol', 'eol', 'fixtrail', 'vartrail', 'reject', 'yymore', 'yyless', 'unput', 'input', 'sc', 'stack',
             'nul', 'eofrule', 'echo', 'terminate', 'sect3', 's3less')

class Variant:
    def __init__(s, name, backend, feats=(), options=(), flags=(), header=False, tables=False, expect_refuse=False, note='', raw_spec=None):
        s.raw_spec = raw_spec
        s.name = name; s.backend = backend; s.feats = frozenset(feats)
        s.options = list(options); s.flags = list(flags)
        s.header = header; s.tables = tables
        s.note = note
        # filled by instantiate()
        s.dir = None; s.status = None; s.stderr = ''; s.src = None; s.ll = None; s.hdr = None
        s.refused = False; s.crashed = False
    @property
    def lang(s): return 'c++' if s.backend == 'cxx' else 'c'
    def spec(s):
        if s.raw_spec is not None: return s.raw_spec
        return probe(s.backend, s.feats, s.options)
    def cmdline(s):
        return ['flex'] + s.flags + ['-o', 'lex.' + ('cc' if s.backend == 'cxx' else 'c'), 'spec.l']
    def describe(s):
        return '%s [%s] %%option %s ; flags %s ; feats %s' % (s.name, s.backend, ' '.join(s.options), ' '.join(s.flags), ','.join(sorted(s.feats)))

def probe(backend, feats, options):
    sp = SPELL[backend]
    L = []
    if backend == 'c99': L.append('%option emit="c99"')
    elif backend == 'go': L.append('%option emit="go"')
    elif backend == 'r': L.append('%option reentrant')
    elif backend == 'cxx': L.append('%option c++')
    for o in options: L.append('%option ' + o)
    if backend in ('c99', 'go') and 'reject' in feats and not any(o in ('reject',) for o in options):
        L.append('%option reject')          # auto-detection of yyreject() is broken (D19); the dedicated variant omits this
    if 'stack' in feats and 'stack' not in options: L.append('%option stack')
    if any(o.startswith('bison-') for o in options):
        L.append('%top{'); L.append('#ifndef VERIF_TOP_TYPES'); L.append('#define VERIF_TOP_TYPES'); L.append('typedef int YYSTYPE;'); L.append('typedef struct YYLTYPE { int first_line, first_column, last_line, last_column; } YYLTYPE;'); L.append('#endif'); L.append('}')
    if any(o.startswith('yyclass=') for o in options):
        L.append('%{'); L.append('class VerifLexer : public yyFlexLexer { public: int yylex(); };'); L.append('%}')
    if 'noyyread' in options and backend in ('nr', 'r'):
        # the user supplies yyread() in the definitions section (manual, "The Generated Scanner")
        L.append('%{'); L.append('#include <stdio.h>')
        L.append('static int yyread(char *buf, size_t max_size%s) { int c = getchar(); (void) max_size; return (c == EOF) ? 0 : (buf[0] = (char) c, 1); }' % (', void *yyscanner' if backend == 'r' else ''))
        L.append('%}')
    if any(o.startswith('extra-type=') for o in options):
        L.append('%top{'); L.append('struct verif_extra { int n; };'); L.append('}')
    if 'sc' in feats or 'stack' in feats or 'bol' in feats:
        L.append('%x XA XB'); L.append('%s SI')
    L.append('%%')
    if 'bol' in feats: L.append('^foo      { yybegin(XA); }')
    if 'eol' in feats: L.append('bar$      { return 1; }')
    if 'fixtrail' in feats: L.append('ab/cd     { return 4; }')
    if 'vartrail' in feats: L.append('a+/b*c    { return 5; }')
    if 'yyless' in feats: L.append('"less"    { yyless(1); }')
    if 'yymore' in feats: L.append('"more"    { yymore(); }')
    if 'unput' in feats: L.append('"u"       { yyunput(\'x\'); }')
    if 'input' in feats: L.append('"i"       { int c = %s; (void)c; }' % sp['input'])
    if 'reject' in feats: L.append('"r"       { yyreject(); }')
    if 'nul' in feats: L.append('\\0        { return 6; }')
    if 'echo' in feats: L.append('"e"       { %s; }' % sp['echo'])
    if 'terminate' in feats: L.append('"t"       { yyterminate(); }')
    if 'stack' in feats:
        L.append('"p"       { %s; }' % sp['push'].format('XB'))
        L.append('<XB>y     { %s; }' % sp['pop'])
        if not any(o == 'noyy_top_state' for o in options):
            L.append('<XB>w     { (void)%s; }' % sp['top'])
    if 'sc' in feats or 'stack' in feats or 'bol' in feats:
        L.append('<XA>x     { yybegin(INITIAL); }')
        L.append('<XA,XB>v  { yybegin(SI); }')
        L.append('<*>z      { return 7; }')
        L.append('<SI>q     { return 3; }')
        if 'eofrule' in feats:
            L.append('<XA><<EOF>> { return 2; }')
    if 'eofrule' in feats and not ('sc' in feats or 'stack' in feats or 'bol' in feats):
        L.append('<<EOF>>   { return 2; }')
    L.append('.|\\n      { }')
    L.append('%%')
    if 'sect3' in feats:
        L.append('/* user code section */')
        L.append('static int verif_user_symbol(void) { return 0; }')
    if 's3less' in feats and backend != 'cxx':
        # yyless() called from user code after the second %%: the cpp skeleton redefines the macro for this use
        if backend == 'nr': L.append('static void __attribute__((used)) verif_s3_less(void) { yyless(1); }')
        elif backend == 'r': L.append('static void __attribute__((used)) verif_s3_less(yyscan_t yyscanner) { struct yyguts_t *yyg = (struct yyguts_t *) yyscanner; yyless(1); }')
        elif backend == 'c99': L.append('static void __attribute__((used)) verif_s3_less(yyscan_t yyscanner) { yyless(1, yyscanner); }')
        else: L.append('static void __attribute__((used)) verif_s3_less(FlexLexer *yyscanner) { yyless(1, yyscanner); }')
    return '\n'.join(L) + '\n'

FULL = ('bol', 'eol', 'fixtrail', 'vartrail', 'reject', 'yymore', 'yyless', 'unput', 'input', 'sc', 'stack', 'nul', 'eofrule', 'echo', 'terminate', 's3less')
NOREJ = ('bol', 'eol', 'fixtrail', 'yymore', 'yyless', 'unput', 'input', 'sc', 'stack', 'nul', 'eofrule', 'echo', 'terminate', 's3less')
PLAIN = ('yyless', 'unput', 'input', 'nul', 'eofrule', 'echo', 'terminate', 's3less')      # accepted by -Cf/-CF (no bol: D1 is exercised separately)

def core_variants():
    V = []
    def add(*a, **k): V.append(Variant(*a, **k))
    for b in BACKENDS:
        add('%s_full' % b, b, FULL, ['yylineno'])
        add('%s_norej' % b, b, NOREJ, ['yylineno'])
        add('%s_nolineno' % b, b, NOREJ, [])
        add('%s_noyywrap' % b, b, NOREJ, ['noyywrap'])
    # table representations x interactive/batch (C04.R1, C02.R2)
    for b in ('nr', 'r', 'cxx', 'c99', 'go'):
        for t, topts in (('Cem', ['ecs', 'meta-ecs']), ('Ce', ['ecs', 'nometa-ecs']), ('Cm', ['noecs', 'meta-ecs']), ('C', ['noecs', 'nometa-ecs']),
                         ('Cf', ['full']), ('CF', ['fast'])):
            if b != 'nr' and t in ('Ce', 'Cm', 'C'): continue
            for mode, mopts in (('I', ['interactive']), ('B', ['batch']), ('D', [])):
                if t in ('Cf', 'CF') and mode == 'I': continue     # refused by flex (reference table C02.R4)
                if b not in ('nr',) and mode == 'D': continue
                if b == 'cxx' and t == 'CF': continue               # refused: -+ with -CF
                feats = PLAIN if t in ('Cf', 'CF') else NOREJ
                add('%s_%s_%s' % (b, t, mode), b, feats, topts + mopts)
        add('%s_Cem_B_rej' % b, b, FULL, ['batch'])
        add('%s_Cem_I_rej' % b, b, FULL, ['interactive'])
    # variable trailing context without yyreject(): the generator's `reject` is set but `real_reject` is not
    for b in ('nr', 'r', 'cxx', 'c99'):
        add('%s_vartrail_B' % b, b, NOREJ + ('vartrail',), ['batch'])
        add('%s_vartrail_I' % b, b, NOREJ + ('vartrail',), ['interactive'])
    add('nr_Cfa', 'nr', PLAIN, ['full', 'align'])
    add('nr_Cf_bol', 'nr', PLAIN + ('bol',), ['full'])
    add('nr_CF_bol', 'nr', PLAIN + ('bol',), ['fast'], note='D1')
    add('r_CF_bol', 'r', PLAIN + ('bol',), ['fast'], note='D1')
    add('c99_CF_bol', 'c99', PLAIN + ('bol',), ['fast'], note='D47')
    add('go_CF_bol', 'go', PLAIN + ('bol',), ['fast'], note='D47')
    # features one at a time
    add('nr_array', 'nr', NOREJ, ['array', 'yylineno'])
    add('c99_array', 'c99', NOREJ, ['array'])
    add('go_array', 'go', NOREJ, ['array'])
    add('nr_array_rej', 'nr', FULL, ['array'])
    add('r_array', 'r', NOREJ, ['array'])
    add('nr_7bit', 'nr', NOREJ, ['7bit'])
    add('nr_debug', 'nr', FULL, ['debug'])
    add('r_debug', 'r', NOREJ, ['debug'])
    add('cxx_debug', 'cxx', NOREJ, ['debug'])
    add('c99_debug', 'c99', NOREJ, ['debug'])
    add('go_debug', 'go', NOREJ, ['debug'])
    add('nr_main', 'nr', PLAIN, ['main'], note='D6')
    add('r_main', 'r', PLAIN, ['main'])
    add('c99_main', 'c99', PLAIN, ['main'])
    add('nr_read', 'nr', NOREJ, ['read'])
    add('nr_noyyread', 'nr', NOREJ, ['noyyread'], note='D49')
    add('r_noyyread', 'r', NOREJ, ['noyyread'], note='D49')
    add('r_read', 'r', NOREJ, ['read'])
    add('c99_read', 'c99', NOREJ, ['read'])
    add('nr_always', 'nr', NOREJ, ['always-interactive'])
    add('nr_never', 'nr', NOREJ, ['never-interactive'])
    add('r_always', 'r', NOREJ, ['always-interactive'])
    add('r_never', 'r', NOREJ, ['never-interactive'])
    add('nr_stdinit', 'nr', PLAIN, ['stdinit'], note='D24')
    add('r_stdinit', 'r', PLAIN, ['stdinit'], note='D25')
    add('nr_nostdinit', 'nr', PLAIN, ['nostdinit'])
    add('nr_prefix', 'nr', NOREJ, ['prefix="foo"', 'yylineno'])
    add('r_prefix', 'r', NOREJ, ['prefix="foo"', 'yylineno'])
    add('cxx_prefix', 'cxx', NOREJ, ['prefix="foo"'])
    add('nr_prefix2', 'nr', NOREJ, ['prefix="bar"', 'yylineno'])
    add('nr_prefix_tables', 'nr', NOREJ, ['prefix="foo"', 'tables-file="lex.tables"'], tables=True)
    add('r_prefix_tables', 'r', NOREJ, ['prefix="foo"', 'tables-file="lex.tables"'], tables=True)
    add('r_bison', 'r', NOREJ, ['bison-bridge', 'bison-locations'])
    add('nr_bison', 'nr', NOREJ, ['bison-bridge'])
    add('r_bison_b', 'r', NOREJ, ['bison-bridge'])
    add('nr_tables', 'nr', NOREJ, ['tables-file="lex.tables"', 'yylineno'], tables=True)
    add('r_tables', 'r', NOREJ, ['tables-file="lex.tables"', 'yylineno'], tables=True)
    add('nr_tables_rej', 'nr', FULL, ['tables-file="lex.tables"'], tables=True)
    add('nr_tables_Cf', 'nr', PLAIN, ['tables-file="lex.tables"', 'full'], tables=True)
    add('nr_tables_CF', 'nr', PLAIN, ['tables-file="lex.tables"', 'fast'], tables=True)
    add('nr_verify', 'nr', NOREJ, ['tables-file="lex.tables"', 'tables-verify'], tables=True)
    add('r_verify', 'r', NOREJ, ['tables-file="lex.tables"', 'tables-verify'], tables=True)
    add('cxx_tables', 'cxx', NOREJ, ['tables-file="lex.tables"'], tables=True)
    add('nr_header', 'nr', NOREJ + ('sect3',), ['header-file="lex.h"', 'yylineno'], header=True)
    add('r_header', 'r', NOREJ + ('sect3',), ['header-file="lex.h"', 'bison-bridge', 'bison-locations'], header=True)
    add('nr_header_prefix', 'nr', NOREJ, ['header-file="lex.h"', 'prefix="foo"'], header=True)
    # D33: features the manual lists as omitted by the alternate back ends must be refused (one variant per feature, quick tier)
    add('c99_bison', 'c99', PLAIN, ['bison-bridge'], note='D33')
    add('c99_locations', 'c99', PLAIN, ['bison-bridge', 'bison-locations'], note='D33')
    add('c99_header', 'c99', PLAIN, ['header-file="lex.h"'], header=True, note='D33')
    add('c99_tables', 'c99', PLAIN, ['tables-file="lex.tables"'], tables=True, note='D33')
    add('c99_verify', 'c99', PLAIN, ['tables-file="lex.tables"', 'tables-verify'], tables=True, note='D33')
    add('r_extra', 'r', PLAIN, ['extra-type="struct verif_extra *"'], note='D8')
    add('c99_extra', 'c99', PLAIN, ['extra-type="struct verif_extra *"'])
    add('cxx_yyclass', 'cxx', PLAIN, ['yyclass="VerifLexer"'])
    add('nr_lexcompat', 'nr', PLAIN, ['lex-compat'])
    add('nr_posix', 'nr', PLAIN, ['posix-compat'])
    add('nr_caseless', 'nr', NOREJ, ['caseless'])
    add('nr_nounistd', 'nr', PLAIN, ['nounistd', 'never-interactive'])   # the manual: with nounistd the user supplies isatty(); never-interactive avoids the call
    add('nr_noline', 'nr', PLAIN, ['noline'])
    add('nr_nodefault', 'nr', PLAIN, ['nodefault'])
    add('nr_bufsize', 'nr', PLAIN, ['bufsize=4096', 'yylmax=1024', 'array'])
    add('nr_perf', 'nr', FULL, ['perf-report', 'verbose'])
    add('nr_backup', 'nr', PLAIN, ['backup'])
    add('nr_reject_undeclared', 'nr', ('reject',), [], note='D19: yyreject() without %option reject and nothing else that turns REJECT on')
    add('r_reject_undeclared', 'r', ('reject',), [], note='D19')
    add('c99_reject_undeclared', 'c99', ('reject', 'sect3'), ['noreject-placeholder'], note='placeholder, replaced below')
    V[-1].options = []; V[-1].feats = frozenset(('reject_raw',))
    add('nr_noyyfuncs', 'nr', ('nul', 'eofrule'), ['noyyinput', 'noyyunput', 'noyy_scan_buffer', 'noyy_scan_bytes', 'noyy_scan_string',
                                                   'noyyget_in', 'noyyget_out', 'noyyget_leng', 'noyyget_text', 'noyyget_lineno', 'noyyget_debug',
                                                   'noyyset_in', 'noyyset_out', 'noyyset_lineno', 'noyyset_debug', 'noyymore'])
    add('r_noyyfuncs', 'r', ('nul', 'eofrule'), ['noyyinput', 'noyyunput', 'noyy_scan_buffer', 'noyy_scan_bytes', 'noyy_scan_string',
                                                 'noyyget_in', 'noyyget_out', 'noyyget_leng', 'noyyget_text', 'noyyget_lineno', 'noyyget_debug',
                                                 'noyyget_extra', 'noyyset_extra', 'noyyget_column', 'noyyset_column',
                                                 'noyyset_in', 'noyyset_out', 'noyyset_lineno', 'noyyset_debug', 'noyymore'])
    add('r_bison_noyylval', 'r', PLAIN, ['bison-bridge', 'bison-locations', 'noyyget_lval', 'noyyset_lval', 'noyyget_lloc', 'noyyset_lloc'])
    add('nr_stack_nofuncs', 'nr', NOREJ, ['noyy_top_state'])
    add('nr_base_min', 'nr', ('nul', 'eofrule'), [])          # baselines for the noyy* comparisons (C19.R4)
    add('r_base_min', 'r', ('nul', 'eofrule'), [])
    add('r_bison_min', 'r', PLAIN, ['bison-bridge', 'bison-locations'])
    names = set()
    for v in V:
        if v.name in names: raise AssertionError('duplicate variant ' + v.name)
        names.add(v.name)
    return V

# special probe for c99 yyreject() without %option reject
_orig_probe = probe
def probe(backend, feats, options):      # noqa
    if 'reject_raw' in feats:
        L = []
        if backend in ('c99', 'go'): L.append('%%option emit="%s"' % backend)
        for o in options: L.append('%option ' + o)
        L += ['%%', '"r"       { yyreject(); }', '.|\\n      { }', '%%']
        return '\n'.join(L) + '\n'
    return _orig_probe(backend, feats, options)

# ------------------------------------------------------------------ thorough matrix

DIMS = [
    ('backend', ['nr', 'r', 'cxx', 'c99', 'go']),
    ('tables', ['Cem', 'Ce', 'Cm', 'C', 'Cf', 'CF']),
    ('align', [False, True]),
    ('mode', ['default', 'interactive', 'batch', 'always-interactive', 'never-interactive']),
    ('bits', ['default', '7bit', '8bit']),
    ('array', [False, True]),
    ('yylineno', [False, True]),
    ('reject', [False, True]),
    ('yymore', [False, True]),
    ('bol', [False, True]),
    ('vartrail', [False, True]),
    ('stack', [False, True]),
    ('debug', [False, True]),
    ('tablesfile', ['incode', 'file', 'verify']),
    ('yywrap', [True, False]),
    ('main', [False, True]),
    ('read', [False, True]),
    ('stdinit', ['default', 'stdinit', 'nostdinit']),
    ('bison', ['none', 'bridge', 'locations']),
    ('prefix', [False, True]),
    ('header', [False, True]),
    ('caseless', [False, True]),
]
TOPTS = {'Cem': ['ecs', 'meta-ecs'], 'Ce': ['ecs', 'nometa-ecs'], 'Cm': ['noecs', 'meta-ecs'], 'C': ['noecs', 'nometa-ecs'], 'Cf': ['full'], 'CF': ['fast']}

def variant_from_vector(vec, name):
    b = vec['backend']
    opts = list(TOPTS[vec['tables']])
    if vec['align']: opts.append('align')
    if vec['mode'] != 'default': opts.append(vec['mode'])
    if vec['bits'] != 'default': opts.append(vec['bits'])
    if vec['array']: opts.append('array')
    if vec['yylineno']: opts.append('yylineno')
    if vec['debug']: opts.append('debug')
    if vec['tablesfile'] != 'incode': opts.append('tables-file="lex.tables"')
    if vec['tablesfile'] == 'verify': opts.append('tables-verify')
    if not vec['yywrap']: opts.append('noyywrap')
    if vec['main']: opts.append('main')
    if vec['read']: opts.append('read')
    if vec['stdinit'] != 'default': opts.append(vec['stdinit'])
    if vec['bison'] in ('bridge', 'locations'): opts.append('bison-bridge')
    if vec['bison'] == 'locations': opts.append('bison-locations')
    if vec['prefix']: opts.append('prefix="foo"')
    if vec['header']: opts.append('header-file="lex.h"')
    if vec['caseless']: opts.append('caseless')
    feats = ['yyless', 'unput', 'input', 'nul', 'eofrule', 'echo', 'terminate', 'eol', 'fixtrail', 'sc']
    if vec['reject']: feats.append('reject')
    if vec['yymore']: feats.append('yymore')
    if vec['bol']: feats.append('bol')
    if vec['vartrail']: feats.append('vartrail')
    if vec['stack']: feats.append('stack')
    if vec['reject']: opts.append('reject')      # declared explicitly: the undeclared spelling is D19's dedicated variant
    # -L: no #line directives, so that compiler diagnostics point into the generated file (stable keys)
    return Variant(name, b, feats, opts, flags=['-L'], header=vec['header'], tables=vec['tablesfile'] != 'incode')

def covering_array(strength, seed, limit=None):
    """greedy t-wise covering array over DIMS (IPO-like random greedy).  Deterministic for a seed."""
    rnd = random.Random(seed)
    dims = DIMS
    idx = list(range(len(dims)))
    uncovered = set()
    for combo in itertools.combinations(idx, strength):
        for vals in itertools.product(*[range(len(dims[c][1])) for c in combo]):
            uncovered.add((combo, vals))
    rows = []
    while uncovered and (limit is None or len(rows) < limit):
        best = None; bestc = -1
        # seed row with one uncovered tuple, fill the rest greedily from a few random candidates
        target = next(iter(uncovered)) if len(uncovered) < 50 else rnd.choice(list(itertools.islice(uncovered, 200)))
        for _ in range(12):
            row = [rnd.randrange(len(d[1])) for d in dims]
            for c, v in zip(*target): row[c] = v
            cnt = 0
            for combo in itertools.combinations(idx, strength):
                if (combo, tuple(row[c] for c in combo)) in uncovered: cnt += 1
            if cnt > bestc: bestc = cnt; best = row
        rows.append(best)
        for combo in itertools.combinations(idx, strength):
            uncovered.discard((combo, tuple(best[c] for c in combo)))
    return [{d[0]: d[1][r[k]] for k, d in enumerate(dims)} for r in rows]

# ------------------------------------------------------------------ instantiation

def _instantiate_one(art, v, outroot):
    d = os.path.join(outroot, v.name)
    os.makedirs(d, exist_ok=True)
    v.dir = d
    meta_p = os.path.join(d, 'meta.json')
    spec = v.spec()
    sig = hashlib.sha1(('v2\0' + spec + '\0' + ' '.join(v.flags)).encode()).hexdigest()
    if os.path.exists(meta_p):
        try:
            m = json.load(open(meta_p))
            if m.get('sig') == sig:
                v.status = m['status']; v.stderr = m['stderr']; v.refused = m['refused']; v.crashed = m['crashed']
                v.src = m['src']; v.ll = m['ll']; v.hdr = m.get('hdr'); v.ll_err = m.get('ll_err', '')
                return v
        except Exception:
            pass
    for f in os.listdir(d):
        fp = os.path.join(d, f)
        if os.path.isdir(fp): shutil.rmtree(fp, ignore_errors=True)
        else: os.remove(fp)
    open(os.path.join(d, 'spec.l'), 'w').write(spec)
    out = 'lex.cc' if v.backend == 'cxx' else 'lex.c'
    env = dict(os.environ); env['LC_ALL'] = 'C'
    try:
        p = subprocess.run([art.flex] + v.flags + ['-o', out, 'spec.l'], cwd=d, stdout=subprocess.PIPE, stderr=subprocess.PIPE, timeout=int(os.environ.get('VERIF_FLEX_TIMEOUT', '20')), env=env)
        v.status = p.returncode; v.stderr = p.stderr.decode(errors='replace')[-4000:]
    except subprocess.TimeoutExpired:
        v.status = -999; v.stderr = 'timeout'
    v.crashed = v.status < 0
    v.refused = v.status > 0
    v.src = os.path.join(d, out) if v.status == 0 and os.path.exists(os.path.join(d, out)) else None
    v.hdr = os.path.join(d, 'lex.h') if v.header and os.path.exists(os.path.join(d, 'lex.h')) else None
    v.ll = None; v.ll_err = ''
    if v.src:
        cc = ['clang++', '-std=gnu++17', '-I', art.src, '-include', os.path.join(VERIF, 'lib', 'cxx_fatal.h'),
              '-DYY_FATAL_ERROR(m)=yy_verif_fatal(m)'] if v.backend == 'cxx' else ['clang', '-std=gnu11']
        ll = os.path.join(d, 'lex.ll')
        p = subprocess.run(cc + e0.IRFLAGS + [v.src, '-o', ll], cwd=d, stdout=subprocess.PIPE, stderr=subprocess.STDOUT, timeout=120)
        if p.returncode == 0: v.ll = ll
        else: v.ll_err = p.stdout.decode(errors='replace')[-3000:]
    json.dump({'sig': sig, 'status': v.status, 'stderr': v.stderr, 'refused': v.refused, 'crashed': v.crashed, 'src': v.src,
               'll': v.ll, 'hdr': v.hdr, 'll_err': v.ll_err, 'describe': v.describe()}, open(meta_p, 'w'), indent=1)
    return v

def instantiate(art, variants, setname='core'):
    root = os.path.join(art.dir, 'variants', setname)
    with e0.Lock(os.path.join(art.dir, 'variants.lock')):
        os.makedirs(root, exist_ok=True)
        with ThreadPoolExecutor(max_workers=16) as ex:
            list(ex.map(lambda v: _instantiate_one(art, v, root), variants))
    return variants

_core_cache = {}
def core(art):
    if art.dir not in _core_cache:
        _core_cache[art.dir] = instantiate(art, core_variants(), 'core')
    return _core_cache[art.dir]

_modes = {}
def mode_symbols(v):
    """m4 mode symbols flex listed in the header comments of the generated file (`/* M4_MODE_X */`, `/* M4_X = v */`):
    the mode vector the scanner was instantiated with (e.g. M4_MODE_USES_REJECT also follows from variable trailing context)"""
    if v.src is None: return frozenset()
    if v.src not in _modes:
        import re
        head = open(v.src, errors='replace').read(20000)
        _modes[v.src] = frozenset(re.findall(r'/\* ((?:M4_|YY_)[A-Za-z0-9_.<>]+)(?: = [^*]*)? \*/', head))
    return _modes[v.src]

_mod_cache = {}
def module(v):
    """ir.Module of a variant (None when it did not compile)"""
    import ir
    if v.ll is None: return None
    if v.ll not in _mod_cache: _mod_cache[v.ll] = ir.load_module(v.ll)
    return _mod_cache[v.ll]

def program(v):
    import ir
    m = module(v)
    return ir.Program([m]) if m is not None else None

if __name__ == '__main__':
    import time
    t0 = time.time()
    art = e0.artifacts()
    vs = core(art)
    print(len(vs), 'variants in %.1fs' % (time.time() - t0))
    for v in vs:
        st = 'REFUSED' if v.refused else 'CRASH' if v.crashed else ('ok' if v.ll else 'NOCOMPILE')
        if st != 'ok' or '-v' in sys.argv:
            print('%-28s %-9s %s' % (v.name, st, (v.stderr.strip().split('\n')[-1] if v.refused else (getattr(v, 'll_err', '') or '').strip().split('\n')[0])[:150]))
