"""E0 - snapshot of /repo, clean build in a scratch copy, derived artefacts, content-addressed cache.

/repo is never written.  The scratch copy lives under ${TMPDIR:-/tmp} and is deleted as soon as the
artefacts have been copied to /verif/.cache/<key>/.
"""
import os, sys, hashlib, subprocess, shutil, fcntl, glob, re, time, tempfile
from common import VERIF, REPO, AnalysisBroken

CACHE = os.environ.get('VERIF_CACHE', os.path.join(VERIF, '.cache'))
GENERATED = {'parse.c', 'parse.h', 'scan.c', 'stage1scan.c', 'stage2scan.c', 'cpp-flex.h', 'c99-flex.h', 'go-flex.h'}
SRC_EXT = ('.c', '.h', '.l', '.y', '.skl', '.sh', '.am', '.in', '.ac')
IRFLAGS = ['-O0', '-g', '-fno-discard-value-names', '-S', '-emit-llvm', '-w']

def input_files(repo=REPO):
    out = []
    src = os.path.join(repo, 'src')
    for n in sorted(os.listdir(src)):
        p = os.path.join(src, n)
        if os.path.isfile(p) and n.endswith(SRC_EXT) and n not in GENERATED:
            out.append(p)
    for n in ('configure.ac', 'Makefile.am'):
        p = os.path.join(repo, n)
        if os.path.isfile(p): out.append(p)
    return out

def source_key(repo=REPO):
    h = hashlib.sha256()
    # the framework version is part of the key so that an engine change invalidates artefacts
    for p in sorted(glob.glob(os.path.join(VERIF, 'lib', 'e0.py'))):
        h.update(open(p, 'rb').read())
    for p in input_files(repo):
        h.update(os.path.relpath(p, repo).encode()); h.update(b'\0')
        h.update(open(p, 'rb').read()); h.update(b'\0')
    return h.hexdigest()[:20]

class Lock:
    def __init__(s, path): s.path = path
    def __enter__(s):
        os.makedirs(os.path.dirname(s.path), exist_ok=True)
        s.f = open(s.path, 'w'); fcntl.flock(s.f, fcntl.LOCK_EX); return s
    def __exit__(s, *a):
        fcntl.flock(s.f, fcntl.LOCK_UN); s.f.close()

def run(cmd, cwd=None, timeout=600, env=None):
    p = subprocess.run(cmd, cwd=cwd, stdout=subprocess.PIPE, stderr=subprocess.STDOUT, timeout=timeout, env=env)
    return p.returncode, p.stdout.decode(errors='replace')

def _prune(keep):
    try:
        ds = [d for d in glob.glob(os.path.join(CACHE, '*')) if os.path.isdir(d)]
        ds.sort(key=lambda d: os.path.getmtime(d), reverse=True)
        now = time.time()
        for d in ds[3:]:
            # never remove an entry another process may still be reading: only entries idle for an hour
            if os.path.basename(d) != keep and now - os.path.getmtime(d) > 3600: shutil.rmtree(d, ignore_errors=True)
    except Exception:
        pass

def build(repo=REPO):
    """returns the artefact directory for the current content of `repo`, building it if necessary."""
    key = source_key(repo)
    art = os.path.join(CACHE, key)
    with Lock(os.path.join(CACHE, 'lock')):
        if os.path.exists(os.path.join(art, 'BUILD_OK')):
            os.utime(art, None)
            return art
        if os.path.exists(art): shutil.rmtree(art)
        scratch = tempfile.mkdtemp(prefix='flexverif.', dir=os.environ.get('TMPDIR', '/tmp'))
        try:
            _build_in(repo, scratch, art)
        finally:
            shutil.rmtree(scratch, ignore_errors=True)
        _prune(key)
    return art

def _build_in(repo, scratch, art):
    t0 = time.time()
    rc, out = run(['rsync', '-a', '--exclude', '.git', '--exclude', '.verifcache', '--exclude', '/tests', '--exclude', '/doc', '--exclude', '/po',
                   '--exclude', '/examples', '--exclude', '*.o', '--exclude', '*.lo', '--exclude', '.libs',
                   repo.rstrip('/') + '/', scratch + '/'])
    if rc != 0: raise AnalysisBroken('rsync of %s failed: %s' % (repo, out[-400:]))
    # configure baked absolute paths into the Makefiles: point them at the scratch copy
    repo_abs = os.path.abspath(repo)
    for mk in [os.path.join(scratch, 'Makefile'), os.path.join(scratch, 'src', 'Makefile')]:
        if os.path.exists(mk):
            st = os.stat(mk)
            t = open(mk).read()
            m = re.search(r'^abs_top_builddir = (\S+)$', t, re.M)
            baked = m.group(1) if m else repo_abs
            t = t.replace(baked, scratch)
            open(mk, 'w').write(t)
            os.utime(mk, (st.st_atime, st.st_mtime))
    src = os.path.join(scratch, 'src')
    if not os.path.exists(os.path.join(src, 'Makefile')):
        raise AnalysisBroken('no configured src/Makefile in %s (the repository must be configured)' % repo)
    # clean build: remove every generated file so that nothing stale is analysed
    for n in list(GENERATED) + ['flex', 'stage1flex']:
        p = os.path.join(src, n)
        if os.path.exists(p): os.remove(p)
    rc, out = run(['make', '-C', src, '-j16', 'flex'], timeout=900)
    if rc != 0 or not os.path.exists(os.path.join(src, 'flex')):
        raise AnalysisBroken('build of flex failed in scratch copy:\n' + out[-3000:])
    os.makedirs(art)
    open(os.path.join(art, 'build.log'), 'w').write(out)
    # translation units of `flex` from the link line
    m = None
    for ln in out.split('\n'):
        if re.search(r'\s-o flex\s', ln) and '.o' in ln and 'libtool: link' in ln: m = ln
    if m is None:
        for ln in out.split('\n'):
            if re.search(r'\s-o flex\s', ln) and '.o' in ln: m = ln
    if m is None: raise AnalysisBroken('cannot find the link line of flex in the build log')
    objs = re.findall(r'(\S+)\.o\b', m.split(' -o flex ', 1)[1])
    tus = [o + '.c' for o in objs]
    for t in tus:
        if not os.path.exists(os.path.join(src, t)): raise AnalysisBroken('translation unit %s missing' % t)
    os.makedirs(os.path.join(art, 'ir'))
    os.makedirs(os.path.join(art, 'src'))
    procs = []
    for t in tus:
        cmd = ['clang'] + IRFLAGS + ['-DHAVE_CONFIG_H', '-I.', '-DLOCALEDIR="/usr/local/share/locale"', t,
                                     '-o', os.path.join(art, 'ir', t[:-2] + '.ll')]
        procs.append((t, subprocess.Popen(cmd, cwd=src, stdout=subprocess.PIPE, stderr=subprocess.STDOUT)))
    for t, p in procs:
        o, _ = p.communicate()
        if p.returncode != 0: raise AnalysisBroken('clang -emit-llvm failed for %s: %s' % (t, o.decode(errors='replace')[-2000:]))
    for n in os.listdir(src):
        if n.endswith(('.c', '.h', '.l', '.y', '.skl', '.sh', '.am')):
            shutil.copy2(os.path.join(src, n), os.path.join(art, 'src', n))
    shutil.copy2(os.path.join(src, 'flex'), os.path.join(art, 'flex'))
    open(os.path.join(art, 'tus.txt'), 'w').write('\n'.join(tus) + '\n')
    open(os.path.join(art, 'BUILD_OK'), 'w').write('built in %.1fs\n' % (time.time() - t0))

class Artifacts:
    def __init__(s, art):
        s.dir = art
        s.flex = os.path.join(art, 'flex')
        s.src = os.path.join(art, 'src')
        s.tus = open(os.path.join(art, 'tus.txt')).read().split()
        s._prog = None
    def ir_path(s, tu):
        return os.path.join(s.dir, 'ir', tu.replace('.c', '') + '.ll')
    def flex_program(s):
        """ir.Program over all translation units of flex"""
        if s._prog is None:
            import ir
            s._prog = ir.Program([ir.load_module(s.ir_path(t)) for t in s.tus])
        return s._prog
    def source(s, name):
        return open(os.path.join(s.src, name), errors='replace').read()

def artifacts(repo=REPO):
    return Artifacts(build(repo))

if __name__ == '__main__':
    t0 = time.time(); a = artifacts(); print(a.dir, '%.1fs' % (time.time() - t0)); print(a.tus)
