"""Path analyses over ir.Function used by several rules."""
import ir
from ir import Resolver, loc_class, field_of, root_of
from ir import regs_in

def strip_casts(fn, v):
    """follow bitcast / ptr casts back to the underlying value"""
    seen = 0
    while seen < 20:
        seen += 1
        if v[0] == 'ccast': v = v[2]; continue
        d = fn.def_of(v)
        if d is not None and d.op in ('bitcast', 'addrspacecast'):
            v = d.ops[0]; continue
        return v
    return v

def int_origin(fn, v):
    """follow sext/zext/trunc back"""
    n = 0
    while n < 20:
        n += 1
        d = fn.def_of(v)
        if d is not None and d.op in ('sext', 'zext', 'trunc'):
            v = d.ops[0]; continue
        return v
    return v

def branch_on_null(fn, br):
    """If conditional branch `br` tests a pointer against null, return (ptr_value, null_target, nonnull_target)."""
    if br.op != 'br' or not br.ops: return None
    c = br.ops[0]
    neg = False
    d = fn.def_of(c)
    while d is not None and d.op == 'xor' and d.ops[1] == ('int', 1):
        neg = not neg; d = fn.def_of(d.ops[0])
    if d is None or d.op != 'icmp' or d.pred not in ('eq', 'ne'): return None
    a, b = d.ops
    if b == ('null',): p = a
    elif a == ('null',): p = b
    else: return None
    t, f = br.targets[0], br.targets[1]
    null_on_true = (d.pred == 'eq') != neg
    return (p, t if null_on_true else f, f if null_on_true else t)

class AllocCheck:
    """C14.R1: the result of an allocation call is compared with null before it is dereferenced, passed on
    or returned, and the null edge ends in the fatal hook or an error return.

    verdicts: list of (kind, ins, detail) with kind in
       'tested'            (informational, one per call: where it is tested)
       'deref-untested', 'passed-untested', 'returned-untested', 'null-edge-continues', 'null-edge-uses'
    """
    def __init__(s, prog, fn, call, allow_callees=()):
        s.prog = prog; s.fn = fn; s.call = call; s.cfg = prog.cfg(fn)
        s.res = Resolver(fn)
        s.allow = set(allow_callees)
        s.problems = []
        s.tests = []
        s.fatal_edges = []

    # alias bookkeeping: a value is an alias of the allocation if it is the call result (through casts)
    # or a load from a holder location recorded on this path.
    def run(s):
        call = s.call; fn = s.fn
        start_alias = frozenset([call.res])
        # state: (block, index, aliases(frozenset regs), holders(frozenset locs), mode 'U'|'N', retconst)
        seen = set()
        work = [(call.blk, call.idx + 1, start_alias, frozenset(), 'U', None)]
        steps = 0
        while work:
            blk, k, aliases, holders, mode, retc = work.pop()
            key = (blk.name, k, aliases, holders, mode, retc)
            if key in seen: continue
            seen.add(key)
            steps += 1
            if steps > 20000:
                s.problems.append(('analysis-limit', call, 'path exploration limit')); break
            aliases = set(aliases); holders = set(holders)
            n = s.cfg._live_len(blk)
            stop = False
            for j in range(k, n):
                x = blk.ins[j]
                op = x.op
                if op in ('bitcast', 'addrspacecast') and x.ops[0][0] == 'reg' and x.ops[0][1] in aliases:
                    aliases.add(x.res); continue
                if op == 'store':
                    v, p = x.ops
                    if v[0] == 'reg' and v[1] in aliases:
                        holders.add(s._hkey(p)); continue
                    hk = s._hkey(p)
                    if hk in holders:
                        holders.discard(hk)      # overwritten with something else
                    if s._derived(p, aliases):
                        if mode == 'U': s.problems.append(('deref-untested', x, 'store through the allocation result before it is compared with null'))
                        else: s.problems.append(('null-edge-uses', x, 'store through the allocation result on the path where it is null'))
                        stop = True; break
                    # tracking of the function return value
                    if p[0] == 'reg' and p[1] == 'retval':
                        retc = v if v[0] in ('int', 'null') else 'dyn'
                    continue
                if op == 'load':
                    p = x.ops[0]
                    if s._hkey(p) in holders:
                        aliases.add(x.res); continue
                    if s._derived(p, aliases):
                        if mode == 'U': s.problems.append(('deref-untested', x, 'load through the allocation result before it is compared with null'))
                        else: s.problems.append(('null-edge-uses', x, 'load through the allocation result on the path where it is null'))
                        stop = True; break
                    continue
                if op in ('call', 'invoke'):
                    if x is call: continue
                    for a in x.ops:
                        if s._derived(a, aliases) and not (isinstance(x.callee, str) and (x.callee in s.allow or x.callee in s.prog.noreturn())):
                            if mode == 'U':
                                s.problems.append(('passed-untested', x, 'allocation result passed to %s before it is compared with null' % x.callee))
                            else:
                                s.problems.append(('null-edge-uses', x, 'null allocation result passed to %s' % x.callee))
                            stop = True; break
                    if stop: break
                    continue
                if op == 'ret':
                    if mode == 'U':
                        # returning the (untested) result itself hands the obligation to the caller - flex never does that
                        s.problems.append(('returned-untested', x, 'function returns before the allocation result is compared with null'))
                    else:
                        rv = retc
                        if x.ops and x.ops[0][0] in ('int', 'null'): rv = x.ops[0]
                        ok = False
                        if rv is not None and rv != 'dyn':
                            if rv[0] == 'int' and rv[1] != 0: ok = True       # documented error status
                            if rv[0] == 'null': ok = True                      # NULL buffer handle
                        if not ok:
                            s.problems.append(('null-edge-continues', x, 'allocation failure path returns normally (no fatal hook, no error status)'))
                    stop = True; break
                if op == 'br' and x.ops:
                    bn = branch_on_null(fn, x)
                    if bn is not None and s._derived_exact(bn[0], aliases):
                        if mode == 'U':
                            s.tests.append(x)
                            nb = fn.bmap[bn[1]]
                            work.append((nb, 0, frozenset(aliases), frozenset(holders), 'N', retc))
                            # non-null edge: obligation discharged along it
                        else:
                            # already on the null edge: follow the null side only
                            work.append((fn.bmap[bn[1]], 0, frozenset(aliases), frozenset(holders), 'N', retc))
                        stop = True; break
            if stop: continue
            if blk in s.cfg.cut:
                if mode == 'N': s.fatal_edges.append(blk.ins[s.cfg.cut[blk]])
                continue   # fatal hook / no-return call ends the path
            last = blk.ins[n - 1] if n else None
            if last is not None and last.op == 'unreachable': continue
            for t in s.cfg.succ[blk]:
                work.append((t, 0, frozenset(aliases), frozenset(holders), mode, retc))
        return s

    def _hkey(s, p):
        l = s.res.loc(p)
        # locals by identity, everything else by object-insensitive class
        if l[0] == 'local': return l
        return _freeze(l)

    def _derived_exact(s, v, aliases):
        v = strip_casts(s.fn, v)
        return v[0] == 'reg' and v[1] in aliases

    def _derived(s, v, aliases, depth=0):
        """is pointer value v computed from an alias (casts, GEPs)?"""
        if depth > 20 or not isinstance(v, tuple): return False
        if v[0] == 'reg':
            if v[1] in aliases: return True
            d = s.fn.def_of(v)
            if d is None: return False
            if d.op in ('bitcast', 'getelementptr', 'addrspacecast'): return s._derived(d.ops[0], aliases, depth + 1)
            return False
        if v[0] == 'ccast': return s._derived(v[2], aliases, depth + 1)
        if v[0] == 'cgep': return s._derived(v[2], aliases, depth + 1)
        return False

def _freeze(l):
    """hashable location key without instruction objects"""
    if l[0] == 'call': return ('call', l[1], id(l[2]))
    if l[0] == 'field': return ('field', l[1], l[2], _freeze(l[3]))
    if l[0] in ('elem', 'deref'): return (l[0], _freeze(l[1]))
    return l


# ---------------------------------------------------------------- generic helpers

def accesses(fn, res=None):
    """yield (ins, 'load'|'store', location) for every load/store of fn"""
    res = res or Resolver(fn)
    for x in fn.ins:
        if x.op == 'load': yield x, 'load', res.loc(x.ops[0])
        elif x.op == 'store': yield x, 'store', res.loc(x.ops[1])

def stores_to(prog, cls_pred):
    """all store instructions in the program whose location class satisfies cls_pred(loc_class, loc)"""
    out = []
    for f in set(prog.functions.values()):
        res = Resolver(f)
        for x in f.ins:
            if x.op == 'store':
                l = res.loc(x.ops[1])
                if cls_pred(loc_class(l), l): out.append(x)
    return out

def loads_of(prog, cls_pred):
    out = []
    for f in set(prog.functions.values()):
        res = Resolver(f)
        for x in f.ins:
            if x.op == 'load':
                l = res.loc(x.ops[0])
                if cls_pred(loc_class(l), l): out.append(x)
    return out

def is_global(name):
    return lambda c, l: c == ('global', name)

def is_field(field, struct=None):
    return lambda c, l: c[0] == 'field' and c[2] == field and (struct is None or c[1] == struct)

def is_named(name):
    """global `name` (non-reentrant scanners) or struct field `name` / `name_r` (reentrant: yyguts_t members)"""
    def p(c, l):
        if c == ('global', name): return True
        return c[0] == 'field' and c[2] in (name, name + '_r')
    return p

def named_temporary(fn, load):
    """the value stored into the local that `load` reads, when that local is a named temporary: an alloca whose only uses are
    loads and exactly one store of a value into it (its address never escapes).  `t = a + b; if (t > c)` then depends on
    what `a + b` depends on.  Parameters qualify too (their one store spills the argument, which is a leaf).  Else None."""
    cache = fn.__dict__.setdefault('_named_tmp', {})
    p = load.ops[0]
    if not isinstance(p, tuple) or p[0] != 'reg': return None
    if p[1] in cache: return cache[p[1]]
    val = None
    a = fn.def_of(p)
    if a is not None and a.op == 'alloca':
        stores = []
        for u in fn.uses().get(p[1], ()):
            if u.op == 'load' and u.ops[0] == p: continue
            if u.op == 'store' and len(u.ops) > 1 and u.ops[1] == p and p[1] not in regs_in(u.ops[0]): stores.append(u); continue
            stores = None; break
        if stores is not None and len(stores) == 1: val = stores[0].ops[0]
    cache[p[1]] = val
    return val

def value_slice(fn, v, depth=0, seen=None, temps=False):
    """instructions that compute value v inside fn (backward slice through registers; loads are leaves; with temps=True the
    load of a named temporary continues with the value assigned to it)"""
    if seen is None: seen = set()
    out = []
    if not isinstance(v, tuple) or v[0] != 'reg' or depth > 40: return out
    d = fn.def_of(v)
    if d is None or d in seen: return out
    seen.add(d); out.append(d)
    if d.op == 'load':
        t = named_temporary(fn, d) if temps else None
        if t is not None: out += value_slice(fn, t, depth + 1, seen, temps)
        return out
    if d.op == 'alloca': return out
    if d.op in ('call', 'invoke'):
        for a in d.ops: out += value_slice(fn, a, depth + 1, seen, temps)
        return out
    for o in d.ops: out += value_slice(fn, o, depth + 1, seen, temps)
    return out

def cond_loads(fn, br, res=None):
    """locations loaded while computing the condition of conditional branch / switch `br` (a named temporary tested by
    the condition counts with what was assigned to it).
    For && / || chains clang -O0 emits separate branches, so each branch sees only its own operand."""
    res = res or Resolver(fn)
    if not br.ops: return []
    out = []
    for d in value_slice(fn, br.ops[0], temps=True):
        if d.op == 'load': out.append((d, res.loc(d.ops[0])))
    return out

def cond_calls(fn, br):
    if not br.ops: return []
    return [d for d in value_slice(fn, br.ops[0]) if d.op in ('call', 'invoke')]

def controlling_locs(prog, ins):
    """set of location classes read by the branch conditions that (transitively) control whether `ins` executes"""
    fn = ins.fn; cfg = prog.cfg(fn, cut=False); res = Resolver(fn)
    out = set()
    for br, t in cfg.control_deps_closure(ins.blk):
        for d, l in cond_loads(fn, br, res): out.add(loc_class(l))
    return out

def const_arg(fn, a):
    """C string / integer constant of a call argument (looks through gettext()/_() and casts), else None"""
    if a[0] == 'int': return a[1]
    s_ = fn.mod.cstring(a)
    if s_ is not None: return s_
    d = fn.def_of(strip_casts(fn, a))
    if d is not None and d.op == 'call' and d.callee in ('gettext', 'dgettext', 'dcgettext') and d.ops:
        return fn.mod.cstring(d.ops[-1] if d.callee == 'gettext' else d.ops[1])
    return None

def const_args(mod, call):
    """list with the C string / integer constant of each argument, None when not constant"""
    return [const_arg(call.fn, a) for a in call.ops]
