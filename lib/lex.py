"""E3 - model of the flex input language, sufficient for src/scan.l.

parse_spec(text) -> Spec with definitions, start conditions, options and rules (start conditions after
scope nesting, pattern text, action text, source line).  Regex engine: pattern -> AST -> NFA over bytes ->
combined DFA with flex's priority (longest match, then first rule), used for exact regular-language
questions (emptiness of intersections, witness strings).
"""
import re, collections

# ------------------------------------------------------------------ splitting a .l file

class Rule:
    def __init__(s): s.line = 0; s.scs = []; s.pat = ''; s.action = ''; s.own = None; s.idx = 0; s.continued = False
    def __repr__(s): return '<rule #%d l.%d <%s> %r>' % (s.idx, s.line, ','.join(s.scs), s.pat)
    @property
    def is_eof(s): return s.pat == '<<EOF>>'
    def active_in(s, sc, spec):
        if s.scs == ['*']: return True
        if not s.scs: return sc in spec.inclusive
        return sc in s.scs

class Spec:
    def __init__(s):
        s.defs = collections.OrderedDict(); s.def_line = {}
        s.exclusive = []; s.inclusive = ['INITIAL']; s.options = []; s.sc_order = ['INITIAL']
        s.rules = []; s.sect1_lines = 0; s.sect3_line = None
    @property
    def start_conditions(s): return s.inclusive + s.exclusive
    @property
    def caseless(s): return 'caseless' in s.options or 'case-insensitive' in s.options

def scan_pattern(s, i):
    """end index of the pattern starting at s[i]: first whitespace outside quotes and brackets"""
    n = len(s); inq = False; inb = False
    while i < n:
        c = s[i]
        if c == '\\': i += 2; continue
        if inq:
            if c == '"': inq = False
            i += 1; continue
        if inb:
            if c == '[' and s.startswith('[:', i):
                j = s.find(':]', i + 2)
                if j > 0: i = j + 2; continue
            if c == ']': inb = False
            i += 1; continue
        if c == '"': inq = True
        elif c == '[':
            inb = True; i += 1
            if i < n and s[i] == '^': i += 1
            if i < n and s[i] == ']': i += 1
            continue
        elif c in ' \t': break
        i += 1
    return i

def brace_balance(a):
    """net { } depth of C text, ignoring strings, character constants and comments; returns (depth, in_comment)"""
    d = 0; k = 0; n = len(a); inq = None
    while k < n:
        c = a[k]
        if inq:
            if c == '\\': k += 2; continue
            if c == inq or c == '\n': inq = None
            k += 1; continue
        if a.startswith('/*', k):
            e = a.find('*/', k + 2)
            if e < 0: return d, True
            k = e + 2; continue
        if c in '"\'': inq = c
        elif c == '{': d += 1
        elif c == '}': d -= 1
        k += 1
    return d, False

def parse_spec(text):
    sp = Spec()
    lines = text.split('\n')
    n = len(lines); i = 0
    # ---- section 1
    in_block = False; top_depth = 0; in_comment = False
    while i < n:
        ln = lines[i]
        if in_block:
            if ln.startswith('%}'): in_block = False
            i += 1; continue
        if top_depth:
            d, _ = brace_balance(ln); top_depth += d; i += 1; continue
        if in_comment:
            if '*/' in ln: in_comment = False
            i += 1; continue
        if ln.startswith('%%'): i += 1; break
        if ln.startswith('%{'): in_block = True; i += 1; continue
        if ln.startswith('%top'):
            d, _ = brace_balance(ln); top_depth = d; i += 1; continue
        if ln.startswith('/*'):
            if '*/' not in ln: in_comment = True
            i += 1; continue
        if ln.startswith('%x'): sp.exclusive += ln.split()[1:]; sp.sc_order += ln.split()[1:]; i += 1; continue
        if ln.startswith('%s'): sp.inclusive += ln.split()[1:]; sp.sc_order += ln.split()[1:]; i += 1; continue
        if ln.startswith('%option'): sp.options += ln.split()[1:]; i += 1; continue
        m = re.match(r'^([A-Za-z_][A-Za-z0-9_-]*)[ \t]+(.*\S)\s*$', ln)
        if m: sp.defs[m.group(1)] = m.group(2); sp.def_line[m.group(1)] = i + 1
        i += 1
    sp.sect1_lines = i
    # ---- section 2
    scope = [[]]      # stack of start-condition lists (cumulative)
    in_block = False; in_comment = False
    pending = []      # rules with action '|'
    while i < n:
        ln = lines[i]
        if in_block:
            if ln.startswith('%}'): in_block = False
            i += 1; continue
        if in_comment:
            if '*/' in ln: in_comment = False
            i += 1; continue
        if ln.startswith('%%'):
            sp.sect3_line = i + 2; break
        st = ln.strip()
        if not st: i += 1; continue
        if ln.startswith('%{'): in_block = True; i += 1; continue
        indented = ln[0] in ' \t'
        if indented and len(scope) == 1:
            # indented code at top level of section 2 (may open a comment)
            if st.startswith('/*') and '*/' not in st: in_comment = True
            i += 1; continue
        if st.startswith('/*'):
            # comment line inside a scope (flex allows indented comments there)
            if '*/' not in st[2:]: in_comment = True
            i += 1; continue
        if st == '}' and len(scope) > 1:
            scope.pop(); i += 1; continue
        p = 0; own = None; s = st
        if s.startswith('<') and not s.startswith('<<EOF>>'):
            j = s.index('>'); own = [x.strip() for x in s[1:j].split(',')]; p = j + 1
            rest = s[p:].strip()
            if rest == '{' or re.match(r'^\{\s*/\*.*\*/\s*$', rest):
                cur = scope[-1]
                scope.append(own if own == ['*'] or cur == ['*'] else cur + [x for x in own if x not in cur])
                i += 1; continue
        e = scan_pattern(s, p)
        pat = s[p:e]; action = s[e:].strip(); startline = i + 1
        d, inc = brace_balance(action)
        while (d > 0 or inc) and i + 1 < n:
            i += 1; action += '\n' + lines[i]; d, inc = brace_balance(action)
        r = Rule(); r.line = startline; r.own = own; r.pat = pat; r.action = action
        cur = scope[-1]
        if own is None: r.scs = list(cur)
        elif own == ['*'] or cur == ['*']: r.scs = ['*']
        else: r.scs = cur + [x for x in own if x not in cur]
        r.idx = len(sp.rules) + 1
        sp.rules.append(r)
        if action == '|':
            r.continued = True; pending.append(r)
        else:
            for q in pending: q.action = action
            pending = []
        i += 1
    return sp

# ------------------------------------------------------------------ regex AST

ALL = frozenset(range(256))
def _isalpha(c): return 65 <= c <= 90 or 97 <= c <= 122
POSIX = {
    'alpha': _isalpha, 'digit': lambda c: 48 <= c <= 57, 'alnum': lambda c: _isalpha(c) or 48 <= c <= 57,
    'blank': lambda c: c in (32, 9), 'space': lambda c: c in (32, 9, 10, 11, 12, 13), 'upper': lambda c: 65 <= c <= 90,
    'lower': lambda c: 97 <= c <= 122, 'xdigit': lambda c: 48 <= c <= 57 or 65 <= c <= 70 or 97 <= c <= 102,
    'punct': lambda c: 33 <= c <= 126 and not (_isalpha(c) or 48 <= c <= 57), 'print': lambda c: 32 <= c <= 126,
    'graph': lambda c: 33 <= c <= 126, 'cntrl': lambda c: c < 32 or c == 127,
}
ESC = {'n': 10, 't': 9, 'r': 13, 'f': 12, 'b': 8, 'a': 7, 'v': 11}

class PatternError(Exception): pass

class P:
    """recursive-descent parser for the pattern subset used by scan.l; produces
    ('set', frozenset) | ('cat', [..]) | ('alt', [..]) | ('star', x) | ('eps',)"""
    def __init__(s, text, defs, caseless, dotall=False, extended=False):
        s.t = text; s.i = 0; s.defs = defs; s.cl = caseless
        s.dotall = dotall; s.ext = extended
        s.bol = False; s.trail = None; s.eol = False
    def skipx(s):
        """(?x: ) mode: white space and C comments inside the pattern are ignored"""
        if not s.ext: return
        while s.i < len(s.t):
            if s.t[s.i] in ' \t\n': s.i += 1
            elif s.t.startswith('/*', s.i):
                e = s.t.find('*/', s.i + 2); s.i = len(s.t) if e < 0 else e + 2
            else: break
    def peek(s): return s.t[s.i] if s.i < len(s.t) else None
    def fold(s, cs):
        if not s.cl: return frozenset(cs)
        o = set(cs)
        for c in cs:
            if 65 <= c <= 90: o.add(c + 32)
            elif 97 <= c <= 122: o.add(c - 32)
        return frozenset(o)
    def esc(s):
        s.i += 1
        if s.i >= len(s.t): raise PatternError('dangling backslash')
        c = s.t[s.i]; s.i += 1
        if c in ESC: return ESC[c]
        if c in '01234567':
            j = s.i - 1; k = j
            while k < len(s.t) and k < j + 3 and s.t[k] in '01234567': k += 1
            s.i = k; return int(s.t[j:k], 8) & 255
        if c == 'x' and s.i < len(s.t) and s.t[s.i] in '0123456789abcdefABCDEF':
            k = s.i
            while k < len(s.t) and k < s.i + 2 and s.t[k] in '0123456789abcdefABCDEF': k += 1
            v = int(s.t[s.i:k], 16); s.i = k; return v
        return ord(c)
    def parse_rule(s):
        """full rule pattern: optional ^, regex, optional /trail or $"""
        if s.peek() == '^': s.bol = True; s.i += 1
        head = s.alt()
        if s.peek() == '/':
            s.i += 1; s.trail = s.alt()
        if s.peek() == '$' and s.i == len(s.t) - 1:
            s.eol = True; s.i += 1
        if s.i != len(s.t): raise PatternError('junk at %d in %r' % (s.i, s.t))
        return head
    def alt(s):
        parts = [s.cat()]
        while s.peek() == '|': s.i += 1; parts.append(s.cat())
        return ('alt', parts) if len(parts) > 1 else parts[0]
    def cat(s):
        items = []
        s.skipx()
        while s.peek() is not None and s.peek() not in '|)/':
            if s.peek() == '$' and s.i == len(s.t) - 1: break
            items.append(s.rep())
            s.skipx()
        return ('cat', items)
    def rep(s):
        a = s.atom()
        while True:
            s.skipx()
            c = s.peek()
            if c == '*': s.i += 1; a = ('star', a)
            elif c == '+': s.i += 1; a = ('cat', [a, ('star', a)])
            elif c == '?': s.i += 1; a = ('alt', [a, ('cat', [])])
            elif c == '{' and s.i + 1 < len(s.t) and s.t[s.i + 1].isdigit():
                j = s.t.index('}', s.i); body = s.t[s.i + 1:j]; s.i = j + 1
                if ',' in body:
                    lo, hi = body.split(','); lo = int(lo); hi = int(hi) if hi.strip() else None
                else: lo = hi = int(body)
                parts = [a] * lo
                if hi is None: parts.append(('star', a))
                else: parts += [('alt', [a, ('cat', [])])] * (hi - lo)
                a = ('cat', parts)
            else: break
        return a
    def atom(s):
        c = s.peek()
        if c == '(' and s.t.startswith('(?#', s.i):
            e = s.t.index(')', s.i); s.i = e + 1; return ('cat', [])
        if c == '(' and s.t.startswith('(?', s.i):
            m = re.compile(r'\(\?([isx]*)(?:-([isx]*))?:').match(s.t, s.i)
            if not m: raise PatternError('bad (? group in %r' % s.t)
            on, off = m.group(1), m.group(2) or ''
            saved = (s.cl, s.dotall, s.ext)
            if 'i' in on: s.cl = True
            if 's' in on: s.dotall = True
            if 'x' in on: s.ext = True
            if 'i' in off: s.cl = False
            if 's' in off: s.dotall = False
            if 'x' in off: s.ext = False
            s.i = m.end(); r = s.alt()
            if s.peek() != ')': raise PatternError('missing ) in %r at %d' % (s.t, s.i))
            s.i += 1; s.cl, s.dotall, s.ext = saved
            return r
        if c == '(':
            s.i += 1; r = s.alt()
            if s.peek() != ')': raise PatternError('missing ) in %r at %d' % (s.t, s.i))
            s.i += 1; return r
        if c == '"':
            s.i += 1; items = []
            while s.peek() != '"':
                if s.peek() is None: raise PatternError('unterminated quote in %r' % s.t)
                if s.peek() == '\\': items.append(('set', s.fold([s.esc()])))
                else: items.append(('set', s.fold([ord(s.t[s.i]) & 255]))); s.i += 1
            s.i += 1; return ('cat', items)
        if c == '[':
            r = s.ccl()
            while s.t.startswith('{-}', s.i) or s.t.startswith('{+}', s.i):
                op = s.t[s.i + 1]; s.i += 3
                if s.peek() != '[': raise PatternError('class expected after {%s}' % op)
                r2 = s.ccl()
                r = ('set', frozenset(r[1] - r2[1]) if op == '-' else frozenset(r[1] | r2[1]))
            return r
        if c == '{':
            j = s.t.index('}', s.i); name = s.t[s.i + 1:j]; s.i = j + 1
            if name not in s.defs: raise PatternError('undefined {%s}' % name)
            sub = P('(' + s.defs[name] + ')', s.defs, s.cl, s.dotall, s.ext); r = sub.alt()
            return r
        if c == '.': s.i += 1; return ('set', ALL if s.dotall else ALL - {10})
        if c == '\\': return ('set', s.fold([s.esc()]))
        if c == '^':
            s.i += 1; return ('set', s.fold([ord('^')]))
        s.i += 1; return ('set', s.fold([ord(c) & 255]))
    def ccl(s):
        s.i += 1; neg = False; cs = set()
        if s.peek() == '^': neg = True; s.i += 1
        first = True
        while True:
            c = s.peek()
            if c is None: raise PatternError('unterminated class in %r' % s.t)
            if c == ']' and not first: s.i += 1; break
            first = False
            if c == '[' and s.t.startswith('[:', s.i):
                j = s.t.index(':]', s.i); nm = s.t[s.i + 2:j]; s.i = j + 2
                ng = nm.startswith('^'); nm = nm.lstrip('^').lower()
                if nm not in POSIX: raise PatternError('class [:%s:]' % nm)
                f = POSIX[nm]
                if s.cl and nm in ('upper', 'lower'): f = POSIX['alpha']
                cs |= {x for x in range(256) if bool(f(x)) != ng}
                continue
            lo = s.esc() if c == '\\' else ord(c) & 255
            if c != '\\': s.i += 1
            if s.peek() == '-' and s.i + 1 < len(s.t) and s.t[s.i + 1] != ']':
                s.i += 1; c2 = s.peek(); hi = s.esc() if c2 == '\\' else ord(c2) & 255
                if c2 != '\\': s.i += 1
                cs |= set(range(lo, hi + 1))
            else: cs.add(lo)
        cs = s.fold(cs)
        return ('set', frozenset(ALL - cs) if neg else frozenset(cs))

def parse_pattern(pat, spec):
    """returns dict(head=AST, trail=AST|None, bol=bool, eol=bool)"""
    p = P(pat, spec.defs, spec.caseless)
    head = p.parse_rule()
    return {'head': head, 'trail': p.trail, 'bol': p.bol, 'eol': p.eol}

# ------------------------------------------------------------------ NFA / DFA

class NFA:
    def __init__(s): s.eps = []; s.tr = []
    def new(s): s.eps.append(set()); s.tr.append([]); return len(s.eps) - 1
    def build(s, ast):
        k = ast[0]
        if k == 'set':
            a = s.new(); b = s.new(); s.tr[a].append((ast[1], b)); return a, b
        if k == 'cat':
            a = s.new(); cur = a
            for it in ast[1]:
                x, y = s.build(it); s.eps[cur].add(x); cur = y
            return a, cur
        if k == 'alt':
            a = s.new(); b = s.new()
            for it in ast[1]:
                x, y = s.build(it); s.eps[a].add(x); s.eps[y].add(b)
            return a, b
        if k == 'star':
            a = s.new(); b = s.new(); x, y = s.build(ast[1]); s.eps[a] |= {x, b}; s.eps[y] |= {x, b}; return a, b
        raise ValueError(k)
    def closure(s, S):
        st = list(S); S = set(S)
        while st:
            q = st.pop()
            for r in s.eps[q]:
                if r not in S: S.add(r); st.append(r)
        return frozenset(S)

class DFA:
    """combined DFA of several (id, AST) with accept[state] = sorted list of ids accepting there"""
    def __init__(s, rules):
        n = NFA(); start = n.new(); fin = {}
        for rid, ast in rules:
            a, b = n.build(ast); n.eps[start].add(a); fin[b] = rid
        sets = list({cs for q in range(len(n.tr)) for cs, _ in n.tr[q]})
        cls = {}
        for c in range(256):
            key = tuple(c in cs for cs in sets); cls.setdefault(key, []).append(c)
        s.classes = list(cls.values())
        s.class_of = [0] * 256
        for ci, cl in enumerate(s.classes):
            for c in cl: s.class_of[c] = ci
        s0 = n.closure({start}); states = {s0: 0}; order = [s0]; s.trans = {}; s.accept = {}
        i = 0
        while i < len(order):
            S = order[i]
            w = sorted({fin[q] for q in S if q in fin})
            if w: s.accept[i] = w
            for ci, cl in enumerate(s.classes):
                c = cl[0]; T = set()
                for q in S:
                    for cs, r in n.tr[q]:
                        if c in cs: T.add(r)
                if not T: continue
                T = n.closure(T)
                if T not in states: states[T] = len(order); order.append(T)
                s.trans[(i, ci)] = states[T]
            i += 1
        s.nstates = len(order)
    def step(s, st, byte):
        return s.trans.get((st, s.class_of[byte]))
    def run(s, data):
        st = 0
        for b in data:
            st = s.step(st, b)
            if st is None: return None
        return st
    def matches(s, data):
        st = s.run(data)
        return st is not None and st in s.accept

def ast_of_string_pred(pred):
    """AST for { w : every byte of w satisfies pred } (non-empty)"""
    cs = frozenset(c for c in range(256) if pred(c))
    return ('cat', [('set', cs), ('star', ('set', cs))])

def intersect_witness(ast_a, ast_b):
    """shortest byte string in L(a) ∩ L(b), or None"""
    da = DFA([(1, ast_a)]); db = DFA([(1, ast_b)])
    start = (0, 0); seen = {start: None}; q = collections.deque([start])
    while q:
        st = q.popleft()
        if st[0] in da.accept and st[1] in db.accept:
            w = []; x = st
            while seen[x] is not None: x, c = seen[x]; w.append(c)
            return bytes(reversed(w))
        for c in range(256):
            a = da.step(st[0], c)
            if a is None: continue
            b = db.step(st[1], c)
            if b is None: continue
            ns = (a, b)
            if ns not in seen: seen[ns] = (st, c); q.append(ns)
    return None

if __name__ == '__main__':
    import sys
    text = open(sys.argv[1], errors='replace').read()
    sp = parse_spec(text)
    print('defs', len(sp.defs), 'x', len(sp.exclusive), 's', len(sp.inclusive), 'options', sp.options, 'rules', len(sp.rules))
    bad = 0
    for r in sp.rules:
        if r.is_eof: continue
        try: parse_pattern(r.pat, sp)
        except Exception as e:
            bad += 1; print('  PATTERN?', r.line, repr(r.pat), e)
    if len(sys.argv) > 2:
        for r in sp.rules: print(r.line, r.scs, repr(r.pat), '=>', repr(r.action[:60]))
    print('unparsed patterns', bad)
