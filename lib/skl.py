"""E1 - structural model of the m4-templated skeletons and of the m4 symbols the generator emits.

The skeleton analysed is the one compiled into flex: the string array in <lang>-flex.h produced by
mkskel.sh (after the m4preproc stage), decoded back to text.  The parser is quote-aware ([[ ]] nest)
and recognises the m4 builtins the skeletons use: m4_ifdef, m4_ifelse, m4_define, m4_undefine, m4_dnl.
"""
import re, os

class Call:
    __slots__ = ('name', 'args', 'line', 'end_line')
    def __init__(s, name, args, line): s.name = name; s.args = args; s.line = line
class Text:
    __slots__ = ('t', 'line')
    def __init__(s, t, line): s.t = t; s.line = line
class Quote:
    __slots__ = ('body', 'line')
    def __init__(s, body, line): s.body = body; s.line = line

MACRO = re.compile(r'm4_(ifdef|ifelse|define|undefine|dnl|changequote|changecom)\b')

def decode_skel_header(text):
    """<lang>-flex.h is a list of C string literals, one per skeleton line, ending with 0"""
    out = []
    for ln in text.split('\n'):
        m = re.match(r'^\s*"((?:[^"\\]|\\.)*)",\s*$', ln)
        if not m: continue
        s = m.group(1)
        s = re.sub(r'\\(.)', lambda mm: {'n': '\n', 't': '\t'}.get(mm.group(1), mm.group(1)), s)
        out.append(s)
    return '\n'.join(out) + '\n'

def parse(src):
    n = len(src)
    line_at = [1] * (n + 1); ln = 1
    for i, ch in enumerate(src):
        line_at[i] = ln
        if ch == '\n': ln += 1
    line_at[n] = ln

    def parse_seq(pos, in_quote, in_arg):
        nodes = []; buf = []; bufstart = pos
        def flush():
            nonlocal buf
            if buf: nodes.append(Text(''.join(buf), line_at[bufstart])); buf = []
        paren = 0
        while pos < n:
            if src.startswith('[[', pos):
                flush(); q0 = pos
                inner, pos = parse_seq(pos + 2, True, False)
                nodes.append(Quote(inner, line_at[q0])); bufstart = pos; continue
            if src.startswith(']]', pos):
                if in_quote:
                    flush(); return nodes, pos + 2
                if not buf: bufstart = pos
                buf.append(']]'); pos += 2; continue
            ch = src[pos]
            if in_arg and not in_quote:
                if ch == '(': paren += 1
                elif ch == ')':
                    if paren == 0: flush(); return nodes, pos
                    paren -= 1
                elif ch == ',' and paren == 0:
                    flush(); return nodes, pos
            m = MACRO.match(src, pos)
            if m and (pos == 0 or not (src[pos - 1].isalnum() or src[pos - 1] == '_')):
                name = m.group(0); p2 = m.end()
                if name == 'm4_dnl':
                    flush(); e = src.find('\n', p2); e = n if e < 0 else e + 1
                    if in_quote:
                        # inside a quoted string m4_dnl is plain text until the string is rescanned: it cannot
                        # swallow the closing quote of the string it is written in
                        q = src.find(']]', p2)
                        if 0 <= q < e: e = q
                    pos = e; bufstart = pos; continue
                if p2 < n and src[p2] == '(':
                    flush(); args = []; p = p2 + 1
                    while True:
                        while p < n and src[p] in ' \t\n': p += 1     # m4 strips leading whitespace of arguments
                        a, p = parse_seq(p, False, True)
                        args.append(a)
                        if p >= n: break
                        if src[p] == ',': p += 1; continue
                        if src[p] == ')': p += 1; break
                    c = Call(name, args, line_at[m.start()]); c.end_line = line_at[min(p, n)]
                    nodes.append(c); pos = p; bufstart = pos; continue
                # builtin without arguments (m4_changecom etc.): plain text
            if not buf: bufstart = pos
            buf.append(ch); pos += 1
        flush(); return nodes, pos
    nodes, _ = parse_seq(0, False, False)
    return nodes

def argtext(a):
    out = []
    for x in a:
        if isinstance(x, Text): out.append(x.t)
        elif isinstance(x, Quote): out.append(argtext(x.body))
        else: out.append(x.name + '(...)')
    return ''.join(out).strip()

def rawtext(nodes):
    """text of a node list with quotes removed and nested calls rendered symbolically"""
    out = []
    for x in nodes:
        if isinstance(x, Text): out.append(x.t)
        elif isinstance(x, Quote): out.append(rawtext(x.body))
        else:
            out.append('%s(%s)' % (x.name, ','.join('[[' + rawtext(a) + ']]' for a in x.args)))
    return ''.join(out)

class Skeleton:
    """tested: sym -> [lines]; defined: sym -> [(line, cond)]; text: [(line, cond, text)];
    macros: name -> (body nodes, cond); refs: every identifier-like token M4_* / YY_* appearing in text"""
    def __init__(s, name, src):
        s.name = name; s.src = src
        s.nodes = parse(src)
        s.tested = {}; s.defined = {}; s.undefined = {}; s.text = []; s.macros = {}; s.ifelse = []
        s.maxdepth = 0
        s._walk(s.nodes, (), 0)
        s.refs = {}
        for line, cond, t in s.text:
            for m in re.finditer(r'\b(M4_[A-Za-z0-9_]+|YY_[A-Z0-9_]+|yy[A-Za-z_0-9]+)\b', t):
                s.refs.setdefault(m.group(1), []).append((line, cond))

    def _walk(s, nodes, cond, depth):
        for x in nodes:
            if isinstance(x, Text): s.text.append((x.line, cond, x.t))
            elif isinstance(x, Quote): s._walk(x.body, cond, depth)
            else:
                if x.name == 'm4_ifdef':
                    sym = argtext(x.args[0]); s.tested.setdefault(sym, []).append(x.line)
                    s.maxdepth = max(s.maxdepth, depth + 1)
                    if len(x.args) > 1: s._walk(x.args[1], cond + ((sym, True),), depth + 1)
                    if len(x.args) > 2: s._walk(x.args[2], cond + ((sym, False),), depth + 1)
                elif x.name == 'm4_define':
                    sym = argtext(x.args[0]); s.defined.setdefault(sym, []).append((x.line, cond))
                    body = x.args[1] if len(x.args) > 1 else []
                    s.macros.setdefault(sym, []).append((body, cond, x.line))
                    s._walk(body, cond + (('@body:' + sym, True),), depth)
                elif x.name == 'm4_undefine':
                    sym = argtext(x.args[0]); s.undefined.setdefault(sym, []).append((x.line, cond))
                elif x.name == 'm4_ifelse':
                    a = [argtext(y) for y in x.args[:2]]
                    s.ifelse.append((x.line, a))
                    for k, y in enumerate(x.args[2:]):
                        s._walk(y, cond + (('@ifelse:%s==%s' % (a[0], a[1] if len(a) > 1 else ''), k == 0),), depth + 1)
                else:
                    for a in x.args: s._walk(a, cond, depth)

    def lines_under(s, sym, polarity=True):
        return [(l, c, t) for l, c, t in s.text if (sym, polarity) in c]

    def cond_of_text(s, needle):
        """presence conditions of every text chunk containing `needle`"""
        return [(l, c) for l, c, t in s.text if needle in t]

def load(art, lang):
    """Skeleton model for lang in ('cpp','c99','go') as compiled into the built flex"""
    h = art.source('%s-flex.h' % lang)
    return Skeleton(lang, decode_skel_header(h))

# ------------------------------------------------------------------ generator side

DEFINERS = ('visible_define', 'visible_define_str', 'visible_define_int', 'out_m4_define')

def generator_symbols(prog):
    """m4 symbols flex can emit: sym -> list of (function, ins, how).  From constant first arguments of the
    definer functions and from `m4_define([[NAME]]` inside any string constant used in flex."""
    import flow
    out = {}
    for f in set(prog.functions.values()):
        for i in f.ins:
            if i.op == 'call' and i.callee in DEFINERS and i.ops:
                s_ = flow.const_arg(f, i.ops[0])
                if s_ is not None:
                    out.setdefault(s_, []).append((f.name, i, i.callee))
                else:
                    out.setdefault('<dynamic>', []).append((f.name, i, i.callee))
    for m in prog.modules:
        for g in m.globals.values():
            if g.init is not None and g.init[0] == 'cstr':
                import ir
                t = ir.decode_cstr(g.init[1])
                for mm in re.finditer(r'm4_define\(\s*\[\[([A-Za-z0-9_.<>]+)\]\]', t):
                    out.setdefault(mm.group(1), []).append((os.path.basename(m.path), None, 'string:' + g.name))
    return out

if __name__ == '__main__':
    import sys
    sys.path.insert(0, os.path.dirname(__file__))
    import e0
    art = e0.artifacts()
    for lang in ('cpp', 'c99', 'go'):
        sk = load(art, lang)
        print(lang, 'tested', len(sk.tested), 'defined', len(sk.defined), 'depth', sk.maxdepth, 'text chunks', len(sk.text), 'ifelse', len(sk.ifelse))
    gs = generator_symbols(art.flex_program())
    print('generator symbols', len(gs))
    sk = load(art, 'cpp')
    for sym in sorted(sk.tested):
        if sym not in gs and sym not in sk.defined: print('  cpp tested but never defined:', sym, sk.tested[sym][:4])
