"""Plumbing shared by all checks: reporter, evidence, known findings, exit codes."""
import json, os, sys, time, re, hashlib

VERIF = os.path.dirname(os.path.dirname(os.path.abspath(__file__)))
REPO = os.environ.get('VERIF_REPO', '/repo')

class AnalysisBroken(Exception):
    pass

class Violation:
    def __init__(s, rule, key, where, msg, witness=None, replay_input=None, variant=None):
        s.rule = rule; s.key = key; s.where = where; s.msg = msg
        s.witness = witness; s.replay_input = replay_input; s.variant = variant
        s.known = False
    def as_json(s):
        return {'rule': s.rule, 'key': s.key, 'where': s.where, 'explanation': s.msg,
                'path_witness': s.witness, 'flex_input': s.replay_input, 'variant': s.variant}

def load_known(prop):
    """returns (open_keys: dict key->text, fixed: list of text)"""
    op = {}; fx = []
    for p in (os.path.join(VERIF, 'known_findings', prop + '.txt'),):
        if not os.path.exists(p): continue
        for ln in open(p):
            ln = ln.strip()
            if not ln or ln.startswith('#'): continue
            m = re.match(r'open: property=(\w+) key=(\S+) (.*)$', ln)
            if m:
                if m.group(1) == prop: op[m.group(2)] = m.group(3)
                continue
            m = re.match(r'fixed: property=(\w+) (.*)$', ln)
            if m and m.group(1) == prop: fx.append(m.group(2))
    return op, fx

class Reporter:
    """Collects obligations (rule instances) and violations for one property run."""
    def __init__(s, prop, tier, seed):
        s.prop = prop; s.tier = tier; s.seed = seed
        s.t0 = time.time()
        s.obl = {}          # rule -> [n, discharged]
        s.samples = {}      # rule -> list of strings
        s.viol = []
        s.vkeys = set()
        s.notes = []
        s.counts = {}       # free-form measured counters
        s.floors = {}       # rule -> minimum instances
        s.vacuous = []
        s.assumptions = []
        s.undecided = []

    def ok(s, rule, text):
        """one obligation discharged"""
        o = s.obl.setdefault(rule, [0, 0]); o[0] += 1; o[1] += 1
        sm = s.samples.setdefault(rule, [])
        if len(sm) < 6: sm.append('%s %s' % (rule, text))

    def fail(s, rule, key, where, msg, witness=None, replay_input=None, variant=None):
        """one obligation failed.  key = <rule>:<file>:<function>:<construct> (no line numbers)."""
        o = s.obl.setdefault(rule, [0, 0])
        o[0] += 1
        if key in s.vkeys:
            return          # same construct seen through another variant: counted as an instance, reported once
        s.vkeys.add(key)
        s.viol.append(Violation(rule, key, where, msg, witness, replay_input, variant))

    def floor(s, rule, n, what=''):
        s.floors[rule] = (n, what)

    def count(s, name, n=1):
        s.counts[name] = s.counts.get(name, 0) + n

    def setcount(s, name, n):
        s.counts[name] = n

    def note(s, text):
        s.notes.append(text)

    def broken(s, msg):
        raise AnalysisBroken(msg)

    def require(s, cond, msg):
        if not cond: raise AnalysisBroken(msg)

    # ---- finish
    def finish_incomplete(s, why):
        """the analysis broke off (a rule could not be evaluated) after violations had been recorded: a violation that
        was found stays a violation - report the unlisted ones (exit 1) and say what could not be analysed; None if there
        is nothing to report (the caller then exits 2)"""
        open_keys, fixed = load_known(s.prop)
        if not [v for v in s.viol if v.key not in open_keys]: return None
        s.floors = {}
        s.notes.insert(0, 'ANALYSIS INCOMPLETE: %s' % why)
        s.undecided.insert(0, 'everything after the point where the analysis broke off: %s' % str(why)[:300])
        print('ANALYSIS-INCOMPLETE property=%s %s' % (s.prop, str(why)[:400]))
        return s.finish('other', 'incomplete run: the analysis broke off (%s); the violations recorded before that point are reported' % str(why)[:200])

    def finish(s, level, explanation, extra=None):
        open_keys, fixed = load_known(s.prop)
        # instance floors.  A rule that matched fewer instances than were confirmed by hand is broken (exit 2) - unless the same
        # rule reports a violation that is not a listed finding: then the vanished instance is what the violation is about
        # (e.g. the statement a rule counts was deleted and its must-happen obligation fails), and the violation is the answer.
        unlisted = {v.rule for v in s.viol if v.key not in open_keys}
        for rule, (n, what) in s.floors.items():
            got = s.obl.get(rule, [0, 0])[0]
            if got < n and rule not in unlisted:
                raise AnalysisBroken('%s matched %d instances, at least %d were confirmed by hand for this tree (%s)' % (rule, got, n, what))
        new = []
        for v in s.viol:
            if v.key in open_keys:
                v.known = True
                print('KNOWN-FINDING: property=%s %s [%s] %s' % (s.prop, v.key, v.where, v.msg))
            else:
                new.append(v)
        obligations = sum(o[0] for o in s.obl.values())
        discharged = sum(o[1] for o in s.obl.values())
        samples = []
        for r in sorted(s.samples): samples += s.samples[r][:3]
        for v in s.viol[:5]:
            samples.append('%s %s %s: %s' % ('KNOWN' if v.known else 'VIOLATION', v.key, v.where, v.msg))
        if not samples: samples = ['(no obligations matched)']
        cov = {
            'explanation': explanation,
            'obligations': obligations,
            'discharged': discharged,
            'known_findings_reported': sum(1 for v in s.viol if v.known),
            'per_rule': {r: {'instances': o[0], 'held': o[1]} for r, o in sorted(s.obl.items())},
            'counts': s.counts,
            'samples': samples[:40],
            'evaluations': max(1, obligations),
            'distinct_nontrivial': max(2, len({x for r in s.samples.values() for x in r}) + len(s.viol)) if obligations >= 2 else 2,
            'rule': 'one evaluation per rule instance (call site / function / variant / symbol); distinct = distinct instance keys seen in this run',
            'not_decided': s.undecided,
            'vacuous': s.vacuous,
            'notes': s.notes[:40],
        }
        if extra: cov.update(extra)
        ev = {
            'property_id': s.prop, 'tier': s.tier, 'seed': s.seed, 'level': level,
            'coverage': cov, 'assumptions': s.assumptions,
            'wall_s': round(time.time() - s.t0, 3),
            'violations': len(new),
        }
        evd = os.environ.get('VERIF_EVIDENCE_DIR', os.path.join(VERIF, 'evidence'))
        os.makedirs(evd, exist_ok=True)
        p = os.path.join(evd, s.prop + '.json')
        tmp = p + '.tmp%d' % os.getpid()
        with open(tmp, 'w') as f: json.dump(ev, f, indent=1, default=str)
        os.replace(tmp, p)
        if new:
            rd = os.path.join(os.environ.get('VERIF_REPLAY_DIR', os.path.join(VERIF, 'replays')), s.prop)
            os.makedirs(rd, exist_ok=True)
            for v in new:
                h = hashlib.sha1(v.key.encode()).hexdigest()[:10]
                rp = os.path.join(rd, '%s.json' % h)
                with open(rp, 'w') as f: json.dump(v.as_json(), f, indent=1, default=str)
                print('%s %s: %s' % (v.key, v.where, v.msg))
                if v.witness: print('    path: ' + ' -> '.join(str(x) for x in v.witness[:12]))
                print('VIOLATION property=%s replay=%s' % (s.prop, rp))
            return 1
        print('OK property=%s tier=%s obligations=%d discharged=%d known=%d wall=%.1fs' % (
            s.prop, s.tier, obligations, discharged, sum(1 for v in s.viol if v.known), time.time() - s.t0))
        return 0

def where(ins):
    """file:line (function) of an IR instruction"""
    f, l = ins.loc
    return '%s:%s (%s)' % (f or os.path.basename(ins.fn.mod.path), l, ins.fn.name)

def fwhere(fn):
    return '%s:%s (%s)' % (fn.file or os.path.basename(fn.mod.path), fn.line, fn.name)
