#!/bin/bash
# tools/mut.sh <name> <check-id>... -- <shell command run inside the scratch copy to mutate it>
# Makes a scratch copy of /repo (outside /repo and /verif), applies the mutation, runs the checks against it
# (evidence and replays redirected so the committed ones are untouched) and removes the copy.
set -u
name=$1; shift
ids=()
while [ "$1" != "--" ]; do ids+=("$1"); shift; done
shift
d=$(mktemp -d /tmp/mut.$name.XXXX)
rsync -a --exclude .git --exclude /tests --exclude /doc --exclude /po --exclude /examples /repo/ $d/
( cd $d && eval "$@" ) || { echo "mutation command failed"; rm -rf $d; exit 3; }
( cd $d && diff -ru /repo/src src --exclude='*.o' --exclude='*.lo' --exclude='.deps' --exclude='.libs' 2>/dev/null | grep -v '^Only in' | head -${MUT_DIFF_LINES:-30} )
rc=0
for id in "${ids[@]}"; do
  VERIF_CACHE=$d/.verifcache VERIF_REPO=$d VERIF_EVIDENCE_DIR=$d/.evidence VERIF_REPLAY_DIR=/tmp/mut_replays/$name /verif/check $id | grep -v '^KNOWN-FINDING' | tail -${MUT_OUT_LINES:-12}
  r=${PIPESTATUS[0]}; echo "== $name $id exit=$r"; [ $r -ne 0 ] && rc=$r
done
rm -rf $d
exit $rc
