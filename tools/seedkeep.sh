#!/bin/bash
# tools/seedkeep.sh <seed-dir> <A|B> <seeded-id> <property> "<needs>" -- runs seedrun and stores the seed under /verif/seeded/<id>/
src=$1; ab=$2; id=$3; prop=$4; needs=$5
mkdir -p /verif/seeded/$id
cp $src/$ab.diff /verif/seeded/$id/patch.diff; cp $src/demo$ab.sh /verif/seeded/$id/demo.sh
out=$(/verif/tools/seedrun.sh $id /verif/seeded/$id/patch.diff /verif/seeded/$id/demo.sh 2>&1)
echo "$out" | cut -c1-330
python3 - "$id" "$prop" "$needs" <<PY
import sys,json,re
id,prop,needs=sys.argv[1:4]
out='''$out'''
checks={}
for m in re.finditer(r'^check (C\d+) exit=(\d+) ?(.*)$', out, re.M): checks[m.group(1)]={'exit':int(m.group(2)),'first_report':m.group(3)[:300]}
meta={'seed':id,'property':prop,'needs_to_manifest':needs,
 'confirmed':{'demo_on_pristine_exit':int(re.search(r'demo_on_pristine_exit=(\d+)',out).group(1)),'build_exit':int(re.search(r'build_exit=(\d+)',out).group(1)),
              'tests':re.search(r'tests: (.*)',out).group(1).strip(),'demo_on_patched_exit':int(re.search(r'demo_on_patched_exit=(\d+)',out).group(1))},
 'ran':'tools/seedrun.sh: scratch worktree of /repo, git apply, make flex, make check, demo with/without; then every claimed check against the patched copy',
 'checks':checks,'caught_by':[k for k,v in checks.items() if v['exit']==1],'analysis_broken':[k for k,v in checks.items() if v['exit']==2]}
json.dump(meta,open('/verif/seeded/%s/meta.json'%id,'w'),indent=1)
print('caught_by',meta['caught_by'],'broken',meta['analysis_broken'])
PY
