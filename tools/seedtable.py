#!/usr/bin/env python3
"""tools/seedtable.py [ids...] - markdown table of seeded changes (seeded/<id>/meta.json) for DESIGN.md §6.3."""
import json, glob, os, sys
root = os.path.dirname(os.path.dirname(os.path.abspath(__file__)))
ids = sys.argv[1:] or sorted(os.path.basename(os.path.dirname(p)) for p in glob.glob(root + '/seeded/*/meta.json'))
print('| seed | property | needs, to manifest | caught by | first report |')
print('|------|----------|--------------------|-----------|--------------|')
for i in ids:
    d = json.load(open('%s/seeded/%s/meta.json' % (root, i)))
    caught = d.get('caught_by', [])
    own = d['property']
    first = ''
    for c in ([own] if own in caught else []) + caught:
        fr = d['checks'].get(c, {}).get('first_report', '')
        if fr: first = fr.split(' ')[0]; break
    print('| %s | %s | %s | %s | %s |' % (i, own, d['needs_to_manifest'][:150].replace('|', '\\|'), ', '.join(caught) or '**missed**', ('`%s`' % first.replace('|', '\\|')) if first else ''))
