#!/bin/bash
# tools/seedrun.sh <seed-id> <patch.diff> <demo.sh> [check ids...]
# 1. confirms the seeded change in a scratch worktree of /repo: builds, 257/257 tests, demo fails with / passes without;
# 2. runs the given checks (default: all claimed) against a scratch copy with the patch applied (evidence redirected).
# Prints a summary; removes every scratch directory.
set -u
id=$1; patch=$(readlink -f $2); demo=$(readlink -f $3); shift 3
ids=("$@")
if [ ${#ids[@]} -eq 0 ]; then ids=($(python3 -c "import json;print(' '.join(c['property_id'] for c in json.load(open('/verif/MANIFEST.json'))['checks']))")); fi
wt=/tmp/seedrun-$id-$$
/verif/tools/mkworktree.sh $wt >/dev/null 2>&1 || { echo "worktree failed"; exit 3; }
res=/tmp/seedrun-$id-$$.txt; : > $res
# pristine: build + demo must pass
make -C $wt/src -j16 flex >/dev/null 2>&1 || echo "pristine build failed" >> $res
bash $demo $wt >/tmp/seedrun-$id-$$.demo0 2>&1; echo "demo_on_pristine_exit=$?" >> $res
( cd $wt && git apply $patch ) || { echo "patch does not apply" >> $res; }
make -C $wt/src -j16 flex >/tmp/seedrun-$id-$$.build 2>&1; echo "build_exit=$?" >> $res
make -C $wt/tests clean >/dev/null 2>&1; make -C $wt -j16 check >/tmp/seedrun-$id-$$.check 2>&1
echo "tests: $(grep -E '^# (PASS|FAIL):' /tmp/seedrun-$id-$$.check | tr -s ' ' | tr '\n' ' ')" >> $res
bash $demo $wt >/tmp/seedrun-$id-$$.demo1 2>&1; echo "demo_on_patched_exit=$?" >> $res
# checks on the patched tree (scratch copy, separate cache)
for c in "${ids[@]}"; do
  out=$(VERIF_CACHE=$wt/.verifcache VERIF_REPO=$wt VERIF_EVIDENCE_DIR=$wt/.evidence VERIF_REPLAY_DIR=/tmp/seed_replays/$id /verif/check $c 2>&1); rc=$?
  first=$(echo "$out" | grep -v '^KNOWN-FINDING' | grep -m1 -E '^C[0-9]+\.R|ANALYSIS-BROKEN' | cut -c1-260)
  echo "check $c exit=$rc $first" >> $res
done
cat $res
git -C /repo worktree remove --force $wt; rm -rf /tmp/seedrun-$id-$$.* /tmp/seed_replays/$id
