#!/usr/bin/env python3
"""Regenerates /verif/MANIFEST.json from the claim table below (claims only for rule modules that exist)."""
import json, os
V = os.path.dirname(os.path.dirname(os.path.abspath(__file__)))
props = [json.loads(l) for l in open(os.path.join(V, 'properties.jsonl'))]
CLAIMS = json.load(open(os.path.join(V, 'tools', 'claims.json')))
man = {
 "version": 1,
 "setup_cmd": "./setup.sh",
 "hooks": {"guard": "WESTES_FLEX_VERIF", "enable": "none needed: static analysis reads the sources and compiler output, no instrumentation of /repo",
           "baseline_off_cmd": "make -C /repo check", "source_commits": [], "add_only": True},
 "engines": [
  {"name": "E0", "path": "lib/e0.py", "serves_properties": [p['id'] for p in props], "kind_free_text": "scratch-copy clean build of /repo, LLVM IR of every flex translation unit, content-addressed cache"},
  {"name": "E1", "path": "lib/skl.py", "serves_properties": ["C02", "C19"], "kind_free_text": "quote-aware m4 structure model of the skeletons; m4 symbols the generator can emit (from IR)"},
  {"name": "E2", "path": "lib/ir.py", "serves_properties": [p['id'] for p in props], "kind_free_text": "LLVM IR model: CFG, dominators, post-dominators, control dependence, reachability with avoid sets, no-return fixpoint, access paths with debug-info field names"},
  {"name": "E3", "path": "lib/lex.py", "serves_properties": ["C01", "C07", "C19", "C20"], "kind_free_text": "flex input language model for scan.l: rules, start-condition scopes, pattern->NFA->DFA with flex priority"},
  {"name": "variants", "path": "lib/variants.py", "serves_properties": ["C02", "C03", "C04", "C05", "C06", "C08", "C09", "C10", "C11", "C12", "C13", "C14", "C15", "C19"], "kind_free_text": "probe specifications x option matrix instantiated by the freshly built flex and compiled to IR by clang (never run)"}
 ],
 "checks": [], "not_applicable": [],
 "notes": "All checks are static: they inspect /repo's current sources, the compiler's IR of flex and of instantiated skeleton variants. No generated scanner and no test is ever executed by a check. Exit 2 = analysis broken (neither pass nor violation). Known findings: known_findings/<ID>.txt."
}
for p in props:
    i = p['id']
    c = CLAIMS.get(i)
    if c and os.path.exists(os.path.join(V, 'rules', i.lower() + '.py')) and not c.get('disabled'):
        man['checks'].append({"property_id": i, "quick_cmd": "./check %s --tier quick" % i, "thorough_cmd": "./check %s --tier thorough" % i,
          "evidence_file": "evidence/%s.json" % i, "replay_cmd_template": "./check %s --replay {path}" % i, "engine": c.get('engine', 'E2'),
          "level_claimed": {"category": c.get('level', 'other'), "text": c['text'], "design_ref": "DESIGN.md §3 " + i},
          "level_note": c['note'], "technique": c['technique']})
    else:
        man['not_applicable'].append({"property_id": i, "reason": (c or {}).get('na_reason', "check not built yet (in progress; DESIGN.md §3 lists the planned static rules)")})
json.dump(man, open(os.path.join(V, 'MANIFEST.json'), 'w'), indent=1)
print('claimed:', [c['property_id'] for c in man['checks']])
