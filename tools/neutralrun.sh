#!/bin/bash
# tools/neutralrun.sh <name> <patch.diff> [check ids...]
# Runs the checks (default: all claimed) against a scratch copy of /repo with a BEHAVIOUR-PRESERVING patch applied.
# Every check is expected to exit 0: an exit 1 or 2 here is a false alarm of the machinery, to be corrected in the rule.
# Prints one line `neutral <name> <ID> exit=<rc> <first report>` per check and removes the scratch copy.
set -u
name=$1; patch=$(readlink -f $2); shift 2
ids=("$@")
if [ ${#ids[@]} -eq 0 ]; then ids=($(python3 -c "import json;print(' '.join(c['property_id'] for c in json.load(open('/verif/MANIFEST.json'))['checks']))")); fi
d=$(mktemp -d /tmp/neutral.$name.XXXX)
rsync -a --exclude .git --exclude /tests --exclude /doc --exclude /po --exclude /examples /repo/ $d/
( cd $d && patch -p1 -s < $patch ) || { echo "neutral $name patch-does-not-apply"; rm -rf $d; exit 3; }
rc=0
for c in "${ids[@]}"; do
  out=$(VERIF_CACHE=$d/.verifcache VERIF_REPO=$d VERIF_EVIDENCE_DIR=$d/.evidence VERIF_REPLAY_DIR=/tmp/neutral_replays/$name /verif/check $c --tier ${NEUTRAL_TIER:-quick} 2>&1); r=$?
  first=$(echo "$out" | grep -v '^KNOWN-FINDING' | grep -m1 -E '^C[0-9]+\.R|ANALYSIS-BROKEN|Traceback' | cut -c1-300)
  echo "neutral $name $c exit=$r $first"
  [ $r -ne 0 ] && rc=$r
done
rm -rf $d /tmp/neutral_replays/$name
exit $rc
