#!/bin/bash
# tools/mkworktree.sh <dir>  - scratch git worktree of /repo that builds and runs the test suite:
# git worktree + the ignored configure outputs copied from /repo with the baked-in absolute paths rewritten.
set -e
d=$1
git -C /repo worktree add --detach "$d" HEAD >/dev/null
rsync -a --ignore-existing --exclude .git --exclude '*.o' --exclude '*.lo' --exclude '.libs' --exclude '*.trs' --exclude '*.log' /repo/ "$d"/
grep -rl --include=Makefile --include=config.status --include=libtool --include='*.sh' -e '/repo' "$d" 2>/dev/null | while read f; do
  ts=$(stat -c %Y "$f"); sed -i "s#/repo#$d#g" "$f"; touch -d @$ts "$f"
done
# generated sources are rebuilt on demand; remove stale products of /repo's build
( cd "$d/src" && rm -f flex stage1flex stage1scan.c stage2scan.c parse.c parse.h cpp-flex.h c99-flex.h go-flex.h )
echo "$d ready: make -C $d/src -j16 flex ; make -C $d -j16 check"
