#!/usr/bin/env python3
"""tools/gensweep.py FIRST COUNT [TABLES...]  - trial of the generated language probes (rules/tbl_gen.py) on the tree under
analysis: instantiate rule sets FIRST..FIRST+COUNT-1 under the given table representations (default Cem C Cf CF CFe and
Cem+reject) and print every disagreement between the emitted tables and the reference automaton.  Development aid: the
thorough tier of C01/C02/C07 runs the same comparison on its own range of rule sets."""
import sys, os
HERE = os.path.dirname(os.path.dirname(os.path.abspath(__file__)))
sys.path.insert(0, os.path.join(HERE, 'lib')); sys.path.insert(0, os.path.join(HERE, 'rules'))
import e0, variants, lex, tbl, tbl_gen, tbl_probes

def main():
    first, count = int(sys.argv[1]), int(sys.argv[2])
    want = sys.argv[3:] or ['Cem', 'C', 'Cf', 'CF', 'CFe', 'Cem_rej']
    art = e0.artifacts()
    vs = tbl_gen.generated_variants(range(first, first + count), want)
    variants.instantiate(art, vs, 'gen_sweep_%d_%d' % (first, count))
    bad = refused = ok = 0
    for v in vs:
        if v.refused or v.crashed or v.ll is None:
            refused += 1
            print('NOT-GENERATED %s: %s' % (v.name, (v.stderr or v.ll_err or '').strip().split('\n')[-1][:200])); continue
        sp = lex.parse_spec(v.spec())
        try:
            t = tbl.TableDFA(v, variants.module(v))
            dis, n = tbl.compare(t, sp, sp.sc_order, limit=3000000)
        except (tbl.TableError, lex.PatternError) as e:
            print('MODEL %s: %s' % (v.name, e)); bad += 1; continue
        if dis:
            bad += 1
            sc, bol, w, tv, rv = dis[0]
            print('DISAGREE %s <%s>%s after %r: tables "%s" reference "%s"' % (v.name, sc, ' bol' if bol else '', w, tv, rv))
        else: ok += 1
    print('sweep %d..%d: %d variants, %d agree, %d disagree/model, %d not generated' % (first, first + count - 1, len(vs), ok, bad, refused))

if __name__ == '__main__':
    main()
