#!/bin/bash
# VDEV=/tmp/vdev-x /tmp/vdev_mut.sh <name> <ID> -- "<cmd run in a scratch copy of /repo>"
# like /verif/tools/mut.sh, but runs the check of the development copy $VDEV (default /tmp/vdev) instead of /verif
VDEV=${VDEV:-/tmp/vdev}
name=$1; id=$2; shift 3
d=$(mktemp -d /tmp/flexverif.XXXXXXXX); rsync -a --exclude .git /repo/ $d/
( cd $d && bash -c "$*" )
VERIF_REPO=$d VERIF_CACHE=$d/.vc VERIF_EVIDENCE_DIR=$d/.ev VERIF_REPLAY_DIR=/tmp/mut_replays/$name $VDEV/check $id 2>&1 | grep -v "^KNOWN" | tail -6 | cut -c1-500
echo "== $name $id exit=${PIPESTATUS[0]}"
rm -rf $d
