#!/usr/bin/env python3
"""tools/selftest.py [-j N] [--sample K/M] [ID ...]  - run the mutation lines of selftest/<ID>.mutations.txt and compare each verdict with
the expectation written next to it.  A regression test of the checkers themselves: every firing mutation must still make
its check exit 1, every behaviour-preserving edit must stay silent (exit 0).

Line formats understood (the files were written by different authors):
    <expected> | <key> | tools/mut.sh NAME IDS -- "CMD"
    tools/mut.sh NAME IDS -- "CMD"   # expect: exit=1 ...      (also `#=> exit 1`, `=> exit 0`)
    # expected: VIOLATION ... / # expect exit 1 ... / # expected: silent ...      (comment line before the command)
--sample K/M keeps the lines whose name hashes to K modulo M (a deterministic 1/M sample; M runs with K = 0..M-1 cover all).
Output: one line per mutation `ok|MISMATCH|unknown NAME IDS expected=.. got=..`, summary at the end; exit 1 on a mismatch."""
import sys, os, re, glob, subprocess, concurrent.futures
ROOT = os.path.dirname(os.path.dirname(os.path.abspath(__file__)))

def expectation(text):
    t = text.lower()
    m = re.search(r'exit\s*[= ]\s*([012])', t)
    if m: return int(m.group(1))
    if 'violation' in t or 'must fire' in t or 'fires' in t: return 1
    if 'silent' in t or 'no violation' in t or 'stays ok' in t: return 0
    return None

def parse(path):
    out = []; prev = ''
    for line in open(path, errors='replace'):
        line = line.rstrip('\n')
        i = line.find('tools/mut.sh ')
        if i < 0 or line.lstrip().startswith('#'):
            if line.lstrip().startswith('#'): prev = line
            continue
        head, cmd = line[:i], line[i:]
        m = re.match(r'tools/mut\.sh\s+(\S+)\s+((?:C\d\d\s+)+)--\s+"', cmd)
        if not m: continue
        # the command ends at the last unescaped double quote
        j = len(cmd) - 1
        while j > 0 and not (cmd[j] == '"' and cmd[j - 1] != '\\'): j -= 1
        tail = cmd[j + 1:]; cmd = cmd[:j + 1]
        exp = None
        hm = re.match(r'\s*([012])\s*\|', head)
        if hm: exp = int(hm.group(1))
        if exp is None and tail.strip(): exp = expectation(tail)
        if exp is None: exp = expectation(prev)
        out.append((m.group(1), m.group(2).split(), cmd, exp))
        prev = ''
    return out

def run(item):
    name, ids, cmd, exp = item
    p = subprocess.run(cmd, shell=True, cwd=ROOT, capture_output=True, text=True)
    got = {}
    for m in re.finditer(r'^== (\S+) (C\d\d) exit=(\d+)', p.stdout, re.M): got[m.group(2)] = int(m.group(3))
    return name, ids, exp, got

def main():
    args = sys.argv[1:]; jobs = 8
    if args[:1] == ['-j']: jobs = int(args[1]); args = args[2:]
    sample = None
    if args[:1] == ['--sample']: sample = tuple(int(x) for x in args[1].split('/')); args = args[2:]
    files = [os.path.join(ROOT, 'selftest', a + '.mutations.txt') for a in args] or sorted(glob.glob(os.path.join(ROOT, 'selftest', 'C*.mutations.txt')))
    items = []
    for f in files: items += parse(f)
    if sample:
        import zlib
        items = [it for it in items if zlib.crc32(it[0].encode()) % sample[1] == sample[0]]
    bad = 0; unk = 0
    with concurrent.futures.ThreadPoolExecutor(jobs) as ex:
        for name, ids, exp, got in ex.map(run, items):
            worst = max(got.values()) if got else None
            # a firing mutation is satisfied when one of the listed checks exits 1; a silent one when all exit 0
            if exp is None: tag = 'unknown'; unk += 1
            elif exp == 1: tag = 'ok' if 1 in got.values() else 'MISMATCH'
            elif exp == 0: tag = 'ok' if got and all(v == 0 for v in got.values()) else 'MISMATCH'
            else: tag = 'ok' if worst == exp else 'MISMATCH'
            if tag == 'MISMATCH': bad += 1
            print('%s %s %s expected=%s got=%s' % (tag, name, ' '.join(ids), exp, got), flush=True)
    print('SUMMARY %d mutations, %d mismatches, %d without a stated expectation' % (len(items), bad, unk))
    return 1 if bad else 0

if __name__ == '__main__':
    sys.exit(main())
