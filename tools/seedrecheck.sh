#!/bin/bash
# tools/seedrecheck.sh <seed-id> <check ids...>  - re-run the given checks against a scratch copy of /repo with the stored seed applied
# and update the `checks`, `caught_by`, `analysis_broken` entries of seeded/<id>/meta.json (the confirmation part stays as recorded).
set -u
id=$1; shift
d=$(mktemp -d /tmp/recheck.$id.XXXX)
rsync -a --exclude .git --exclude /tests --exclude /doc --exclude /po --exclude /examples /repo/ $d/
( cd $d && patch -p1 -s < /verif/seeded/$id/patch.diff ) || { echo "$id: patch does not apply"; rm -rf $d; exit 3; }
res=$d/.res; : > $res
for c in "$@"; do
  out=$(VERIF_CACHE=$d/.verifcache VERIF_REPO=$d VERIF_EVIDENCE_DIR=$d/.evidence VERIF_REPLAY_DIR=/tmp/seed_replays/$id /verif/check $c 2>&1); rc=$?
  first=$(echo "$out" | grep -v '^KNOWN-FINDING' | grep -m1 -E '^C[0-9]+\.R|ANALYSIS-BROKEN' | cut -c1-260)
  echo "check $c exit=$rc $first" >> $res
done
python3 - "$id" "$res" <<'PY'
import sys, json, re
id, res = sys.argv[1:3]
p = '/verif/seeded/%s/meta.json' % id
m = json.load(open(p))
for mm in re.finditer(r'^check (C\d+) exit=(\d+) ?(.*)$', open(res).read(), re.M):
    m['checks'][mm.group(1)] = {'exit': int(mm.group(2)), 'first_report': mm.group(3)[:300]}
m['caught_by'] = sorted(k for k, v in m['checks'].items() if v['exit'] == 1)
m['analysis_broken'] = sorted(k for k, v in m['checks'].items() if v['exit'] == 2)
m['rechecked'] = 'tools/seedrecheck.sh after the round-9 rule changes (only the checks named there were re-run)'
json.dump(m, open(p, 'w'), indent=1)
print(id, 'caught_by', m['caught_by'], 'broken', m['analysis_broken'])
PY
rm -rf $d /tmp/seed_replays/$id
