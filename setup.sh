#!/bin/sh
# Nothing to build: the framework is Python 3 + clang/llvm tools that are already installed.
# Verify the tools exist so that a broken sandbox is reported here and not as a property verdict.
set -e
for t in python3 clang clang++ llvm-nm-14 m4 bison make rsync; do
  command -v $t >/dev/null || { echo "missing tool: $t"; exit 1; }
done
mkdir -p /verif/evidence /verif/replays
echo setup ok
