undef $/; $_ = <STDIN>;
# turn the capacity block of yyrestart (c99) into a helper defined just before yyrestart
s{(void yyrestart\(FILE \* input_file, yyscan_t yyscanner\)\n\{\nm4_ifdef\( \[\[M4_MODE_USES_REJECT\]\], \[\[\n)\tsize_t new_size = 0;\n\tyy_state_type \*new_state_buf = 0;\n}{$1}s or die "decl";
s{(\tyy_load_buffer_state\( yyscanner \);\n\nm4_ifdef\( \[\[M4_MODE_USES_REJECT\]\], \[\[\n)\t/\* Ensure the reject state buffer is large enough.\n\t \*/\n(\tif \( yyscanner->yy_state_buf_max < \(size_t\).*?\n\t\}\n)(\]\] \)\n\n\t/\* We don't actually know whether we did this switch during)}{$1\tyy_fit_state_buf(yyscanner);\n$3}s or die "block";
my $blk = $2;
s{(/\*\* Immediately switch to a different input stream\.)}{m4_ifdef( [[M4_MODE_USES_REJECT]], [[\nstatic void yy_fit_state_buf(yyscan_t yyscanner)\n{\n\tsize_t wanted = 0;\n\tyy_state_type *grown = 0;\n$blk}\n]] )\n\n$1}s or die "ins";
s/new_size/wanted/g if 0;
print;
