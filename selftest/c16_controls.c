/* Positive controls for the C16 rules.  Compiled to IR at run time (never executed); each bad_* function
 * must make its rule fire and each good_* function must be accepted, otherwise the check is ANALYSIS-BROKEN. */
#include <stdio.h>
#include <string.h>
#include <stdlib.h>
#include <unistd.h>
#include <sys/wait.h>

char *gets(char *);

/* ---------------------------------------------------------------- R1 */
int good_wait(void)
{
	int status, rc = 0;
	while (wait(&status) > 0)
		if (!WIFEXITED(status) || WEXITSTATUS(status) != 0)
			rc = 1;
	return rc;
}
__attribute__((noreturn)) void longjmp_like_exit(int);
int good_wait_guarded(int exit_status)		/* the flex_main shape: status + 1 convention, guarded store */
{
	int st;
	while (wait(&st) > 0)
		if (!WIFEXITED(st) || WEXITSTATUS(st) != 0)
			if (exit_status <= 1)
				exit_status = 2;
	return exit_status - 1;
}
int bad_wait_polarity(void)			/* control: a child killed by a signal counts as success */
{
	int status, rc = 0;
	while (wait(&status) > 0)
		if (WIFEXITED(status) && WEXITSTATUS(status) != 0)
			rc = 1;
	return rc;
}
int bad_wait_exitcode_only(void)		/* control: both masks consulted, but only exit code 1 is a failure */
{
	int status, rc = 0;
	while (wait(&status) > 0)
		if (!WIFEXITED(status) || WEXITSTATUS(status) == 1)
			rc = 1;
	return rc;
}
int bad_wait_null(void)
{
	while (wait(0) > 0) ;
	return 0;
}
int bad_wait_ignored(void)
{
	int status;
	while (wait(&status) > 0) ;
	return 0;
}
int bad_wait_noeffect(int pid)
{
	int status, bad = 0, rc = 0;
	if (waitpid(pid, &status, 0) > 0)
		if (!WIFEXITED(status) || WEXITSTATUS(status) != 0)
			bad = 1;
	return rc;
}

/* ---------------------------------------------------------------- R4 */
char *yytext; int yyleng;
char nmstr[64];
char *action_array; int action_size, action_index;
void *reallocate_array(void *, int, unsigned long);
void *allocate_array(int, unsigned long);

void banned_calls(char *d, const char *s, int n)
{
	strcat(d, s);
	sprintf(d, "%s%d", s, n);
	gets(d);
}
void init_action(void) { action_size = 2048; action_array = allocate_array(action_size, 1); }
void good_strcpy(const char *new_text)
{
	int len = (int) strlen(new_text);
	while (len + action_index >= action_size - 10) {
		action_size = action_size * 2;
		action_array = reallocate_array(action_array, action_size, 1);
	}
	strcpy(&action_array[action_index], new_text);
	action_index += len;
}
void bad_strcpy(char *d, const char *s) { strcpy(d, s); }

void good_strncpy_guard(void)
{
	if (yyleng < 64)
		strncpy(nmstr, yytext, sizeof(nmstr));
}
void good_strncpy_guard1(void)
{
	if (yyleng - 1 < 64)
		strncpy(nmstr, yytext + 1, sizeof(nmstr));
}
void use(const char *);
void good_strncpy_term(const char *s)
{
	char buf[32];
	strncpy(buf, s, sizeof(buf));
	buf[sizeof(buf) - 1] = '\0';
	use(buf);
}
static void good_strncpy_bounded(const char *txt)
{
	char buf[128];
	strncpy(buf, txt, sizeof(buf) - 1);
	use(buf);
}
void call_bounded(void) { char small[16]; small[0] = 0; good_strncpy_bounded("short literal"); good_strncpy_bounded(small); }
void bad_strncpy_unterminated(char *txt)
{
	char buf[32];
	strncpy(buf, txt, sizeof(buf));
	buf[strlen(buf) - 1] = '\0';
	use(buf);
}
void bad_strncpy_count(char *txt)
{
	char buf[32];
	if (strlen(txt) < 16)
		strncpy(buf, txt, 64);
	use(buf);
}
void good_snprintf(int v) { char b[24]; snprintf(b, sizeof(b), "%d", v); use(b); }
void good_snprintf_heap(const char *a)
{
	size_t nbytes = strlen(a) + 8;
	char *p = calloc(nbytes, 1);
	snprintf(p, nbytes, "lex.%s", a);
	use(p);
}
void bad_snprintf_size(int v) { char b[24]; snprintf(b, 32, "%d", v); use(b); }
void bad_snprintf_heap(const char *a)
{
	size_t nbytes = strlen(a) + 8;
	char *p = malloc(nbytes);
	nbytes = nbytes * 2;
	snprintf(p, nbytes, "lex.%s", a);
	use(p);
}
void bad_strncat(char *d, const char *s) { strncat(d, s, 10); }

/* ---------------------------------------------------------------- R2 */
__attribute__((noreturn)) void lerr(const char *, ...);
void good_stream(const char *name)
{
	FILE *f = fopen(name, "w");
	if (!f) lerr("open");
	fputs("x", f);
	if (ferror(f)) lerr("write");
	else if (fclose(f)) lerr("close");
}
void good_stream_flush(const char *name)
{
	FILE *g = fopen(name, "w");
	if (!g) lerr("open");
	fprintf(g, "%d", 1);
	fflush(g);
	if (ferror(g)) lerr("write");
}
void bad_open_never_checked(const char *name)
{
	FILE *h = fopen(name, "w");
	if (!h) lerr("open");
	fputs("x", h);
}
void bad_close_unchecked(const char *name)
{
	FILE *k = fopen(name, "w");
	if (!k) lerr("open");
	fputs("x", k);
	fclose(k);
}
int bad_early_return(const char *name, int quick)
{
	FILE *m = fopen(name, "w");
	if (!m) lerr("open");
	fputs("x", m);
	if (quick) return 0;
	if (ferror(m)) lerr("write");
	else if (fclose(m)) lerr("close");
	return 0;
}

/* ---------------------------------------------------------------- R3, R6 */
int syntaxerror;
int yyparse(void);
void flexend(int exit_status)
{
	/* R6 control: no unlink of the partial output */
	exit(exit_status);
}
void synerr(const char *s) { syntaxerror = 1; use(s); }
void other_writer(void) { syntaxerror = 1; }
void readin(void)
{
	if (yyparse()) flexend(1);
	/* R3 control: syntaxerror is not tested */
}
void sneaky_exit(void) { exit(0); }
int flex_main(void) { readin(); flexend(0); return 0; }

/* ---------------------------------------------------------------- R5 */
int maximum_mns, current_mns, lastnfa, *firstst;
int mkstate(int sym)
{
	if (++lastnfa >= current_mns) {
		current_mns += 1000;
		firstst = reallocate_array(firstst, current_mns, sizeof(int));
	}
	firstst[lastnfa] = sym;
	return lastnfa;
}
int num_rules, *rule_linenum;
void new_rule(void)
{
	++num_rules;
	rule_linenum[num_rules] = 1;
}

/* ---------------------------------------------------------------- R8 */
int cur_max, cur_max2, *kept, *forgotten, *optional, *late;
void setup_family(void)
{
	cur_max = 100; cur_max2 = 100;
	kept = allocate_array(cur_max, sizeof(int)); forgotten = allocate_array(cur_max, sizeof(int));
	late = allocate_array(cur_max2, sizeof(int));
}
void make_optional(void) { optional = allocate_array(cur_max, sizeof(int)); }
void bad_grow(void)				/* control: one member of the family is not reallocated */
{
	cur_max += 100;
	kept = reallocate_array(kept, cur_max, sizeof(int));
	if (optional)
		optional = reallocate_array(optional, cur_max, sizeof(int));
}
void bad_grow_early_return(int quick)		/* control: a path leaves before the reallocation */
{
	cur_max2 *= 2;
	if (quick) return;
	late = reallocate_array(late, cur_max2, sizeof(int));
}

/* ---------------------------------------------------------------- R10 */
struct _scanopt_t { const void *options; int optc; int argc; char **argv; int index; int subscript; };
char *good_scanopt(struct _scanopt_t *s, char *optarg, int needs_arg)
{
	int has_next;
	if (s->index >= s->argc) return 0;
	use(s->argv[s->index]);
	has_next = s->index + 1 < s->argc;
	if (needs_arg) {
		if (!optarg && !has_next) return 0;
		if (!optarg) { s->index += 2; return s->argv[s->index - 1]; }
	}
	s->index += 1;
	return optarg;
}
char *bad_scanopt(struct _scanopt_t *s, char *optarg, int needs_arg)	/* control: <= lets the last word through */
{
	int has_next;
	if (s->index >= s->argc) return 0;
	has_next = s->index + 1 <= s->argc;
	if (needs_arg) {
		if (!optarg && !has_next) return 0;
		if (!optarg) return s->argv[s->index + 1];
	}
	return optarg;
}
char *bad_scanopt_entry(struct _scanopt_t *s) { return s->argv[s->index]; }	/* control: no entry guard */

/* ---------------------------------------------------------------- R8 (source of the reallocation), R11, R12 */
int cur_max3, *arr_a, *arr_b;
void setup_family3(void) { cur_max3 = 10; arr_a = allocate_array(cur_max3, sizeof(int)); arr_b = allocate_array(cur_max3, sizeof(int)); }
void bad_grow_source(void)			/* control: wrong array reallocated, fresh block for the other */
{
	cur_max3 += 10;
	arr_a = reallocate_array(arr_b, cur_max3, sizeof(int));
	arr_b = allocate_array(cur_max3, sizeof(int));
}
int n_kept;
static void grow_family(void)
{
	cur_max += 100;
	kept = reallocate_array(kept, cur_max, sizeof(int)); forgotten = reallocate_array(forgotten, cur_max, sizeof(int));
	if (optional) optional = reallocate_array(optional, cur_max, sizeof(int));
}
void good_guard(void) { if (++n_kept >= cur_max) grow_family(); kept[n_kept] = 0; }
void good_guard_spelling(void) { if (n_kept >= cur_max - 2) grow_family(); ++n_kept; kept[n_kept] = 0; }
void bad_guard(void) { if (++n_kept > cur_max) grow_family(); kept[n_kept] = 0; }	/* control: element cur_max is written before growing */

int num_input_files; char **input_files;
void set_input_file(char *);
void flexinit_like(int argc, char **argv, int optind)
{
	num_input_files = argc - optind;
	input_files = argv + optind;
	set_input_file(num_input_files > 0 ? input_files[0] : 0);
}
int yywrap(void)				/* control: the last file is never opened */
{
	if (--num_input_files > 1) {
		set_input_file(*++input_files);
		return 0;
	}
	return 1;
}
