/* Positive control for C04.R5 (never executed, only parsed as LLVM IR).
 * yy_get_previous_state indexes yy_ec with a plain (signed) char: the detector must report one
 * sign-extended byte-to-table-index flow; yy_try_NUL_trans does it correctly (one zero-extended flow).
 * Regenerate: clang -O0 -g -fno-discard-value-names -S -emit-llvm -w C04_R5_control.c -o C04_R5_control.ll
 */
static const unsigned char yy_ec[256] = { 0, 1, 2 };
static const short yy_nxt[64] = { 0, 1, 2 };
static char *yy_c_buf_p;
static char *yytext_ptr;
static int yy_start;

int yy_get_previous_state(void)
{
	int yy_current_state = yy_start;
	char *yy_cp;
	for (yy_cp = yytext_ptr; yy_cp < yy_c_buf_p; ++yy_cp) {
		int yy_c = yy_ec[*yy_cp];                 /* missing YY_SC_TO_UI */
		yy_current_state = yy_nxt[yy_current_state + yy_c];
	}
	return yy_current_state;
}

int yy_try_NUL_trans(int yy_current_state)
{
	char *yy_cp = yy_c_buf_p;
	int yy_c = yy_ec[(unsigned char) *yy_cp];
	return yy_nxt[yy_current_state + yy_c];
}
