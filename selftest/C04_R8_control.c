/* positive control for C04.R8: one loop over the character space bounded by the compile-time maximum (must be
 * reported), one bounded by the run-time character-set size (must not) */
struct ctrl_bundle_t { int csize; } ctrl;
int marks[257];
void bad_loop(void) { int ch; for (ch = 0; ch < 256; ++ch) marks[ch] = 1; }
void good_loop(void) { int ch; for (ch = 0; ch < ctrl.csize; ++ch) marks[ch] = 1; }
