#!/usr/bin/env python3
"""Replay of the C15.R4 finding (hand triage only, not part of the check): dm_sz of yy_transition vs the member
type of struct yy_trans_info.  Generates the flex input in a scratch directory, builds the tables-file scanner and
the in-code scanner with $FLEX (default /repo/src/flex) and shows both outputs on the same input."""
import os, random, subprocess, sys, tempfile
FLEX = os.environ.get('FLEX', '/repo/src/flex')
def spec(k, tables):
    r = random.Random(1); words = set()
    while len(words) < k:
        words.add(''.join(r.choice('abcdefghijklmnopqrstuvwxyz') for _ in range(r.randint(3, 9))))
    L = ['%%option %sfast 8bit noyywrap' % ('tables-file="t.tables" ' if tables else ''), '%%']
    L += ['%s { return %d; }' % (w, i + 1) for i, w in enumerate(sorted(words))]
    L += ['(QZ)+ { return 9999; }', '.|\\n { }', '%%', '#include <stdio.h>', 'int main(int argc,char**argv){']
    if tables: L.append(' FILE*f=fopen("t.tables","rb"); if(!f||yytables_fload(f)) {puts("load failed");return 2;} fclose(f);')
    L.append(' yyin=fopen(argv[1],"r"); int t; while((t=yylex())) printf("%d ",t); puts(""); return 0; }')
    return '\n'.join(L) + '\n'
d = tempfile.mkdtemp(prefix='c15replay.')
open(os.path.join(d, 'in.txt'), 'w').write('QZQZQZ aau QZ\n')
for name, tables in (('tables', True), ('incode', False)):
    open(os.path.join(d, name + '.l'), 'w').write(spec(2075, tables))
    subprocess.check_call([FLEX, '-o', name + '.c', name + '.l'], cwd=d)
    src = open(os.path.join(d, name + '.c')).read()
    for ln in src.split('\n'):
        if 'define YY_OFFSET_TYPE' in ln or 'YYTD_ID_TRANSITION, ' in ln or ln.startswith('/* tblend'): print(name, ':', ln.strip())
    subprocess.check_call(['cc', '-w', '-o', name, name + '.c'], cwd=d)
    p = subprocess.run(['./' + name, 'in.txt'], cwd=d, stdout=subprocess.PIPE, stderr=subprocess.STDOUT)
    print(name, ': exit', p.returncode, ':', p.stdout.decode().strip())
print('scratch dir:', d)
