/* Positive control for C13.R1-R6: a miniature reentrant "scanner" with the anchor names of the cpp skeleton that breaks
 * each rule once (marked), next to clean twins that must stay silent.  Compiled to LLVM IR by rules/c13.py at run time;
 * never executed. */
#include <stdlib.h>
#include <string.h>

typedef void *yyscan_t;
struct yy_buffer_state { char *yy_ch_buf; char *yy_buf_pos; int yy_buf_size; int yy_is_our_buffer; };
struct yy_thing { int x; };
struct yyguts_t {
	struct yy_buffer_state **yy_buffer_stack; size_t yy_buffer_stack_top, yy_buffer_stack_max;
	int *yy_start_stack; int yy_start_stack_ptr, yy_start_stack_depth;
	int *yy_state_buf; int *yy_state_ptr; size_t yy_state_buf_max;
	char *yy_names;     /* R1: malloc()ed, released with yyfree */
	char *yy_scratch;   /* R2: allocated, never released; R5: lazily allocated, not reset */
	char *yy_c_buf_p; int yy_init;
};

void *yyalloc(size_t n, yyscan_t s) { (void) s; return malloc(n); }
void *yyrealloc(void *p, size_t n, yyscan_t s) { (void) s; return realloc(p, n); }
void yyfree(void *p, yyscan_t s) { (void) s; free(p); }

static int yy_ctl_static_states[8];

static void yy_load_buffer_state(yyscan_t yyscanner) {
	struct yyguts_t *yyg = yyscanner;
	yyg->yy_c_buf_p = yyg->yy_buffer_stack[yyg->yy_buffer_stack_top]->yy_buf_pos;
}

static void yyensure_buffer_stack(yyscan_t yyscanner) {            /* clean: lazy allocation, reset by yy_init_globals */
	struct yyguts_t *yyg = yyscanner;
	if (!yyg->yy_buffer_stack) {
		yyg->yy_buffer_stack = yyalloc(sizeof(struct yy_buffer_state *), yyscanner);
		yyg->yy_buffer_stack[0] = 0;
		yyg->yy_buffer_stack_max = 1; yyg->yy_buffer_stack_top = 0;
	}
}

struct yy_buffer_state *yy_ctl_new_buffer(int size, yyscan_t yyscanner) {
	struct yy_buffer_state *b = yyalloc(sizeof *b, yyscanner);
	b->yy_buf_size = size;
	b->yy_ch_buf = yyalloc((size_t) (b->yy_buf_size + 1), yyscanner);   /* R6: one sentinel short */
	b->yy_buf_pos = b->yy_ch_buf;
	b->yy_is_our_buffer = 1;
	return b;
}

struct yy_buffer_state *yy_ctl_ok_buffer(int size, yyscan_t yyscanner) {
	struct yy_buffer_state *b = yyalloc(sizeof *b, yyscanner);
	b->yy_buf_size = size;
	b->yy_ch_buf = yyalloc((size_t) (b->yy_buf_size + 2), yyscanner);   /* clean */
	b->yy_buf_pos = b->yy_ch_buf;
	b->yy_is_our_buffer = 1;
	return b;
}

struct yy_buffer_state *yy_ctl_wrap_text(char *base, int size, yyscan_t yyscanner) {
	struct yy_buffer_state *b = yyalloc(sizeof *b, yyscanner);
	b->yy_buf_size = size - 2;
	b->yy_buf_pos = b->yy_ch_buf = base;          /* caller-supplied text */
	b->yy_is_our_buffer = 0;
	return b;
}

void yy_delete_buffer(struct yy_buffer_state *b, yyscan_t yyscanner) {   /* clean */
	struct yyguts_t *yyg = yyscanner;
	if (!b) return;
	if (yyg->yy_buffer_stack && b == yyg->yy_buffer_stack[yyg->yy_buffer_stack_top])
		yyg->yy_buffer_stack[yyg->yy_buffer_stack_top] = 0;
	if (b->yy_is_our_buffer) yyfree(b->yy_ch_buf, yyscanner);
	yyfree(b, yyscanner);
}

void yy_ctl_drop_text(struct yy_buffer_state *b, yyscan_t yyscanner) {
	yyfree(b->yy_ch_buf, yyscanner);              /* R1: may be caller-supplied, no yy_is_our_buffer test */
	b->yy_ch_buf = 0;
}

void yy_ctl_ok_switch(struct yy_buffer_state *nb, yyscan_t yyscanner) {   /* clean: capacity test after the switch */
	struct yyguts_t *yyg = yyscanner;
	yyensure_buffer_stack(yyscanner);
	yyg->yy_buffer_stack[yyg->yy_buffer_stack_top] = nb;
	yy_load_buffer_state(yyscanner);
	if (yyg->yy_state_buf_max < (size_t) (nb->yy_buf_size + 2)) {
		size_t ns = (size_t) nb->yy_buf_size + 2;
		int *p = yyrealloc(yyg->yy_state_buf, ns * sizeof(int), yyscanner);
		if (!p) abort();
		yyg->yy_state_buf = p; yyg->yy_state_buf_max = ns;
	}
}

void yy_ctl_push(struct yy_buffer_state *nb, yyscan_t yyscanner) {
	struct yyguts_t *yyg = yyscanner;
	yyensure_buffer_stack(yyscanner);
	yyg->yy_buffer_stack[yyg->yy_buffer_stack_top] = nb;      /* R3: no capacity test follows */
	yy_load_buffer_state(yyscanner);
}

void yy_ctl_pop(yyscan_t yyscanner) {
	struct yyguts_t *yyg = yyscanner;
	if (yyg->yy_buffer_stack_top > 0) --yyg->yy_buffer_stack_top;   /* R3 */
	yy_load_buffer_state(yyscanner);
}

void yy_ctl_grow(yyscan_t yyscanner) {
	struct yyguts_t *yyg = yyscanner;
	int *p;
	if (!yyg->yy_state_buf) yyg->yy_state_buf = yy_ctl_static_states;     /* R1: address of a static object ... */
	p = yyrealloc(yyg->yy_state_buf, 64 * sizeof(int), yyscanner);      /* ... handed to yyrealloc */
	if (!p) abort();
	yyg->yy_state_buf = p; yyg->yy_state_buf_max = 64;
}

void yy_ctl_shrink(yyscan_t yyscanner) {
	struct yyguts_t *yyg = yyscanner;
	yyfree(yyg->yy_start_stack, yyscanner);       /* R4: stale pointer left in yy_start_stack */
	yyg->yy_start_stack_ptr = 0;
}

void yy_ctl_ok_push_state(yyscan_t yyscanner) {   /* clean: lazily allocated, reset */
	struct yyguts_t *yyg = yyscanner;
	if (!yyg->yy_start_stack) yyg->yy_start_stack = yyalloc(25 * sizeof(int), yyscanner);
	yyg->yy_start_stack[yyg->yy_start_stack_ptr++] = 1;
}

void yy_ctl_leak(yyscan_t yyscanner) {
	char *p = yyalloc(10, yyscanner);             /* R2: result dropped */
	if (p) p[0] = 0;
}

void yy_ctl_names(yyscan_t yyscanner) {
	struct yyguts_t *yyg = yyscanner;
	yyg->yy_names = malloc(32);                   /* R1: wrong family for the yyfree in yylex_destroy */
	if (!yyg->yy_scratch) yyg->yy_scratch = yyalloc(16, yyscanner);     /* R2 + R5 */
}

struct yy_thing *yy_ctl_make_thing(yyscan_t yyscanner) {
	return yyalloc(sizeof(struct yy_thing), yyscanner);        /* R2: handed out, no API function releases a yy_thing* */
}

static int yy_init_globals(yyscan_t yyscanner) {
	struct yyguts_t *yyg = yyscanner;
	yyg->yy_buffer_stack = 0; yyg->yy_buffer_stack_top = 0; yyg->yy_buffer_stack_max = 0;
	yyg->yy_start_stack = 0; yyg->yy_start_stack_ptr = 0;    /* R5: companion yy_start_stack_depth not reset */
	yyg->yy_state_buf = 0; yyg->yy_state_ptr = 0; yyg->yy_state_buf_max = 0;
	yyg->yy_names = 0; yyg->yy_c_buf_p = 0; yyg->yy_init = 0;
	return 0;                                     /* R5: yy_scratch not reset */
}

int yylex_init(yyscan_t *out) {
	*out = yyalloc(sizeof(struct yyguts_t), 0);
	if (!*out) return 1;
	memset(*out, 0, sizeof(struct yyguts_t));
	return yy_init_globals(*out);
}

int yylex_destroy(yyscan_t yyscanner) {
	struct yyguts_t *yyg = yyscanner;
	while (yyg->yy_buffer_stack && yyg->yy_buffer_stack[yyg->yy_buffer_stack_top]) {
		yy_delete_buffer(yyg->yy_buffer_stack[yyg->yy_buffer_stack_top], yyscanner);
		yyg->yy_buffer_stack[yyg->yy_buffer_stack_top] = 0;
		if (yyg->yy_buffer_stack_top) --yyg->yy_buffer_stack_top;
	}
	yyfree(yyg->yy_buffer_stack, yyscanner); yyg->yy_buffer_stack = 0;
	yyfree(yyg->yy_start_stack, yyscanner); yyg->yy_start_stack = 0;
	yyfree(yyg->yy_names, yyscanner); yyg->yy_names = 0;      /* R1: yyfree <- malloc */
	yy_init_globals(yyscanner);
	yyfree(yyg->yy_state_buf, yyscanner); yyg->yy_state_buf = 0;    /* R5: released after the reset: leaked */
	yyfree(yyscanner, yyscanner);
	return 0;
}
