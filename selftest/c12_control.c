/* Positive control for C12.R1-R4: a miniature "reentrant scanner" that breaks each rule once.
 * Compiled to LLVM IR by rules/c12.py at run time; every rule must fire on the marked construct and must
 * stay silent on yy_ctl_clean().  Never executed. */
#include <string.h>
#include <time.h>
#include <stdlib.h>

struct yy_ctl_guts { int n; char *buf; int *stack; };

static int yy_ctl_counter;                 /* R1: writable global definition */
static char yy_ctl_scratch[16];            /* R1: written through memset */
extern int yy_ctl_shared;                  /* R2: state that is not reached through the instance */
extern struct yy_ctl_guts *yy_ctl_shared_ptr;
static int yy_ctl_hidden(void) { return 1; }          /* R4: internal, must not be listed */
int foo_ctl_common;                        /* R4: common/BSS external, must be listed */

int yy_ctl_bump(void *yyscanner) {
	static int calls;                      /* R1: function-local static */
	struct yy_ctl_guts *g = (struct yy_ctl_guts *) yyscanner;
	calls++;
	yy_ctl_counter++;                      /* R1: store rooted at a global */
	return g->n + calls + yy_ctl_hidden();
}

void yy_ctl_clear(void *yyscanner) {
	(void) yyscanner;
	memset(yy_ctl_scratch, 0, sizeof yy_ctl_scratch);    /* R1: libc write rooted at a global */
}

int yy_ctl_peek(void *yyscanner) {
	(void) yyscanner;
	return yy_ctl_shared;                  /* R2: load of a non-constant external */
}

int yy_ctl_via_ptr(void *yyscanner) {
	struct yy_ctl_guts *g = yy_ctl_shared_ptr;     /* held in a local first */
	(void) yyscanner;
	return g->stack[g->n];                 /* R2: rooted at the global pointer */
}

int yy_ctl_time(void *yyscanner) {
	time_t t = 0;
	(void) yyscanner;
	return localtime(&t)->tm_year;         /* R3 + R2: static storage of libc */
}

char *yy_ctl_tok(void *yyscanner, char *s) {
	(void) yyscanner;
	return strtok(s, " ");                 /* R3 */
}

static const short yy_ctl_table[4] = { 1, 2, 3, 4 };

int yy_ctl_clean(void *yyscanner, int c) {
	struct yy_ctl_guts *g = (struct yy_ctl_guts *) yyscanner;
	char *p = g->buf;
	int *sp = g->stack;
	int i;
	for (i = 0; i < g->n; ++i) p[i] = (char) yy_ctl_table[c & 3];
	sp[0] = g->n;
	g->buf = (char *) realloc(g->buf, (size_t) g->n + 2);
	g->buf[0] = 0;
	return sp[0] + yy_ctl_table[(c + 1) & 3];
}

int foo_ctl_ok(void) { return 0; }         /* R4: prefixed external */

/* effectively read-only: lacks a top-level const, but is only ever read (like yy_start_state_list of -CF scanners) */
static const short *yy_ctl_rotab[2] = { &yy_ctl_table[0], &yy_ctl_table[2] };
int yy_ctl_ro(void *yyscanner, int c) { (void) yyscanner; return *yy_ctl_rotab[c & 1]; }
/* same shape, but the address escapes: must not be classified read-only */
static const short *yy_ctl_leak[2] = { &yy_ctl_table[0], &yy_ctl_table[2] };
const short ***yy_ctl_leaker(void *yyscanner) { static const short **p; (void) yyscanner; p = yy_ctl_leak; return &p; }
