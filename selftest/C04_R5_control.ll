; ModuleID = 'C04_R5_control.c'
source_filename = "C04_R5_control.c"
target datalayout = "e-m:e-p270:32:32-p271:32:32-p272:64:64-i64:64-f80:128-n8:16:32:64-S128"
target triple = "x86_64-pc-linux-gnu"

@yy_start = internal global i32 0, align 4, !dbg !0
@yytext_ptr = internal global i8* null, align 8, !dbg !11
@yy_c_buf_p = internal global i8* null, align 8, !dbg !7
@yy_ec = internal constant <{ i8, i8, i8, [253 x i8] }> <{ i8 0, i8 1, i8 2, [253 x i8] zeroinitializer }>, align 16, !dbg !13
@yy_nxt = internal constant <{ i16, i16, i16, [61 x i16] }> <{ i16 0, i16 1, i16 2, [61 x i16] zeroinitializer }>, align 16, !dbg !19

; Function Attrs: noinline nounwind optnone uwtable
define dso_local i32 @yy_get_previous_state() #0 !dbg !35 {
entry:
  %yy_current_state = alloca i32, align 4
  %yy_cp = alloca i8*, align 8
  %yy_c = alloca i32, align 4
  call void @llvm.dbg.declare(metadata i32* %yy_current_state, metadata !39, metadata !DIExpression()), !dbg !40
  %0 = load i32, i32* @yy_start, align 4, !dbg !41
  store i32 %0, i32* %yy_current_state, align 4, !dbg !40
  call void @llvm.dbg.declare(metadata i8** %yy_cp, metadata !42, metadata !DIExpression()), !dbg !43
  %1 = load i8*, i8** @yytext_ptr, align 8, !dbg !44
  store i8* %1, i8** %yy_cp, align 8, !dbg !46
  br label %for.cond, !dbg !47

for.cond:                                         ; preds = %for.inc, %entry
  %2 = load i8*, i8** %yy_cp, align 8, !dbg !48
  %3 = load i8*, i8** @yy_c_buf_p, align 8, !dbg !50
  %cmp = icmp ult i8* %2, %3, !dbg !51
  br i1 %cmp, label %for.body, label %for.end, !dbg !52

for.body:                                         ; preds = %for.cond
  call void @llvm.dbg.declare(metadata i32* %yy_c, metadata !53, metadata !DIExpression()), !dbg !55
  %4 = load i8*, i8** %yy_cp, align 8, !dbg !56
  %5 = load i8, i8* %4, align 1, !dbg !57
  %idxprom = sext i8 %5 to i64, !dbg !58
  %arrayidx = getelementptr inbounds [256 x i8], [256 x i8]* bitcast (<{ i8, i8, i8, [253 x i8] }>* @yy_ec to [256 x i8]*), i64 0, i64 %idxprom, !dbg !58
  %6 = load i8, i8* %arrayidx, align 1, !dbg !58
  %conv = zext i8 %6 to i32, !dbg !58
  store i32 %conv, i32* %yy_c, align 4, !dbg !55
  %7 = load i32, i32* %yy_current_state, align 4, !dbg !59
  %8 = load i32, i32* %yy_c, align 4, !dbg !60
  %add = add nsw i32 %7, %8, !dbg !61
  %idxprom1 = sext i32 %add to i64, !dbg !62
  %arrayidx2 = getelementptr inbounds [64 x i16], [64 x i16]* bitcast (<{ i16, i16, i16, [61 x i16] }>* @yy_nxt to [64 x i16]*), i64 0, i64 %idxprom1, !dbg !62
  %9 = load i16, i16* %arrayidx2, align 2, !dbg !62
  %conv3 = sext i16 %9 to i32, !dbg !62
  store i32 %conv3, i32* %yy_current_state, align 4, !dbg !63
  br label %for.inc, !dbg !64

for.inc:                                          ; preds = %for.body
  %10 = load i8*, i8** %yy_cp, align 8, !dbg !65
  %incdec.ptr = getelementptr inbounds i8, i8* %10, i32 1, !dbg !65
  store i8* %incdec.ptr, i8** %yy_cp, align 8, !dbg !65
  br label %for.cond, !dbg !66, !llvm.loop !67

for.end:                                          ; preds = %for.cond
  %11 = load i32, i32* %yy_current_state, align 4, !dbg !70
  ret i32 %11, !dbg !71
}

; Function Attrs: nofree nosync nounwind readnone speculatable willreturn
declare void @llvm.dbg.declare(metadata, metadata, metadata) #1

; Function Attrs: noinline nounwind optnone uwtable
define dso_local i32 @yy_try_NUL_trans(i32 noundef %yy_current_state) #0 !dbg !72 {
entry:
  %yy_current_state.addr = alloca i32, align 4
  %yy_cp = alloca i8*, align 8
  %yy_c = alloca i32, align 4
  store i32 %yy_current_state, i32* %yy_current_state.addr, align 4
  call void @llvm.dbg.declare(metadata i32* %yy_current_state.addr, metadata !75, metadata !DIExpression()), !dbg !76
  call void @llvm.dbg.declare(metadata i8** %yy_cp, metadata !77, metadata !DIExpression()), !dbg !78
  %0 = load i8*, i8** @yy_c_buf_p, align 8, !dbg !79
  store i8* %0, i8** %yy_cp, align 8, !dbg !78
  call void @llvm.dbg.declare(metadata i32* %yy_c, metadata !80, metadata !DIExpression()), !dbg !81
  %1 = load i8*, i8** %yy_cp, align 8, !dbg !82
  %2 = load i8, i8* %1, align 1, !dbg !83
  %idxprom = zext i8 %2 to i64, !dbg !84
  %arrayidx = getelementptr inbounds [256 x i8], [256 x i8]* bitcast (<{ i8, i8, i8, [253 x i8] }>* @yy_ec to [256 x i8]*), i64 0, i64 %idxprom, !dbg !84
  %3 = load i8, i8* %arrayidx, align 1, !dbg !84
  %conv = zext i8 %3 to i32, !dbg !84
  store i32 %conv, i32* %yy_c, align 4, !dbg !81
  %4 = load i32, i32* %yy_current_state.addr, align 4, !dbg !85
  %5 = load i32, i32* %yy_c, align 4, !dbg !86
  %add = add nsw i32 %4, %5, !dbg !87
  %idxprom1 = sext i32 %add to i64, !dbg !88
  %arrayidx2 = getelementptr inbounds [64 x i16], [64 x i16]* bitcast (<{ i16, i16, i16, [61 x i16] }>* @yy_nxt to [64 x i16]*), i64 0, i64 %idxprom1, !dbg !88
  %6 = load i16, i16* %arrayidx2, align 2, !dbg !88
  %conv3 = sext i16 %6 to i32, !dbg !88
  ret i32 %conv3, !dbg !89
}

attributes #0 = { noinline nounwind optnone uwtable "frame-pointer"="all" "min-legal-vector-width"="0" "no-trapping-math"="true" "stack-protector-buffer-size"="8" "target-cpu"="x86-64" "target-features"="+cx8,+fxsr,+mmx,+sse,+sse2,+x87" "tune-cpu"="generic" }
attributes #1 = { nofree nosync nounwind readnone speculatable willreturn }

!llvm.dbg.cu = !{!2}
!llvm.module.flags = !{!27, !28, !29, !30, !31, !32, !33}
!llvm.ident = !{!34}

!0 = !DIGlobalVariableExpression(var: !1, expr: !DIExpression())
!1 = distinct !DIGlobalVariable(name: "yy_start", scope: !2, file: !3, line: 10, type: !26, isLocal: true, isDefinition: true)
!2 = distinct !DICompileUnit(language: DW_LANG_C99, file: !3, producer: "Debian clang version 14.0.6", isOptimized: false, runtimeVersion: 0, emissionKind: FullDebug, retainedTypes: !4, globals: !6, splitDebugInlining: false, nameTableKind: None)
!3 = !DIFile(filename: "C04_R5_control.c", directory: "/verif/selftest", checksumkind: CSK_MD5, checksum: "8d9c35e4471b30e03a9f73b056dccb78")
!4 = !{!5}
!5 = !DIBasicType(name: "unsigned char", size: 8, encoding: DW_ATE_unsigned_char)
!6 = !{!7, !11, !0, !13, !19}
!7 = !DIGlobalVariableExpression(var: !8, expr: !DIExpression())
!8 = distinct !DIGlobalVariable(name: "yy_c_buf_p", scope: !2, file: !3, line: 8, type: !9, isLocal: true, isDefinition: true)
!9 = !DIDerivedType(tag: DW_TAG_pointer_type, baseType: !10, size: 64)
!10 = !DIBasicType(name: "char", size: 8, encoding: DW_ATE_signed_char)
!11 = !DIGlobalVariableExpression(var: !12, expr: !DIExpression())
!12 = distinct !DIGlobalVariable(name: "yytext_ptr", scope: !2, file: !3, line: 9, type: !9, isLocal: true, isDefinition: true)
!13 = !DIGlobalVariableExpression(var: !14, expr: !DIExpression())
!14 = distinct !DIGlobalVariable(name: "yy_ec", scope: !2, file: !3, line: 6, type: !15, isLocal: true, isDefinition: true)
!15 = !DICompositeType(tag: DW_TAG_array_type, baseType: !16, size: 2048, elements: !17)
!16 = !DIDerivedType(tag: DW_TAG_const_type, baseType: !5)
!17 = !{!18}
!18 = !DISubrange(count: 256)
!19 = !DIGlobalVariableExpression(var: !20, expr: !DIExpression())
!20 = distinct !DIGlobalVariable(name: "yy_nxt", scope: !2, file: !3, line: 7, type: !21, isLocal: true, isDefinition: true)
!21 = !DICompositeType(tag: DW_TAG_array_type, baseType: !22, size: 1024, elements: !24)
!22 = !DIDerivedType(tag: DW_TAG_const_type, baseType: !23)
!23 = !DIBasicType(name: "short", size: 16, encoding: DW_ATE_signed)
!24 = !{!25}
!25 = !DISubrange(count: 64)
!26 = !DIBasicType(name: "int", size: 32, encoding: DW_ATE_signed)
!27 = !{i32 7, !"Dwarf Version", i32 5}
!28 = !{i32 2, !"Debug Info Version", i32 3}
!29 = !{i32 1, !"wchar_size", i32 4}
!30 = !{i32 7, !"PIC Level", i32 2}
!31 = !{i32 7, !"PIE Level", i32 2}
!32 = !{i32 7, !"uwtable", i32 1}
!33 = !{i32 7, !"frame-pointer", i32 2}
!34 = !{!"Debian clang version 14.0.6"}
!35 = distinct !DISubprogram(name: "yy_get_previous_state", scope: !3, file: !3, line: 12, type: !36, scopeLine: 13, flags: DIFlagPrototyped, spFlags: DISPFlagDefinition, unit: !2, retainedNodes: !38)
!36 = !DISubroutineType(types: !37)
!37 = !{!26}
!38 = !{}
!39 = !DILocalVariable(name: "yy_current_state", scope: !35, file: !3, line: 14, type: !26)
!40 = !DILocation(line: 14, column: 6, scope: !35)
!41 = !DILocation(line: 14, column: 25, scope: !35)
!42 = !DILocalVariable(name: "yy_cp", scope: !35, file: !3, line: 15, type: !9)
!43 = !DILocation(line: 15, column: 8, scope: !35)
!44 = !DILocation(line: 16, column: 15, scope: !45)
!45 = distinct !DILexicalBlock(scope: !35, file: !3, line: 16, column: 2)
!46 = !DILocation(line: 16, column: 13, scope: !45)
!47 = !DILocation(line: 16, column: 7, scope: !45)
!48 = !DILocation(line: 16, column: 27, scope: !49)
!49 = distinct !DILexicalBlock(scope: !45, file: !3, line: 16, column: 2)
!50 = !DILocation(line: 16, column: 35, scope: !49)
!51 = !DILocation(line: 16, column: 33, scope: !49)
!52 = !DILocation(line: 16, column: 2, scope: !45)
!53 = !DILocalVariable(name: "yy_c", scope: !54, file: !3, line: 17, type: !26)
!54 = distinct !DILexicalBlock(scope: !49, file: !3, line: 16, column: 56)
!55 = !DILocation(line: 17, column: 7, scope: !54)
!56 = !DILocation(line: 17, column: 21, scope: !54)
!57 = !DILocation(line: 17, column: 20, scope: !54)
!58 = !DILocation(line: 17, column: 14, scope: !54)
!59 = !DILocation(line: 18, column: 29, scope: !54)
!60 = !DILocation(line: 18, column: 48, scope: !54)
!61 = !DILocation(line: 18, column: 46, scope: !54)
!62 = !DILocation(line: 18, column: 22, scope: !54)
!63 = !DILocation(line: 18, column: 20, scope: !54)
!64 = !DILocation(line: 19, column: 2, scope: !54)
!65 = !DILocation(line: 16, column: 47, scope: !49)
!66 = !DILocation(line: 16, column: 2, scope: !49)
!67 = distinct !{!67, !52, !68, !69}
!68 = !DILocation(line: 19, column: 2, scope: !45)
!69 = !{!"llvm.loop.mustprogress"}
!70 = !DILocation(line: 20, column: 9, scope: !35)
!71 = !DILocation(line: 20, column: 2, scope: !35)
!72 = distinct !DISubprogram(name: "yy_try_NUL_trans", scope: !3, file: !3, line: 23, type: !73, scopeLine: 24, flags: DIFlagPrototyped, spFlags: DISPFlagDefinition, unit: !2, retainedNodes: !38)
!73 = !DISubroutineType(types: !74)
!74 = !{!26, !26}
!75 = !DILocalVariable(name: "yy_current_state", arg: 1, scope: !72, file: !3, line: 23, type: !26)
!76 = !DILocation(line: 23, column: 26, scope: !72)
!77 = !DILocalVariable(name: "yy_cp", scope: !72, file: !3, line: 25, type: !9)
!78 = !DILocation(line: 25, column: 8, scope: !72)
!79 = !DILocation(line: 25, column: 16, scope: !72)
!80 = !DILocalVariable(name: "yy_c", scope: !72, file: !3, line: 26, type: !26)
!81 = !DILocation(line: 26, column: 6, scope: !72)
!82 = !DILocation(line: 26, column: 36, scope: !72)
!83 = !DILocation(line: 26, column: 35, scope: !72)
!84 = !DILocation(line: 26, column: 13, scope: !72)
!85 = !DILocation(line: 27, column: 16, scope: !72)
!86 = !DILocation(line: 27, column: 35, scope: !72)
!87 = !DILocation(line: 27, column: 33, scope: !72)
!88 = !DILocation(line: 27, column: 9, scope: !72)
!89 = !DILocation(line: 27, column: 2, scope: !72)
