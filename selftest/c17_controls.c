/* Positive controls for the C17 rules (compiled to IR at run time, never executed). */
#include <stdio.h>
#include <stdbool.h>

struct env_bundle_t { bool backing_up_report; bool did_outfilename; char *headerfilename; bool nowarn; int performance_hint; bool use_stdout; };
struct ctrl_bundle_t { bool fulltbl; bool spprdflt; };
struct env_bundle_t env;
struct ctrl_bundle_t ctrl;
char *infilename;
int counter;
const char *gettext(const char *);
#define _(x) gettext(x)

/* ---------------------------------------------------------------- R1 */
void line_pinpoint(const char *str, int line) { fprintf(stderr, "%s:%d: %s\n", infilename, line, str); }
void line_warning(const char *str, int line)		/* conforming */
{
	char warning[128];
	if (!env.nowarn) {
		snprintf(warning, sizeof(warning), "warning, %s", str);
		line_pinpoint(warning, line);
	}
}
void flexend(int status)				/* control: -w leaks into stdout */
{
	if (env.nowarn)
		putc('w', stdout);
}
void other_reader(void)					/* conforming: another reader, stderr only */
{
	if (env.nowarn)
		fputs("quiet\n", stderr);
}
void leaky_printer(void)				/* control: listed reader with a side effect */
{
	if (!env.nowarn) {
		fputs("warning\n", stderr);
		counter++;
	}
}
int escaping_reader(void) { return env.nowarn; }	/* control: the value leaves the function */

/* ---------------------------------------------------------------- R2 */
char *rule_useful; int *rule_linenum; int num_rules, default_rule, reject;
long ntod(void);
void new_rule(void)					/* control: one path leaves the entry uninitialised */
{
	++num_rules;
	if (num_rules > 100)
		return;
	rule_useful[num_rules] = false;
}
void snstods(int j) { if (j <= num_rules) rule_useful[j] = true; }
void meddler(void) { rule_useful[3] = true; }		/* control: a writer outside new_rule/snstods */
int flex_main(void)
{
	int i;
	ntod();
	for (i = 2; i <= num_rules; ++i)		/* control: rule 1 is never examined */
		if (!rule_useful[i] && i != default_rule)
			line_warning(_("rule cannot be matched"), rule_linenum[i]);
	if (ctrl.spprdflt && !reject && rule_useful[default_rule] && !ctrl.fulltbl)	/* control: extra condition */
		line_warning(_("-s option given but default rule can be matched"), rule_linenum[default_rule]);
	return 0;
}
