#!/bin/bash
# selftest/run_mutations.sh <ID> [name-regex]   - runs the mutation list selftest/<ID>.mutations.txt and compares verdicts
# line format:  expected-exit | expected key fragment (or -) | tools/mut.sh ... command
cd /verif
id=$1; pat=${2:-.}
pass=0; fail=0
while IFS= read -r line; do
  case "$line" in \#*|"") continue;; esac
  exp=$(echo "$line" | cut -d'|' -f1 | tr -d ' ')
  frag=$(echo "$line" | cut -d'|' -f2 | sed 's/^ *//; s/ *$//')
  cmd=$(echo "$line" | cut -d'|' -f3- | sed 's/^ *//')
  name=$(echo "$cmd" | awk '{print $2}')
  echo "$name" | grep -Eq "$pat" || continue
  out=$(MUT_OUT_LINES=60 MUT_DIFF_LINES=0 eval "$cmd" 2>&1 | grep -v conda)
  rc=$(echo "$out" | sed -n 's/^== .* exit=\([0-9]*\)$/\1/p' | tail -1)
  ok=1
  [ "$rc" = "$exp" ] || ok=0
  if [ "$exp" = 1 ] && [ "$frag" != "-" ]; then echo "$out" | grep -qF "$frag" || ok=0; fi
  if [ $ok = 1 ]; then pass=$((pass+1)); echo "PASS $name (exit $rc) $frag"; else fail=$((fail+1)); echo "FAIL $name expected exit=$exp [$frag] got exit=$rc"; echo "$out" | tail -8 | cut -c1-300 | sed 's/^/     /'; fi
done < selftest/$id.mutations.txt
echo "mutations: $pass as expected, $fail not"
[ $fail = 0 ]
