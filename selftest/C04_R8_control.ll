; ModuleID = 'selftest/C04_R8_control.c'
source_filename = "selftest/C04_R8_control.c"
target datalayout = "e-m:e-p270:32:32-p271:32:32-p272:64:64-i64:64-f80:128-n8:16:32:64-S128"
target triple = "x86_64-pc-linux-gnu"

%struct.ctrl_bundle_t = type { i32 }

@marks = dso_local global [257 x i32] zeroinitializer, align 16, !dbg !0
@ctrl = dso_local global %struct.ctrl_bundle_t zeroinitializer, align 4, !dbg !5

; Function Attrs: noinline nounwind optnone uwtable
define dso_local void @bad_loop() #0 !dbg !22 {
entry:
  %ch = alloca i32, align 4
  call void @llvm.dbg.declare(metadata i32* %ch, metadata !26, metadata !DIExpression()), !dbg !27
  store i32 0, i32* %ch, align 4, !dbg !28
  br label %for.cond, !dbg !30

for.cond:                                         ; preds = %for.inc, %entry
  %0 = load i32, i32* %ch, align 4, !dbg !31
  %cmp = icmp slt i32 %0, 256, !dbg !33
  br i1 %cmp, label %for.body, label %for.end, !dbg !34

for.body:                                         ; preds = %for.cond
  %1 = load i32, i32* %ch, align 4, !dbg !35
  %idxprom = sext i32 %1 to i64, !dbg !36
  %arrayidx = getelementptr inbounds [257 x i32], [257 x i32]* @marks, i64 0, i64 %idxprom, !dbg !36
  store i32 1, i32* %arrayidx, align 4, !dbg !37
  br label %for.inc, !dbg !36

for.inc:                                          ; preds = %for.body
  %2 = load i32, i32* %ch, align 4, !dbg !38
  %inc = add nsw i32 %2, 1, !dbg !38
  store i32 %inc, i32* %ch, align 4, !dbg !38
  br label %for.cond, !dbg !39, !llvm.loop !40

for.end:                                          ; preds = %for.cond
  ret void, !dbg !43
}

; Function Attrs: nofree nosync nounwind readnone speculatable willreturn
declare void @llvm.dbg.declare(metadata, metadata, metadata) #1

; Function Attrs: noinline nounwind optnone uwtable
define dso_local void @good_loop() #0 !dbg !44 {
entry:
  %ch = alloca i32, align 4
  call void @llvm.dbg.declare(metadata i32* %ch, metadata !45, metadata !DIExpression()), !dbg !46
  store i32 0, i32* %ch, align 4, !dbg !47
  br label %for.cond, !dbg !49

for.cond:                                         ; preds = %for.inc, %entry
  %0 = load i32, i32* %ch, align 4, !dbg !50
  %1 = load i32, i32* getelementptr inbounds (%struct.ctrl_bundle_t, %struct.ctrl_bundle_t* @ctrl, i32 0, i32 0), align 4, !dbg !52
  %cmp = icmp slt i32 %0, %1, !dbg !53
  br i1 %cmp, label %for.body, label %for.end, !dbg !54

for.body:                                         ; preds = %for.cond
  %2 = load i32, i32* %ch, align 4, !dbg !55
  %idxprom = sext i32 %2 to i64, !dbg !56
  %arrayidx = getelementptr inbounds [257 x i32], [257 x i32]* @marks, i64 0, i64 %idxprom, !dbg !56
  store i32 1, i32* %arrayidx, align 4, !dbg !57
  br label %for.inc, !dbg !56

for.inc:                                          ; preds = %for.body
  %3 = load i32, i32* %ch, align 4, !dbg !58
  %inc = add nsw i32 %3, 1, !dbg !58
  store i32 %inc, i32* %ch, align 4, !dbg !58
  br label %for.cond, !dbg !59, !llvm.loop !60

for.end:                                          ; preds = %for.cond
  ret void, !dbg !62
}

attributes #0 = { noinline nounwind optnone uwtable "frame-pointer"="all" "min-legal-vector-width"="0" "no-trapping-math"="true" "stack-protector-buffer-size"="8" "target-cpu"="x86-64" "target-features"="+cx8,+fxsr,+mmx,+sse,+sse2,+x87" "tune-cpu"="generic" }
attributes #1 = { nofree nosync nounwind readnone speculatable willreturn }

!llvm.dbg.cu = !{!2}
!llvm.module.flags = !{!14, !15, !16, !17, !18, !19, !20}
!llvm.ident = !{!21}

!0 = !DIGlobalVariableExpression(var: !1, expr: !DIExpression())
!1 = distinct !DIGlobalVariable(name: "marks", scope: !2, file: !3, line: 4, type: !11, isLocal: false, isDefinition: true)
!2 = distinct !DICompileUnit(language: DW_LANG_C99, file: !3, producer: "Debian clang version 14.0.6", isOptimized: false, runtimeVersion: 0, emissionKind: FullDebug, globals: !4, splitDebugInlining: false, nameTableKind: None)
!3 = !DIFile(filename: "selftest/C04_R8_control.c", directory: "/tmp/vdev", checksumkind: CSK_MD5, checksum: "7c69b5113ed6e38226892a5759d36083")
!4 = !{!5, !0}
!5 = !DIGlobalVariableExpression(var: !6, expr: !DIExpression())
!6 = distinct !DIGlobalVariable(name: "ctrl", scope: !2, file: !3, line: 3, type: !7, isLocal: false, isDefinition: true)
!7 = distinct !DICompositeType(tag: DW_TAG_structure_type, name: "ctrl_bundle_t", file: !3, line: 3, size: 32, elements: !8)
!8 = !{!9}
!9 = !DIDerivedType(tag: DW_TAG_member, name: "csize", scope: !7, file: !3, line: 3, baseType: !10, size: 32)
!10 = !DIBasicType(name: "int", size: 32, encoding: DW_ATE_signed)
!11 = !DICompositeType(tag: DW_TAG_array_type, baseType: !10, size: 8224, elements: !12)
!12 = !{!13}
!13 = !DISubrange(count: 257)
!14 = !{i32 7, !"Dwarf Version", i32 5}
!15 = !{i32 2, !"Debug Info Version", i32 3}
!16 = !{i32 1, !"wchar_size", i32 4}
!17 = !{i32 7, !"PIC Level", i32 2}
!18 = !{i32 7, !"PIE Level", i32 2}
!19 = !{i32 7, !"uwtable", i32 1}
!20 = !{i32 7, !"frame-pointer", i32 2}
!21 = !{!"Debian clang version 14.0.6"}
!22 = distinct !DISubprogram(name: "bad_loop", scope: !3, file: !3, line: 5, type: !23, scopeLine: 5, flags: DIFlagPrototyped, spFlags: DISPFlagDefinition, unit: !2, retainedNodes: !25)
!23 = !DISubroutineType(types: !24)
!24 = !{null}
!25 = !{}
!26 = !DILocalVariable(name: "ch", scope: !22, file: !3, line: 5, type: !10)
!27 = !DILocation(line: 5, column: 27, scope: !22)
!28 = !DILocation(line: 5, column: 39, scope: !29)
!29 = distinct !DILexicalBlock(scope: !22, file: !3, line: 5, column: 31)
!30 = !DILocation(line: 5, column: 36, scope: !29)
!31 = !DILocation(line: 5, column: 44, scope: !32)
!32 = distinct !DILexicalBlock(scope: !29, file: !3, line: 5, column: 31)
!33 = !DILocation(line: 5, column: 47, scope: !32)
!34 = !DILocation(line: 5, column: 31, scope: !29)
!35 = !DILocation(line: 5, column: 66, scope: !32)
!36 = !DILocation(line: 5, column: 60, scope: !32)
!37 = !DILocation(line: 5, column: 70, scope: !32)
!38 = !DILocation(line: 5, column: 54, scope: !32)
!39 = !DILocation(line: 5, column: 31, scope: !32)
!40 = distinct !{!40, !34, !41, !42}
!41 = !DILocation(line: 5, column: 72, scope: !29)
!42 = !{!"llvm.loop.mustprogress"}
!43 = !DILocation(line: 5, column: 75, scope: !22)
!44 = distinct !DISubprogram(name: "good_loop", scope: !3, file: !3, line: 6, type: !23, scopeLine: 6, flags: DIFlagPrototyped, spFlags: DISPFlagDefinition, unit: !2, retainedNodes: !25)
!45 = !DILocalVariable(name: "ch", scope: !44, file: !3, line: 6, type: !10)
!46 = !DILocation(line: 6, column: 28, scope: !44)
!47 = !DILocation(line: 6, column: 40, scope: !48)
!48 = distinct !DILexicalBlock(scope: !44, file: !3, line: 6, column: 32)
!49 = !DILocation(line: 6, column: 37, scope: !48)
!50 = !DILocation(line: 6, column: 45, scope: !51)
!51 = distinct !DILexicalBlock(scope: !48, file: !3, line: 6, column: 32)
!52 = !DILocation(line: 6, column: 55, scope: !51)
!53 = !DILocation(line: 6, column: 48, scope: !51)
!54 = !DILocation(line: 6, column: 32, scope: !48)
!55 = !DILocation(line: 6, column: 74, scope: !51)
!56 = !DILocation(line: 6, column: 68, scope: !51)
!57 = !DILocation(line: 6, column: 78, scope: !51)
!58 = !DILocation(line: 6, column: 62, scope: !51)
!59 = !DILocation(line: 6, column: 32, scope: !51)
!60 = distinct !{!60, !54, !61, !42}
!61 = !DILocation(line: 6, column: 80, scope: !48)
!62 = !DILocation(line: 6, column: 83, scope: !44)
