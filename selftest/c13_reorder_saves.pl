# behaviour-preserving: in the trailing-context arm of the find-action loop (cpp skeleton) the three saves are moved in front of the
# assignments to yy_looking_for_trail_begin and listed in another order
undef $/; $_ = <STDIN>;
s{(\t\t\t\t\t\tYY_G\(yy_looking_for_trail_begin\) = yy_act & ~YY_TRAILING_MASK;\n\t\t\t\t\t\tYY_G\(yy_looking_for_trail_begin\) \|= YY_TRAILING_HEAD_MASK;\n)(m4_ifdef\(\[\[M4_MODE_REAL_REJECT\]\], \[\[\n)(.*?)(\t\t\t\t\t\tYY_G\(yy_full_match\) = yy_cp;\n)(\t\t\t\t\t\tYY_G\(yy_full_state\) = YY_G\(yy_state_ptr\);\n)(\t\t\t\t\t\tYY_G\(yy_full_lp\) = YY_G\(yy_lp\);\n)(\]\]\)\n)}{$2$3$6$4$5$7$1}s or die "no match";
print;
