/* Positive controls for the C18 rules (compiled to IR at run time, never executed). */
#include <stdio.h>
#include <stdlib.h>
#include <string.h>
#include <stdbool.h>
#include <time.h>
#include <unistd.h>
#include <sys/wait.h>

/* ---------------------------------------------------------------- R1 */
void stamp(FILE *f) { fprintf(f, "/* generated %ld by %d */\n", (long) time(NULL), (int) getpid()); }
int seed(void) { return rand(); }
const char *good_env(void) { return getenv("M4"); }
const char *env_reader(void) { return getenv("HOME"); }
void dump(FILE *f, void *p) { fprintf(f, "table at %p\n", p); }
void good_format(FILE *f, int n) { fprintf(f, "%5d", n); }
void out_dec(const char *fmt, int n) { fprintf(stdout, fmt, n); }
void good_wrapper_use(void) { out_dec("%d, ", 3); }
int child(void)
{
	int pid = fork();
	if (pid == 0) return 0;
	printf("%d\n", pid);
	return 1;
}
int good_child(void)
{
	int pid, st;
	if ((pid = fork()) == -1) return -1;
	if (pid == 0) return 0;
	while (wait(&st) > 0) ;
	return 1;
}
int main(void) { env_reader(); good_env(); return 0; }

/* ---------------------------------------------------------------- R2 */
unsigned long addr_hash(void *p) { return (unsigned long) p % 101; }
long good_diff(char *a, char *b) { return a - b; }
int intcmp(const void *a, const void *b) { return *(const int *) a - *(const int *) b; }
int ptrcmp(const void *a, const void *b) { return *(char *const *) a < *(char *const *) b ? -1 : 1; }
void sorts(int *v, char **w, size_t n) { qsort(v, n, sizeof *v, intcmp); qsort(w, n, sizeof *w, ptrcmp); }

/* ---------------------------------------------------------------- R3 */
struct hash_entry { struct hash_entry *next; char *name; int int_val; };
typedef struct hash_entry **hash_table;
static struct hash_entry *ndtbl[101];
static struct hash_entry *sctbl[101];
static size_t hashfunct(const char *str, size_t hash_size)
{
	size_t h = 0, k = 0;
	while (str[k] != '\0') { h = (h << 1) + (unsigned char) str[k++]; h %= hash_size; }
	return h;
}
static struct hash_entry *findsym(const char *sym, hash_table table, size_t table_size)
{
	struct hash_entry *e = table[hashfunct(sym, table_size)];
	while (e) { if (!strcmp(sym, e->name)) return e; e = e->next; }
	return 0;
}
int ndlookup(const char *nd) { return findsym(nd, ndtbl, 101) != 0; }
char *scname_of(const char *str) { return sctbl[hashfunct(str, 101)]->name; }
void dump_all(FILE *f)					/* control: enumerates the buckets */
{
	int i; struct hash_entry *e;
	for (i = 0; i < 101; i++)
		for (e = ndtbl[i]; e; e = e->next)
			fputs(e->name, f);
}
char *first_bucket(void) { return sctbl[0] ? sctbl[0]->name : 0; }	/* control: fixed bucket */

/* ---------------------------------------------------------------- R4 */
int *nxt, *chk, tblend, jamstate, current_max_xpairs, numecs;
void *allocate_array(int, size_t);
void *reallocate_array(void *, int, size_t);
void mkdata(int);
void good_reader(void)
{
	int i;
	for (i = 1; i <= tblend; ++i) {
		if (chk[i] == 0 || nxt[i] == 0)
			nxt[i] = jamstate;
		mkdata(nxt[i]);
	}
	nxt[tblend + 2] = 0;
	mkdata(nxt[tblend + 2]);
}
void bad_reader(void)					/* control: unguarded read */
{
	int i;
	for (i = 1; i <= tblend; ++i)
		mkdata(nxt[i]);
}
void bad_reader_changed_index(void)			/* control: index changes between test and read */
{
	int i = 1;
	if (chk[i] != 0) {
		i = i + 1;
		mkdata(nxt[i]);
	}
}
void good_writer(int pos, int st, int to) { chk[pos] = st; nxt[pos] = to; }
void bad_marker(int pos) { chk[pos] = 5; }		/* control: chk set without nxt */
void good_expand(void)
{
	int old_max = current_max_xpairs;
	current_max_xpairs += 2000;
	nxt = reallocate_array(nxt, current_max_xpairs, sizeof(int));
	chk = reallocate_array(chk, current_max_xpairs, sizeof(int));
	memset(chk + old_max, 0, 2000 * sizeof(int));
}
void bad_expand(void)					/* control: growth without zero fill */
{
	current_max_xpairs += 2000;
	nxt = reallocate_array(nxt, current_max_xpairs, sizeof(int));
	chk = reallocate_array(chk, current_max_xpairs, sizeof(int));
}

/* ---------------------------------------------------------------- R5 */
struct env_bundle_t { bool backing_up_report; bool nowarn; bool use_stdout; };
struct env_bundle_t env;
void good_stats(void) { if (env.use_stdout) putc('t', stderr); }
void content_depends(void) { if (env.use_stdout) fputs("/* to stdout */\n", stdout); }	/* control */

/* ---------------------------------------------------------------- R6 */
struct ctrl_bundle_t { bool fulltbl; bool fullspd; };
struct ctrl_bundle_t ctrl;
int *base, *dfaacc, *accsiz, *dhash, lastdfa;
void setup(void)
{
	base = allocate_array(100, sizeof(int)); dfaacc = allocate_array(100, sizeof(int));
	accsiz = allocate_array(100, sizeof(int)); dhash = allocate_array(100, sizeof(int));
}
void place(int statenum, int pos) { base[statenum] = pos; }
void build(void)
{
	int i;
	if (ctrl.fullspd) place(0, 7);			/* conforming: slot 0 through a parameter */
	if (ctrl.fulltbl) accsiz[0] = 0;		/* slot 0 only under another option */
	for (i = 1; i <= lastdfa; ++i) { dfaacc[i] = i; dhash[i] = i; }	/* control: dfaacc[0] never stored */
	dhash[0] = 0;
}
void dump_base(void) { int i; for (i = 0; i <= lastdfa; ++i) mkdata(base[i]); }
void dump_hash(void) { mkdata(dhash[0]); }
void dump_acc(void) { int i; for (i = 0; i <= lastdfa; ++i) mkdata(dfaacc[i]); }		/* control */
void dump_wrongopt(void) { int i; for (i = 1; i <= lastdfa + 1; ++i) mkdata(accsiz[i - 1]); }	/* control */
void setup2(void); void build2(void); void make_tables2(void);
void make_tables(void) { if (ctrl.fullspd) { dump_base(); dump_acc(); dump_wrongopt(); } dump_hash(); }
int flex_main(void) { setup(); setup2(); build(); build2(); make_tables(); make_tables2(); return 0; }

/* R6, jam-state slot */
int *def, jamstate, numtemps, jambase;
void setup2(void) { def = allocate_array(100, sizeof(int)); }
void mkdeftbl(void)
{
	jamstate = lastdfa + 1;
	base[jamstate] = jambase;		/* conforming; control: def[jamstate] is not stored */
}
void dump_base_jam(void) { int i; for (i = 1; i <= lastdfa; ++i) mkdata(base[i]); mkdata(base[i]); }
void dump_def(void) { int i, total_states = lastdfa + numtemps; for (i = 1; i <= total_states; ++i) mkdata(def[i]); }	/* control */
void dump_after(void) { int i; for (i = 1; i <= lastdfa; ++i) mkdata(accsiz[i]); mkdata(accsiz[i]); }		/* control */
void build2(void) { int i; for (i = 1; i <= lastdfa; ++i) def[i] = 0; mkdeftbl(); }
void make_tables2(void) { dump_base_jam(); dump_def(); dump_after(); }
int flex_main2(void) { return 0; }

/* ---------------------------------------------------------------- R7 */
union acc_union { int *set; int state; };
union acc_union *acc;
int reject;
void acc_store(int ds, int *list, int rule)
{
	if (reject) acc[ds].set = list;
	else acc[ds].state = rule;
}
int good_union_reader(int ds) { return (reject && !acc[ds].set) || (!reject && !acc[ds].state); }
int good_union_after_store(int ds, int *l) { acc[ds].set = l; return acc[ds].set[0]; }
int bad_union_reader(int ds) { return !acc[ds].set; }		/* control: wide member read in either mode */

/* ---------------------------------------------------------------- R8 */
int cap_items, n_items, *item_a, *item_b, *item_c, *item_d, *item_mode;
void items_setup(void)
{
	cap_items = 100;
	item_a = allocate_array(cap_items, sizeof(int)); item_b = allocate_array(cap_items, sizeof(int));
	item_c = allocate_array(cap_items, sizeof(int)); item_d = allocate_array(cap_items, sizeof(int));
	item_mode = allocate_array(cap_items, sizeof(int));
}
static void init_b(int k) { item_b[k] = 0; }
int new_item(int quick)
{
	int r;
	if (++n_items >= cap_items) {
		cap_items += 100;
		item_a = reallocate_array(item_a, cap_items, sizeof(int)); item_b = reallocate_array(item_b, cap_items, sizeof(int));
		item_c = reallocate_array(item_c, cap_items, sizeof(int)); item_d = reallocate_array(item_d, cap_items, sizeof(int));
		item_mode = reallocate_array(item_mode, cap_items, sizeof(int));
	}
	r = n_items;
	item_a[r] = 0;			/* conforming: through a local copy of the counter */
	init_b(n_items);		/* conforming: through a callee that always stores */
	if (reject) item_mode[n_items] = 1;	/* conforming: read only under reject */
	if (quick) return r;		/* control: item_d is skipped on this path */
	item_d[n_items] = 0;
	return r;			/* control: item_c is never initialised */
}
int use_items(int i) { return item_a[i] + item_b[i] + item_c[i] + item_d[i] + (reject ? item_mode[i] : 0); }

/* ---------------------------------------------------------------- R9 */
void good_local_array(int with_cap)
{
	int i, *acc = allocate_array(lastdfa + 3, sizeof(int));
	if (reject) { for (i = 1; i <= lastdfa; ++i) acc[i] = i; acc[i] = 7; }
	else { for (i = 1; i <= lastdfa; ++i) acc[i] = 0; acc[i] = 0; }
	for (i = 1; i <= lastdfa; ++i) mkdata(acc[i]);
	mkdata(acc[i]);
	if (with_cap) mkdata(acc[i]);
}
void bad_cap(void)					/* control: one past what was written */
{
	int i, *acc = allocate_array(lastdfa + 3, sizeof(int));
	for (i = 1; i <= lastdfa; ++i) acc[i] = i;
	acc[i] = 0;
	for (i = 1; i <= lastdfa; ++i) mkdata(acc[i]);
	mkdata(acc[i + 1]);
}

/* ---------------------------------------------------------------- R10 */
struct aux_like { int flags; int namelen; int printlen; };
struct holder { struct aux_like *items; int n; };
void good_fill(struct holder *h)
{
	int i;
	h->items = malloc((size_t) h->n * sizeof(struct aux_like));
	for (i = 0; i < h->n; i++) {
		struct aux_like *a = h->items + i;
		a->flags = 0;
		a->flags |= 1;			/* conforming: read after the store */
		a->namelen = 0;
		if (a->flags & 1) a->namelen++;
		a->printlen = a->namelen;
	}
}
void bad_fill(struct holder *h)			/* control: |= on a never written field */
{
	int i;
	h->items = malloc((size_t) h->n * sizeof(struct aux_like));
	for (i = 0; i < h->n; i++) {
		struct aux_like *a = h->items + i;
		a->flags |= 1;
		a->namelen = 0;
		a->printlen = 0;
	}
}
int *bad_fill_scalar(int n2)			/* control: ++ on a fresh scalar element */
{
	int i, *v = malloc((size_t) n2 * sizeof(int));
	for (i = 0; i < n2; ++i) v[i]++;
	return v;
}
