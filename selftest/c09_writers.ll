; ModuleID = 'c09_writers.c'
source_filename = "c09_writers.c"
target datalayout = "e-m:e-p270:32:32-p271:32:32-p272:64:64-i64:64-f80:128-n8:16:32:64-S128"
target triple = "x86_64-pc-linux-gnu"

%struct.yy_buffer_state = type { i8*, i32 }

@yylineno = dso_local global i32 1, align 4, !dbg !0

; Function Attrs: noinline nounwind optnone uwtable
define dso_local void @stray_inc(i32 noundef %c) #0 !dbg !14 {
entry:
  %c.addr = alloca i32, align 4
  store i32 %c, i32* %c.addr, align 4
  call void @llvm.dbg.declare(metadata i32* %c.addr, metadata !18, metadata !DIExpression()), !dbg !19
  %0 = load i32, i32* %c.addr, align 4, !dbg !20
  %cmp = icmp eq i32 %0, 10, !dbg !22
  br i1 %cmp, label %if.then, label %if.end, !dbg !23

if.then:                                          ; preds = %entry
  %1 = load i32, i32* @yylineno, align 4, !dbg !24
  %inc = add nsw i32 %1, 1, !dbg !24
  store i32 %inc, i32* @yylineno, align 4, !dbg !24
  br label %if.end, !dbg !25

if.end:                                           ; preds = %if.then, %entry
  ret void, !dbg !26
}

; Function Attrs: nofree nosync nounwind readnone speculatable willreturn
declare void @llvm.dbg.declare(metadata, metadata, metadata) #1

; Function Attrs: noinline nounwind optnone uwtable
define dso_local void @stray_dec() #0 !dbg !27 {
entry:
  %0 = load i32, i32* @yylineno, align 4, !dbg !30
  %dec = add nsw i32 %0, -1, !dbg !30
  store i32 %dec, i32* @yylineno, align 4, !dbg !30
  ret void, !dbg !31
}

; Function Attrs: noinline nounwind optnone uwtable
define dso_local void @stray_set(i32 noundef %n) #0 !dbg !32 {
entry:
  %n.addr = alloca i32, align 4
  store i32 %n, i32* %n.addr, align 4
  call void @llvm.dbg.declare(metadata i32* %n.addr, metadata !33, metadata !DIExpression()), !dbg !34
  %0 = load i32, i32* %n.addr, align 4, !dbg !35
  %add = add nsw i32 %0, 2, !dbg !36
  store i32 %add, i32* @yylineno, align 4, !dbg !37
  ret void, !dbg !38
}

; Function Attrs: noinline nounwind optnone uwtable
define dso_local void @stray_field(%struct.yy_buffer_state* noundef %b) #0 !dbg !39 {
entry:
  %b.addr = alloca %struct.yy_buffer_state*, align 8
  store %struct.yy_buffer_state* %b, %struct.yy_buffer_state** %b.addr, align 8
  call void @llvm.dbg.declare(metadata %struct.yy_buffer_state** %b.addr, metadata !49, metadata !DIExpression()), !dbg !50
  %0 = load %struct.yy_buffer_state*, %struct.yy_buffer_state** %b.addr, align 8, !dbg !51
  %yy_bs_lineno = getelementptr inbounds %struct.yy_buffer_state, %struct.yy_buffer_state* %0, i32 0, i32 1, !dbg !52
  %1 = load i32, i32* %yy_bs_lineno, align 8, !dbg !53
  %inc = add nsw i32 %1, 1, !dbg !53
  store i32 %inc, i32* %yy_bs_lineno, align 8, !dbg !53
  ret void, !dbg !54
}

; Function Attrs: noinline nounwind optnone uwtable
define dso_local void @yyset_lineno(i32 noundef %n) #0 !dbg !55 {
entry:
  %n.addr = alloca i32, align 4
  store i32 %n, i32* %n.addr, align 4
  call void @llvm.dbg.declare(metadata i32* %n.addr, metadata !56, metadata !DIExpression()), !dbg !57
  %0 = load i32, i32* %n.addr, align 4, !dbg !58
  store i32 %0, i32* @yylineno, align 4, !dbg !59
  ret void, !dbg !60
}

; Function Attrs: noinline nounwind optnone uwtable
define dso_local void @yy_init_buffer(%struct.yy_buffer_state* noundef %b) #0 !dbg !61 {
entry:
  %b.addr = alloca %struct.yy_buffer_state*, align 8
  store %struct.yy_buffer_state* %b, %struct.yy_buffer_state** %b.addr, align 8
  call void @llvm.dbg.declare(metadata %struct.yy_buffer_state** %b.addr, metadata !62, metadata !DIExpression()), !dbg !63
  %0 = load %struct.yy_buffer_state*, %struct.yy_buffer_state** %b.addr, align 8, !dbg !64
  %yy_bs_lineno = getelementptr inbounds %struct.yy_buffer_state, %struct.yy_buffer_state* %0, i32 0, i32 1, !dbg !65
  store i32 1, i32* %yy_bs_lineno, align 8, !dbg !66
  ret void, !dbg !67
}

attributes #0 = { noinline nounwind optnone uwtable "frame-pointer"="all" "min-legal-vector-width"="0" "no-trapping-math"="true" "stack-protector-buffer-size"="8" "target-cpu"="x86-64" "target-features"="+cx8,+fxsr,+mmx,+sse,+sse2,+x87" "tune-cpu"="generic" }
attributes #1 = { nofree nosync nounwind readnone speculatable willreturn }

!llvm.dbg.cu = !{!2}
!llvm.module.flags = !{!6, !7, !8, !9, !10, !11, !12}
!llvm.ident = !{!13}

!0 = !DIGlobalVariableExpression(var: !1, expr: !DIExpression())
!1 = distinct !DIGlobalVariable(name: "yylineno", scope: !2, file: !3, line: 7, type: !5, isLocal: false, isDefinition: true)
!2 = distinct !DICompileUnit(language: DW_LANG_C99, file: !3, producer: "Debian clang version 14.0.6", isOptimized: false, runtimeVersion: 0, emissionKind: FullDebug, globals: !4, splitDebugInlining: false, nameTableKind: None)
!3 = !DIFile(filename: "c09_writers.c", directory: ".", checksumkind: CSK_MD5, checksum: "c0e664e819de0daf0e3a620002b375fb")
!4 = !{!0}
!5 = !DIBasicType(name: "int", size: 32, encoding: DW_ATE_signed)
!6 = !{i32 7, !"Dwarf Version", i32 5}
!7 = !{i32 2, !"Debug Info Version", i32 3}
!8 = !{i32 1, !"wchar_size", i32 4}
!9 = !{i32 7, !"PIC Level", i32 2}
!10 = !{i32 7, !"PIE Level", i32 2}
!11 = !{i32 7, !"uwtable", i32 1}
!12 = !{i32 7, !"frame-pointer", i32 2}
!13 = !{!"Debian clang version 14.0.6"}
!14 = distinct !DISubprogram(name: "stray_inc", scope: !3, file: !3, line: 8, type: !15, scopeLine: 8, flags: DIFlagPrototyped, spFlags: DISPFlagDefinition, unit: !2, retainedNodes: !17)
!15 = !DISubroutineType(types: !16)
!16 = !{null, !5}
!17 = !{}
!18 = !DILocalVariable(name: "c", arg: 1, scope: !14, file: !3, line: 8, type: !5)
!19 = !DILocation(line: 8, column: 20, scope: !14)
!20 = !DILocation(line: 8, column: 29, scope: !21)
!21 = distinct !DILexicalBlock(scope: !14, file: !3, line: 8, column: 29)
!22 = !DILocation(line: 8, column: 31, scope: !21)
!23 = !DILocation(line: 8, column: 29, scope: !14)
!24 = !DILocation(line: 8, column: 48, scope: !21)
!25 = !DILocation(line: 8, column: 40, scope: !21)
!26 = !DILocation(line: 8, column: 52, scope: !14)
!27 = distinct !DISubprogram(name: "stray_dec", scope: !3, file: !3, line: 9, type: !28, scopeLine: 9, flags: DIFlagPrototyped, spFlags: DISPFlagDefinition, unit: !2, retainedNodes: !17)
!28 = !DISubroutineType(types: !29)
!29 = !{null}
!30 = !DILocation(line: 9, column: 24, scope: !27)
!31 = !DILocation(line: 9, column: 36, scope: !27)
!32 = distinct !DISubprogram(name: "stray_set", scope: !3, file: !3, line: 10, type: !15, scopeLine: 10, flags: DIFlagPrototyped, spFlags: DISPFlagDefinition, unit: !2, retainedNodes: !17)
!33 = !DILocalVariable(name: "n", arg: 1, scope: !32, file: !3, line: 10, type: !5)
!34 = !DILocation(line: 10, column: 20, scope: !32)
!35 = !DILocation(line: 10, column: 36, scope: !32)
!36 = !DILocation(line: 10, column: 38, scope: !32)
!37 = !DILocation(line: 10, column: 34, scope: !32)
!38 = !DILocation(line: 10, column: 43, scope: !32)
!39 = distinct !DISubprogram(name: "stray_field", scope: !3, file: !3, line: 11, type: !40, scopeLine: 11, flags: DIFlagPrototyped, spFlags: DISPFlagDefinition, unit: !2, retainedNodes: !17)
!40 = !DISubroutineType(types: !41)
!41 = !{null, !42}
!42 = !DIDerivedType(tag: DW_TAG_pointer_type, baseType: !43, size: 64)
!43 = distinct !DICompositeType(tag: DW_TAG_structure_type, name: "yy_buffer_state", file: !3, line: 6, size: 128, elements: !44)
!44 = !{!45, !48}
!45 = !DIDerivedType(tag: DW_TAG_member, name: "yy_ch_buf", scope: !43, file: !3, line: 6, baseType: !46, size: 64)
!46 = !DIDerivedType(tag: DW_TAG_pointer_type, baseType: !47, size: 64)
!47 = !DIBasicType(name: "char", size: 8, encoding: DW_ATE_signed_char)
!48 = !DIDerivedType(tag: DW_TAG_member, name: "yy_bs_lineno", scope: !43, file: !3, line: 6, baseType: !5, size: 32, offset: 64)
!49 = !DILocalVariable(name: "b", arg: 1, scope: !39, file: !3, line: 11, type: !42)
!50 = !DILocation(line: 11, column: 42, scope: !39)
!51 = !DILocation(line: 11, column: 47, scope: !39)
!52 = !DILocation(line: 11, column: 50, scope: !39)
!53 = !DILocation(line: 11, column: 62, scope: !39)
!54 = !DILocation(line: 11, column: 66, scope: !39)
!55 = distinct !DISubprogram(name: "yyset_lineno", scope: !3, file: !3, line: 12, type: !15, scopeLine: 12, flags: DIFlagPrototyped, spFlags: DISPFlagDefinition, unit: !2, retainedNodes: !17)
!56 = !DILocalVariable(name: "n", arg: 1, scope: !55, file: !3, line: 12, type: !5)
!57 = !DILocation(line: 12, column: 23, scope: !55)
!58 = !DILocation(line: 12, column: 39, scope: !55)
!59 = !DILocation(line: 12, column: 37, scope: !55)
!60 = !DILocation(line: 12, column: 42, scope: !55)
!61 = distinct !DISubprogram(name: "yy_init_buffer", scope: !3, file: !3, line: 13, type: !40, scopeLine: 13, flags: DIFlagPrototyped, spFlags: DISPFlagDefinition, unit: !2, retainedNodes: !17)
!62 = !DILocalVariable(name: "b", arg: 1, scope: !61, file: !3, line: 13, type: !42)
!63 = !DILocation(line: 13, column: 45, scope: !61)
!64 = !DILocation(line: 13, column: 50, scope: !61)
!65 = !DILocation(line: 13, column: 53, scope: !61)
!66 = !DILocation(line: 13, column: 66, scope: !61)
!67 = !DILocation(line: 13, column: 71, scope: !61)
