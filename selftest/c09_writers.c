/* Positive control for C09.R3 (who writes the line counter in a scanner generated without %option yylineno).
 * Never compiled into anything and never run: c09_writers.ll is the clang -O0 IR of this file
 * (clang -std=gnu11 -O0 -g -fno-discard-value-names -S -emit-llvm -w c09_writers.c -o c09_writers.ll)
 * and the detector of rules/c09.py must report stray_inc, stray_dec, stray_set and stray_field as writers,
 * and must not report the permitted setters yyset_lineno and yy_init_buffer. */
struct yy_buffer_state { char *yy_ch_buf; int yy_bs_lineno; };
int yylineno = 1;
void stray_inc(int c) { if (c == '\n') yylineno++; }
void stray_dec(void) { --yylineno; }
void stray_set(int n) { yylineno = n + 2; }
void stray_field(struct yy_buffer_state *b) { b->yy_bs_lineno++; }
void yyset_lineno(int n) { yylineno = n; }
void yy_init_buffer(struct yy_buffer_state *b) { b->yy_bs_lineno = 1; }
