"""C08 - yymore / yyless / yyunput / yyinput: the hold-character protocol and bounded push-back.

yytext is NUL-terminated by overwriting one byte of the buffer; the byte is kept in yy_hold_char.
  restore = store, through a pointer into the buffer, of the value loaded from yy_hold_char
  take    = store to yy_hold_char of a byte loaded through a pointer into the buffer, or a call of a function that
            does so on every path and never restores (yy_load_buffer_state, yy_do_before_action, yyrestart)
Pointers into the buffer are found by taint from yy_c_buf_p / yytext_ptr / yy_ch_buf (c03.FnAnalysis), not by name.

R1(a) yylex (must-pass-through, no joins):
     a1  no byte of the buffer is read between the head of the scan loop and the first restore;
     a2  every path from the entry of the end-of-buffer arm to yy_get_next_buffer / yy_get_previous_state /
         yy_try_NUL_trans passes a restore;
     a3  every path from the head of the scan loop to the action switch passes a take (or yy_get_next_buffer: the
         end-of-file arm jumps to the <<EOF>> actions with yytext set up by yy_get_next_buffer);
     a4  after every restore (loop head, back-up arm, REJECT, trailing context, yyless, end-of-buffer arm) a take
         follows before control reaches the action switch, a return or the next iteration;
     a5  between two takes there is a restore.
R1(b) entry points that edit a buffer whose text stays live (yyunput, yyinput, the yyless function of the c99/go back
     ends, yy_switch_to_buffer, yypush_buffer_state): a restore dominates every other access to buffer bytes and every
     store of the saved position (yy_buf_pos); every path from a restore to a return that does not go through
     yy_get_next_buffer / yyrestart passes a take.
      The section-3 definition of yyless of the cpp skeleton is checked where the probes expand it (a helper in section 3):
     any function outside the skeleton that contains the restore shape is treated as such an expansion (yyless-section3).
R1(d) every take reads the byte it saves in yy_hold_char before the NUL terminator is stored at that position.
R1(c) functions that discard the text (yypop_buffer_state, yy_flush_buffer, yyrestart) take on every path to the
     return except on the edges that say "no current buffer" / "not the current buffer".
     a6  inside the actions a restore writes through the pointer local as the take left it (no assignment of the local
         between the dispatch of the action switch and the restore).
R4   after yy_get_next_buffer() every arm of yylex / yyinput that does not mean end-of-file re-positions yy_c_buf_p or calls
     yyrestart() before the function returns or recurses.
R5   yymore: every pointer local the matcher derives from yytext_ptr adds yy_more_len.
R6   yymore: every comparison of a length measured from yytext_ptr (yy_c_buf_p - yytext_ptr ...) accounts for yy_more_len.
R7   yymore: a scan position computed from the token start or from yytext_ptr counts yy_more_len exactly once when the offset is a
     generator constant (bytes of the current run) and not at all when it is a run-time offset measured from yytext (yyless).
R8   yyinput: the offset saved before yy_get_next_buffer() is that of the end-of-buffer byte (each character returned once).
R2   push-back is bounded: in yyunput the store of the pushed-back character is dominated by the low-water test
     `yy_cp < yy_ch_buf + 2`; the below edge of the test shifts the text and reaches the store only through a second
     test whose below edge is fatal.
"""
import ir, flow, variants
from common import where, fwhere
import c03, c04
from c03 import Scanner, skel, norm, fn_role, cell_role, first_ins, witness, outermost_loop_header

# ---------------------------------------------------------------- R1(a)

def lex_anchors(ctx, sc, lex):
    """(cfg, head block of the scan loop, action switch, entry block of the end-of-buffer arm, GNB calls)"""
    rep = ctx.rep; v = sc.v
    cfg = sc.prog.cfg(lex)
    gnb = sc.calls(lex, 'GNB')
    if not gnb: rep.broken('%s: %s does not call yy_get_next_buffer' % (v.name, lex.name))
    hdr = outermost_loop_header(cfg, gnb[0].blk)
    if hdr is None: rep.broken('%s: the call of yy_get_next_buffer in %s is not inside a loop' % (v.name, lex.name))
    best = None
    for x in lex.ins:
        if x.op != 'switch' or not cfg.dominates(x.blk, gnb[0].blk) or x.blk is gnb[0].blk: continue
        arms = [lex.bmap[l] for c, l in x.cases if cfg.dominates(lex.bmap[l], gnb[0].blk)]
        if not arms: continue
        # the action switch is the outermost such switch (the switch on yy_get_next_buffer's result sits inside its arm)
        if best is None or cfg.dominates(x.blk, best[0].blk): best = (x, arms[0])
    if best is None: rep.broken('%s: action switch of %s not found' % (v.name, lex.name))
    return cfg, hdr, best[0], best[1], gnb

def r1a(ctx, sc, lex):
    rep = ctx.rep; v = sc.v; n = 0
    a = sc.fa(lex)
    cfg, hdr, sw, eob, gnb = lex_anchors(ctx, sc, lex)
    R = sc.restore_sites(lex); T = sc.take_sites(lex)
    if not R or not T:
        rep.broken('%s: no restore (%d) / take (%d) shape found in %s' % (v.name, len(R), len(T), lex.name))
    h0 = first_ins(hdr)
    k0 = 'C08.R1:%s:yylex:' % skel(v)
    # a1
    n += 1
    r = cfg.reach(h0, avoid=R, include_start=True)
    bad = [x for x in a.byte_loads() if x in r] + [x for x in sc.calls(lex, 'GNB', 'GPS', 'NUL') if x in r]
    if bad:
        rep.fail('C08.R1', k0 + 'restore-at-loop-head', where(bad[0]), 'the scan loop reads the buffer (line %s) before the hold character has been put back: the match would see the NUL that terminates the previous yytext [variant %s]' % (bad[0].line, v.name),
                 witness=witness(cfg, h0, bad[0], avoid=R, include_start=True), variant=v.describe())
    else:
        rep.ok('C08.R1', '%s yylex a1: loop head@%s restores (@%s) before any buffer byte is read' % (v.name, h0.line, min(x.line or 0 for x in R if x in cfg.reach(h0, include_start=True)) ))
    # a2
    n += 1
    r = cfg.reach(first_ins(eob), avoid=R, include_start=True)
    bad = [x for x in sc.calls(lex, 'GNB', 'GPS', 'NUL') if x in r]
    if bad:
        rep.fail('C08.R1', k0 + 'restore-in-end-of-buffer-arm', where(bad[0]), 'the end-of-buffer arm calls %s without having put the hold character back: the text is moved / re-scanned with a NUL in it [variant %s]' % (norm(sc.callee(bad[0])), v.name),
                 witness=witness(cfg, first_ins(eob), bad[0], avoid=R, include_start=True), variant=v.describe())
    else:
        rep.ok('C08.R1', '%s yylex a2: end-of-buffer arm@%s restores before yy_get_next_buffer/yy_get_previous_state/yy_try_NUL_trans' % (v.name, first_ins(eob).line))
    # a3
    n += 1
    r = cfg.reach(h0, avoid=T + gnb, include_start=True)
    if sw in r:
        rep.fail('C08.R1', k0 + 'take-before-actions', where(sw), 'the action switch can be reached from the head of the scan loop without YY_DO_BEFORE_ACTION (yy_hold_char not saved, yytext not terminated) [variant %s]' % v.name,
                 witness=witness(cfg, h0, sw, avoid=T + gnb, include_start=True), variant=v.describe())
    else:
        rep.ok('C08.R1', '%s yylex a3: every path loop head -> action switch@%s passes a take (%d take sites)' % (v.name, sw.line, len(T)))
    # a4
    for x in R:
        n += 1
        r = cfg.reach(x, avoid=T + gnb)
        bad = [y for y in r if y is sw or y.op == 'ret' or y is h0]
        ordn = _ordinal(lex, x, R)
        if bad:
            rep.fail('C08.R1', k0 + 'take-after-restore#%s' % _site(sc, lex, x, sw, eob, hdr), where(x),
                     'after the hold character is put back at line %s control reaches %s without a new take: yy_hold_char is stale and the next restore corrupts the text [variant %s]' % (
                         x.line, 'the action switch' if bad[0] is sw else 'a return' if bad[0].op == 'ret' else 'the next iteration', v.name),
                     witness=witness(cfg, x, bad[0], avoid=T + gnb), variant=v.describe())
        else:
            rep.ok('C08.R1', '%s yylex a4: restore@%s is followed by a take on every path' % (v.name, x.line))
    # a5
    for t in T:
        n += 1
        r = cfg.reach(t, avoid=R)
        bad = [y for y in T if y in r]
        if bad:
            rep.fail('C08.R1', k0 + 'restore-between-takes#%s' % _site(sc, lex, bad[0], sw, eob, hdr), where(bad[0]),
                     'the take at line %s can follow the take at line %s without a restore in between: yy_hold_char is overwritten with the terminating NUL [variant %s]' % (bad[0].line, t.line, v.name),
                     witness=witness(cfg, t, bad[0], avoid=R), variant=v.describe())
        else:
            rep.ok('C08.R1', '%s yylex a5: take@%s is followed by a restore before any other take' % (v.name, t.line))
    # a6: inside the actions a restore writes through the pointer local as it was when the take terminated yytext:
    #     no assignment of that local between the dispatch of the action switch and the restore (unless a new take follows it)
    av = T + [h0]
    from_sw = cfg.reach(sw, avoid=av)
    for x in a.restores():
        if not cfg.dominates(sw.blk, x.blk) or x.blk is sw.blk: continue
        d = lex.def_of(x.ops[1])
        L = None
        if d is not None and d.op == 'load':
            l = a.loc(d.ops[0])
            if l[0] == 'local': L = l[1]
        if L is None: continue
        n += 1
        bad = None
        for st in a.local_stores(L):
            if st in from_sw and x in cfg.reach(st, avoid=av): bad = st; break
        if bad is not None:
            rep.fail('C08.R1', k0 + 'restore-through-moved-pointer#%s' % _site(sc, lex, x, sw, eob, hdr), where(x),
                     'the restore at line %s writes yy_hold_char through the local %s after it was re-assigned at line %s: the NUL that terminates yytext stays in the buffer and the hold character lands on another byte [variant %s]' % (x.line, L, bad.line, v.name),
                     witness=witness(cfg, bad, x, avoid=av), variant=v.describe())
        else:
            rep.ok('C08.R1', '%s yylex a6: restore@%s goes through %s as the take left it' % (v.name, x.line, L))
    return n

def _ordinal(fn, x, xs):
    return sum(1 for y in xs if (fn.blocks.index(y.blk), y.idx) < (fn.blocks.index(x.blk), x.idx))

def _site(sc, lex, x, sw, eob, hdr):
    """stable name of a restore/take site in yylex: where it sits relative to the anchors (no line numbers)"""
    cfg = sc.prog.cfg(lex)
    if x.op in ('call', 'invoke'): return 'call-' + norm(sc.callee(x) or '?')
    if cfg.dominates(eob, x.blk): return 'end-of-buffer-arm'
    if not cfg.dominates(sw.blk, x.blk) or x.blk is sw.blk: return 'before-action-switch'
    return 'in-an-action'

# ---------------------------------------------------------------- R1(b)

EDITORS = (('UNPUT', 'yyunput'), ('INPUT', 'yyinput'), ('LESS', 'yyless'), ('SWITCH', 'yy_switch_to_buffer'), ('PUSH', 'yypush_buffer_state'))

def user_expansions(sc):
    """functions that are not part of the skeleton (no role) and write yy_hold_char or yy_c_buf_p: user code of section 3
    into which the second definition of yyless (cpp skeleton, "works in section 3 code") has been expanded"""
    k = id(sc)
    if k not in _ux:
        out = []
        for f in sc.mod.functions.values():
            # the skeleton's own functions are yy* (any prefix is mapped back to yy) or members of the C++ lexer class
            if fn_role(f.name) is not None or not f.blocks or norm(f.name).startswith('yy') or f.name.startswith('_Z'): continue
            a = sc.fa(f)
            if a.cell_stores('HOLD') or a.cell_stores('CBUFP'): out.append(f)
        _ux.clear(); _ux[k] = out
    return _ux[k]
_ux = {}

def r1b(ctx, sc):
    rep = ctx.rep; v = sc.v; n = 0
    s3 = user_expansions(sc)
    if not s3 and v.backend in ('nr', 'r') and 's3less' in v.feats:
        rep.broken('%s: the probe has a section-3 helper that calls yyless() but no function outside the skeleton writes yy_hold_char / yy_c_buf_p' % v.name)
    for role, nm in EDITORS + (('S3', 'yyless-section3'),):
        fns = s3 if role == 'S3' else sc.fns(role)
        if not fns:
            if role == 'S3':
                c03.vac(rep, v, 'C08.R1b: no section-3 expansion of yyless in this variant (%s)' % ('yyless is a function in the c99/go skeletons' if v.backend in ('c99', 'go') else 'C++ back end / probe without the section-3 helper'))
            else:
                c03.vac(rep, v, 'C08.R1b: no %s function in this variant (%s)' % (nm, 'yyless is a macro in the cpp skeleton; its in-action expansion is covered by a4, its section-3 expansion by yyless-section3' if role == 'LESS' else 'disabled by a noyy* option'))
            continue
        for fn in fns:
            a = sc.fa(fn); cfg = sc.prog.cfg(fn)
            R = sc.restore_sites(fn); T = sc.take_sites(fn)
            k0 = 'C08.R1:%s:%s:' % (skel(v), nm)
            n += 1
            if not R:
                n += 1
                # the key says whether yytext is an array: there the restore goes into the copy (D38), which must not mask
                # a missing restore in a %pointer scanner
                arr = ':yytext-is-array' if 'M4_MODE_YYTEXT_IS_ARRAY' in variants.mode_symbols(v) else ''
                rep.fail('C08.R1', k0 + 'restore' + arr, fwhere(fn), '%s edits the buffer but never puts the hold character back [variant %s]' % (nm, v.name), variant=v.describe())
                continue
            # b1: a restore dominates every other byte access and every store of the saved position
            #     (reads of the token text itself - addresses derived from yytext_ptr only, e.g. the yylineno loop of yyless -
            #     are what the terminator is for and are not constrained)
            acc = [x for x in a.byte_loads() if a.ptr_cells(x.ops[0]) != {'TEXT'}] + [x for x in a.byte_stores() if x not in R] + a.cell_stores('BUFPOS')
            bad = [x for x in acc if not any(cfg.ins_dominates(r_, x) and r_ is not x for r_ in R)]
            if bad:
                bad.sort(key=lambda x: (fn.blocks.index(x.blk), x.idx))
                rep.fail('C08.R1', k0 + 'restore-first', where(bad[0]), '%s accesses the buffer%s at line %s before the hold character has been put back [variant %s]' % (
                    nm, ' / saves the position' if bad[0] in a.cell_stores('BUFPOS') else '', bad[0].line, v.name), variant=v.describe())
            else:
                rep.ok('C08.R1', '%s %s b1: restore@%s dominates %d buffer accesses / position saves' % (v.name, fn.name, R[0].line, len(acc)))
            # b2: every path from a restore to a return passes a take, unless it goes through yy_get_next_buffer / yyrestart
            n += 1
            av = T + sc.calls(fn, 'GNB', 'RESTART')
            bad = None
            for r_ in R:
                rr = cfg.reach(r_, avoid=av)
                rets = [x for x in rr if x.op == 'ret']
                if rets: bad = (r_, rets[0]); break
            if bad:
                rep.fail('C08.R1', k0 + 'take-before-return', where(bad[0]), '%s can return after putting the hold character back (line %s) without taking it again: yytext loses its terminator and yy_hold_char is stale [variant %s]' % (nm, bad[0].line, v.name),
                         witness=witness(cfg, bad[0], bad[1], avoid=av), variant=v.describe())
            else:
                rep.ok('C08.R1', '%s %s b2: every return after the restore passes a take (%s)' % (v.name, fn.name, ','.join(str(t.line) for t in T)))
    return n

# ---------------------------------------------------------------- R1(d)

def r1d(ctx, sc):
    """every take reads the byte it saves in yy_hold_char before the NUL terminator is written to that position: on no
    path does a store of the constant 0 through a pointer reach the load that feeds yy_hold_char through the same pointer
    (same root cell/local, same constant offset) unless the pointer is re-assigned or the byte is restored in between.
    Otherwise the hold character is the terminator itself and the next restore writes a NUL into the text."""
    rep = ctx.rep; v = sc.v; n = 0
    s3 = {f.name for f in user_expansions(sc)}
    for fn in sc.mod.functions.values():
        if not fn.blocks: continue
        a = sc.fa(fn)
        takes = a.takes()
        if not takes: continue
        cfg = sc.prog.cfg(fn)
        zeros = []
        for z in a.byte_stores():
            if z.ops[0] == ('int', 0):
                root, off = a.ptr_root(z.ops[1])
                if root is not None: zeros.append((z, root, off))
        rest = a.restores()
        nm = 'yyless-section3' if fn.name in s3 else norm(fn.name)
        for t in takes:
            ld = fn.def_of(t.ops[0])
            root, off = a.ptr_root(ld.ops[0])
            n += 1
            key = 'C08.R1:%s:%s:hold-char-read-before-terminator' % (skel(v), nm)
            if root is None:
                rep.ok('C08.R1', '%s %s d: take@%s reads through a computed position (no terminator through the same pointer)' % (v.name, fn.name, t.line))
                continue
            if root[0] == 'local': kills = a.local_stores(root[1])
            else: kills = a.cell_stores(root[1])
            kills = kills + [r_ for r_ in rest if a.ptr_root(r_.ops[1])[0] == root]
            bad = None
            for z, zr, zo in zeros:
                if zr != root or zo != off: continue
                if ld in cfg.reach(z, avoid=kills): bad = z; break
            if bad is not None:
                rep.fail('C08.R1', key, where(t), '%s%s stores the NUL terminator (line %s) before it reads the byte at the same position into yy_hold_char (line %s): the hold character is always NUL and the next scan puts a NUL into the text [variant %s]' % (
                    nm, ' (expanded in %s)' % fn.name if fn.name in s3 else '', bad.line, t.line, v.name),
                    witness=witness(cfg, bad, ld, avoid=kills), variant=v.describe())
            else:
                rep.ok('C08.R1', '%s %s d: take@%s reads the byte before any terminator is stored there' % (v.name, fn.name, t.line))
    return n

# ---------------------------------------------------------------- R1(c)

DISCARDERS = (('POP', 'yypop_buffer_state'), ('FLUSH', 'yy_flush_buffer'), ('RESTART', 'yyrestart'))
# exception table for R1(c): one symbol per entry (matched on the end of the mangled name, the class name carries the prefix)
R1C_EXCEPT = {}       # (the C++ overload yyrestart(std::istream*) used to be here; virtual calls are now resolved through the vtable)

def about_current_buffer(sc, fn, br):
    """the branch condition inspects the current buffer (yy_buffer_stack / yy_current_buffer())"""
    a = sc.fa(fn)
    if not br.ops: return False
    for d in flow.value_slice(fn, br.ops[0]):
        if d.op == 'load':
            l = a.loc(d.ops[0])
            while l and l[0] in ('elem', 'deref', 'field'):
                if cell_role(l) == 'BUFSTACK': return True
                l = l[1] if l[0] != 'field' else l[3]
            if l and cell_role(l) == 'BUFSTACK': return True
        if d.op in ('call', 'invoke') and fn_role(d.callee) == 'CURBUF': return True
    return False

def r1c(ctx, sc):
    rep = ctx.rep; v = sc.v; n = 0
    for role, nm in DISCARDERS:
        for fn in sc.fns(role):
            a = sc.fa(fn); cfg = sc.prog.cfg(fn)
            T = sc.take_sites(fn)
            ex = [why for suf, why in R1C_EXCEPT.items() if fn.name.endswith(suf)]
            if ex:
                c03.vac(rep, v, 'C08.R1c: %s excepted - %s' % (norm(fn.name), ex[0]))
                continue
            n += 1
            key = 'C08.R1:%s:%s:take-when-current-buffer-remains' % (skel(v), nm)
            if not T:
                rep.fail('C08.R1', key, fwhere(fn), '%s discards the text of the current buffer but never sets up yy_hold_char / yy_c_buf_p again (no yy_load_buffer_state) [variant %s]' % (nm, v.name), variant=v.describe())
                continue
            tb = {t.blk for t in T}
            allowed = set()
            for b in fn.blocks:
                br = b.ins[-1]
                if br.op != 'br' or not br.ops or len(cfg.succ[b]) != 2: continue
                bn = flow.branch_on_null(fn, br)
                isnull = False
                if bn is not None:      # null test of a parameter (yy_flush_buffer(NULL) is a no-op)
                    d = fn.def_of(flow.strip_casts(fn, bn[0]))
                    isnull = d is not None and d.op == 'load' and a.loc(d.ops[0])[0] == 'local' and a.loc(d.ops[0])[1].endswith('.addr')
                if not (about_current_buffer(sc, fn, br) or isnull): continue
                for t in cfg.succ[b]:
                    # the edge that leads away from the take for good (no take can follow)
                    if not any(x in T for x in cfg.reach_from_block(t)): allowed.add((b, t))
            rr = cfg.reach(first_ins(fn.entry), avoid=T, include_start=True, edge_filter=lambda b, t: (b, t) not in allowed)
            rets = [x for x in rr if x.op == 'ret']
            if rets:
                rep.fail('C08.R1', key, where(rets[0]), '%s can return without yy_load_buffer_state although a current buffer remains [variant %s]' % (nm, v.name),
                         witness=witness(cfg, first_ins(fn.entry), rets[0], avoid=T, include_start=True), variant=v.describe())
            else:
                rep.ok('C08.R1', '%s %s c: take@%s on every path to return except %d no-current-buffer edge(s)' % (v.name, fn.name, T[0].line, len(allowed)))
    return n

# ---------------------------------------------------------------- R2

def r2(ctx, sc):
    rep = ctx.rep; v = sc.v; n = 0
    for fn in sc.fns('UNPUT'):
        a = sc.fa(fn); cfg = sc.prog.cfg(fn)
        k0 = 'C08.R2:%s:yyunput:' % skel(v)
        p0 = fn.params[0][1] if fn.params and fn.params[0][1] not in ('this',) else None
        if fn.params and fn.params[0][1] == 'this': p0 = fn.params[1][1]
        # the push-back store: a byte derived from the character parameter stored through a pointer into the buffer
        S = []
        for x in a.byte_stores():
            val = flow.int_origin(fn, x.ops[0])
            d = fn.def_of(val)
            if d is not None and d.op == 'load' and a.loc(d.ops[0]) == ('local', p0 + '.addr'): S.append(x)
        n += 1
        if not S:
            rep.broken('%s: the store of the pushed-back character was not found in %s' % (v.name, fn.name))
        # low-water tests
        LW = []      # (branch, below-successor)
        for b in fn.blocks:
            br = b.ins[-1]
            if br.op != 'br' or not br.ops or len(br.targets) != 2: continue
            d = fn.def_of(br.ops[0])
            if d is None or d.op != 'icmp': continue
            x, y = d.ops
            def lim(val):
                g = c04.gep_parts(sc, fn, val)
                return bool(g) and g[1] == 'CHBUF' and g[2] is None and g[3] == 2
            if d.pred in ('ult', 'ule') and a.is_buf_ptr(x) and lim(y): LW.append((br, fn.bmap[br.targets[0]]))
            elif d.pred in ('ugt', 'uge') and a.is_buf_ptr(y) and lim(x): LW.append((br, fn.bmap[br.targets[0]]))
            elif d.pred in ('uge', 'ugt') and a.is_buf_ptr(x) and lim(y): LW.append((br, fn.bmap[br.targets[1]]))
        lwb = [t[0] for t in LW]
        s0 = S[0]
        if not any(cfg.ins_dominates(br, s0) for br in lwb):
            rep.fail('C08.R2', k0 + 'low-water-test', where(s0), 'the push-back store in yyunput is not dominated by the test `yy_cp < yy_ch_buf + 2`: pushing back at the start of the buffer writes before it [variant %s]' % v.name, variant=v.describe())
            continue
        bad = None
        for br, below in LW:
            rr = cfg.reach_from_block(below, avoid=lwb)
            if s0 in rr: bad = (br, below); break
        shifts = [br for br, below in LW if any(m in cfg.reach_from_block(below, avoid=lwb) for m in a.move_events())]
        # the extent of the shift is computed from the scanner's live count (the register yy_get_next_buffer maintains and
        # the sentinels are placed by), not from the copy saved in the buffer object
        stale = None
        for L in a.locals:
            for st in a.local_stores(L):
                g = c04.gep_parts(sc, fn, st.ops[0])
                if g and g[1] == 'CHBUF' and isinstance(g[2], tuple) and cell_role(g[2]) == 'NCHARS' and c04.saved_in_buffer(g[2]): stale = st
        # the destination end of the shift is the end of the allocation, &yy_ch_buf[yy_buf_size + 2]: the block holds
        # yy_buf_size + 2 bytes (C13.R6) and the shift sets yy_n_chars = yy_buf_size, so the two sentinels that are moved with the
        # text must land at [yy_buf_size] and [yy_buf_size + 1]
        dest_bad = None; dests = 0
        for L in a.locals:
            for st in a.local_stores(L):
                g = c04.gep_parts(sc, fn, st.ops[0])
                if g and g[1] == 'CHBUF' and isinstance(g[2], tuple) and cell_role(g[2]) == 'BUFSIZE':
                    dests += 1
                    if g[3] != 2: dest_bad = (st, g[3])
        if shifts and not bad and stale is None and dest_bad is not None:
            rep.fail('C08.R2', k0 + 'shift-destination-not-end-of-allocation', where(dest_bad[0]), 'in yyunput the text is shifted up to &yy_ch_buf[yy_buf_size + %d] instead of &yy_ch_buf[yy_buf_size + 2]: '
                     'yy_n_chars becomes yy_buf_size, so the end-of-buffer sentinels moved with the text no longer sit at yy_ch_buf[yy_n_chars] and [yy_n_chars + 1] - the scanner reads a NUL that is '
                     'not in the input (or runs past the sentinels) [variant %s]' % (dest_bad[1], v.name), variant=v.describe())
            continue
        if shifts and not bad and stale is None and not dests:
            rep.broken('%s: the destination of the shift in %s (a pointer &yy_ch_buf[yy_buf_size + k]) was not found' % (v.name, fn.name))
        if bad:
            rep.fail('C08.R2', k0 + 'overflow-is-fatal', where(bad[0]), 'in yyunput the below-low-water edge of the test at line %s reaches the push-back store without a second test whose failure is fatal [variant %s]' % (bad[0].line, v.name),
                     witness=witness(cfg, first_ins(bad[1]), s0, avoid=lwb, include_start=True), variant=v.describe())
        elif stale is not None:
            rep.fail('C08.R2', k0 + 'shift-extent-from-register', where(stale), 'in yyunput the shift is bounded by &yy_ch_buf[<buffer object>->yy_n_chars ...]: the saved copy is stale after a refill, so text (or the sentinels) read since then is not moved [variant %s]' % v.name, variant=v.describe())
        elif not shifts:
            rep.fail('C08.R2', k0 + 'shift', where(lwb[0]), 'in yyunput no low-water edge shifts the text up to make room [variant %s]' % v.name, variant=v.describe())
        else:
            rep.ok('C08.R2', '%s %s: push-back store@%s dominated by low-water test@%s; below edge shifts and re-tests (%d tests), overflow is fatal' % (v.name, fn.name, s0.line, lwb[0].line, len(LW)))
    return n

# ---------------------------------------------------------------- R4

def r4(ctx, sc, lex):
    """after yy_get_next_buffer() has moved the text, the arms that do not mean end-of-file must either re-position
    yy_c_buf_p (go on scanning) or reset the buffer with yyrestart() (yyinput's LAST_MATCH arm: the buffer is in state
    EOF_PENDING) before the function returns or recurses; otherwise the next scan finds yy_c_buf_p past the sentinels."""
    rep = ctx.rep; v = sc.v; n = 0
    gnb = sc.fn('GNB')
    consts, eof = c03.eof_code(sc, lex, gnb)
    if len(eof) != 1: rep.broken('%s: end-of-file code of yy_get_next_buffer not identified' % v.name)
    for role in ('LEX', 'INPUT'):
        for fn in ([lex] if role == 'LEX' else sc.fns(role)):
            a = sc.fa(fn); cfg = sc.prog.cfg(fn)
            for call in sc.calls(fn, 'GNB'):
                sw, arms = c03.gnb_arms(sc, fn, call, eof)
                if sw is None: rep.broken('%s: the result of yy_get_next_buffer() in %s does not feed a switch' % (v.name, fn.name))
                kills = a.cell_stores('CBUFP') + sc.calls(fn, 'RESTART')
                stops = [x for x in fn.ins if x.op == 'ret'] + [c for c in sc.calls(fn, 'INPUT', 'LEX')]
                for c in sorted(consts):
                    if c in eof or c not in arms: continue
                    n += 1
                    r = cfg.reach(first_ins(arms[c]), avoid=kills, include_start=True)
                    bad = [x for x in stops if x in r]
                    key = 'C08.R4:%s:%s:refill-arm-%d:resume-or-reset' % (skel(v), norm(fn.name), c)
                    if bad:
                        rep.fail('C08.R4', key, where(first_ins(arms[c])), 'after yy_get_next_buffer() returned %d, %s can %s without re-positioning yy_c_buf_p or resetting the buffer with yyrestart(): the next scan starts past the end-of-buffer sentinels [variant %s]' % (
                            c, norm(fn.name), 'return' if bad[0].op == 'ret' else 'call itself', v.name),
                            witness=witness(cfg, first_ins(arms[c]), bad[0], avoid=kills, include_start=True), variant=v.describe())
                    else:
                        rep.ok('C08.R4', '%s %s arm %d of switch(yy_get_next_buffer())@%s re-positions yy_c_buf_p or calls yyrestart before leaving' % (v.name, fn.name, c, sw.line))
    return n

# ---------------------------------------------------------------- R5

def r5(ctx, sc, lex):
    """yymore (pointer yytext): yytext_ptr points at the start of yytext including the text kept by yymore(); the run
    the DFA is working on starts yy_more_len bytes later.  So wherever the matcher (yylex, yy_get_previous_state)
    derives a pointer local from yytext_ptr it adds yy_more_len (YY_MORE_ADJ)."""
    rep = ctx.rep; v = sc.v; n = 0
    la = sc.fa(lex)
    if not la.cell_loads('MORELEN'):
        c03.vac(rep, v, 'C08.R5: the scanner has no yy_more_len (no yymore(), or %array where yy_more_offset is used)')
        return 0
    cfg, hdr_, sw_, eob_, gnb_ = lex_anchors(ctx, sc, lex)
    anch = (sw_, eob_, hdr_)
    for fn, nm in ((lex, 'yylex'), (sc.fn('GPS'), 'yy_get_previous_state')):
        if fn is None: continue
        a = sc.fa(fn)
        arms = []
        if fn is lex:
            for call in sc.calls(lex, 'GNB'):
                sw, am = c03.gnb_arms(sc, lex, call, None)
                arms += list(am.items())
        ts = token_start_locals(sc, lex) if fn is lex else ()
        spl = c04.scan_position_locals(sc, lex) if fn is lex else set()
        for L in sorted(a.locals):
            if L in spl: continue          # scan positions: R7 does the exact accounting (yyless measures from yytext)
            for st in a.local_stores(L):
                sl = flow.value_slice(fn, st.ops[0])
                roles = {cell_role(a.loc(d.ops[0])) for d in sl if d.op == 'load'}
                if 'TEXT' not in roles: continue
                n += 1
                site = 'scan-start'
                if fn is lex:
                    site = _site(sc, lex, st, *anch)
                    for c, blk in arms:
                        if cfg.dominates(blk, st.blk): site = 'refill-arm-%d' % c
                key = 'C08.R5:%s:%s:run-start-from-yytext_ptr#%s' % (skel(v), nm, site)
                try:
                    base, m, const, runtime = linear_position(sc, fn, st.ops[0], ts)
                except _NotLinear:
                    base = None
                good = base == 'TEXT' and m == 1 and const == 0 and not runtime
                if good:
                    rep.ok('C08.R5', '%s %s: %s = yytext_ptr + yy_more_len @%s' % (v.name, nm, L, st.line))
                else:
                    how = 'not as yytext_ptr + yy_more_len' if base != 'TEXT' else 'as yytext_ptr %+d*yy_more_len%s%s' % (m, ' %+d' % const if const else '', ' + a run-time offset' if runtime else '')
                    rep.fail('C08.R5', key, where(st), '%s derives the local %s (start of the run) from yytext_ptr %s; the run starts exactly yy_more_len (YY_MORE_ADJ) bytes after yytext_ptr: after yymore() it would start inside the kept text [variant %s]' % (nm, L, how, v.name), variant=v.describe())
    return n

# ---------------------------------------------------------------- R6

def r6(ctx, sc, lex):
    """yymore (pointer yytext): a length measured from yytext_ptr includes the text kept by yymore().  Wherever such a
    length (a pointer difference against yytext_ptr) is compared - "did we match only the end-of-buffer character?" in
    yy_get_next_buffer - the compared quantity accounts for yy_more_len: the value slice of the comparison that contains
    loads of both a scan pointer and yytext_ptr also contains a load of yy_more_len.  (Differences that are only stored -
    number_to_move, yyleng, the offset of yyinput, yy_more_len itself - deliberately keep the prefix.)"""
    rep = ctx.rep; v = sc.v; n = 0
    if not sc.fa(lex).cell_loads('MORELEN'):
        c03.vac(rep, v, 'C08.R6: the scanner has no yy_more_len (no yymore(), or %array where yy_more_offset is used)')
        return 0
    for fn in sc.mod.functions.values():
        a = None
        for x in fn.ins:
            if x.op != 'icmp' or x.ty is None or x.ty.k != 'int': continue
            sl = flow.value_slice(fn, x.ops[0]) + flow.value_slice(fn, x.ops[1])
            if not any(d.op == 'ptrtoint' for d in sl): continue
            if a is None: a = sc.fa(fn)
            roles = set()
            for d in sl:
                if d.op != 'load': continue
                l = a.loc(d.ops[0])
                if l[0] == 'local': roles.add('PTR' if l[1] in a.locals else None)
                else: roles.add(cell_role(l))
            if 'TEXT' not in roles or not ({'CBUFP', 'PTR'} & roles): continue
            n += 1
            key = 'C08.R6:%s:%s:length-from-yytext_ptr-compared' % (skel(v), norm(fn.name))
            if 'MORELEN' in roles:
                rep.ok('C08.R6', '%s %s: comparison@%s of a length measured from yytext_ptr accounts for yy_more_len' % (v.name, norm(fn.name), x.line))
            else:
                rep.fail('C08.R6', key, where(x), '%s compares a length measured from yytext_ptr (line %s) without accounting for yy_more_len (YY_MORE_ADJ): with yymore() pending the kept text is counted as part of the current run [variant %s]' % (norm(fn.name), x.line, v.name),
                         variant=v.describe(), replay_input='%option emit="c99" (pointer yytext), input from yy_scan_string, yymore() pending on the last token: yylex never reaches <<EOF>>')
    if n == 0:
        rep.fail('C08.R6', 'C08.R6:%s:yy_get_next_buffer:length-from-yytext_ptr-compared:missing' % skel(v), fwhere(sc.fn('GNB')),
                 'no comparison of yy_c_buf_p - yytext_ptr found although the scanner uses yy_more_len (the single-EOB-character test of yy_get_next_buffer) [variant %s]' % v.name, variant=v.describe())
        n = 1
    return n

# ---------------------------------------------------------------- R7

def token_start_locals(sc, lex):
    """pointer locals of yylex whose loaded value is stored, as it is, to yytext_ptr - directly (YY_DO_BEFORE_ACTION:
    yytext_ptr = yy_bp) or by a callee that stores the corresponding parameter to yytext_ptr (yy_do_before_action)"""
    a = sc.fa(lex); out = set()
    def local_of(val):
        d = lex.def_of(val)
        if d is not None and d.op == 'load':
            l = a.loc(d.ops[0])
            if l[0] == 'local' and l[1] in a.locals: return l[1]
        return None
    for st in a.cell_stores('TEXT'):
        L = local_of(st.ops[0])
        if L: out.add(L)
    for c in lex.ins:
        if c.op not in ('call', 'invoke'): continue
        g = sc.callee_fn(c, lex)
        if g is None: continue
        ga = None
        for k, arg in enumerate(c.ops):
            L = local_of(arg)
            if not L or k >= len(g.params) or not g.params[k][1]: continue
            if ga is None: ga = sc.fa(g)
            pl = g.params[k][1] + '.addr'
            for st in ga.cell_stores('TEXT'):
                d = g.def_of(st.ops[0])
                if d is not None and d.op == 'load' and ga.loc(d.ops[0]) == ('local', pl): out.add(L)
    return out

class _NotLinear(Exception):
    pass

def linear_position(sc, fn, val, ts):
    """pointer value as base + m * yy_more_len + constant + run-time terms.  Returns (base, m, const, runtime) with base
    'RUN' (a token-start local: the start of the current run), 'TEXT' (yytext_ptr) or None (anything else)."""
    a = sc.fa(fn)
    def integer(v, sign, acc, depth=0):
        if depth > 25: raise _NotLinear()
        if v[0] == 'int': acc[1] += sign * v[1]; return
        d = fn.def_of(v)
        if d is None: acc[2] = True; return
        if d.op in ('sext', 'zext', 'trunc'): integer(d.ops[0], sign, acc, depth + 1); return
        if d.op == 'add': integer(d.ops[0], sign, acc, depth + 1); integer(d.ops[1], sign, acc, depth + 1); return
        if d.op == 'sub': integer(d.ops[0], sign, acc, depth + 1); integer(d.ops[1], -sign, acc, depth + 1); return
        if d.op == 'load' and cell_role(a.loc(d.ops[0])) == 'MORELEN': acc[0] += sign; return
        acc[2] = True
    acc = [0, 0, False]
    v = val; depth = 0
    while depth < 25:
        depth += 1
        d = fn.def_of(v)
        if d is None: return (None, 0, 0, True)
        if d.op == 'bitcast': v = d.ops[0]; continue
        if d.op == 'getelementptr' and len(d.ops) == 2:
            integer(d.ops[1], 1, acc); v = d.ops[0]; continue
        if d.op == 'load':
            l = a.loc(d.ops[0])
            if l[0] == 'local' and l[1] in ts: return ('RUN', acc[0], acc[1], acc[2])
            if cell_role(l) == 'TEXT' and d.ty is not None and d.ty.k == 'ptr': return ('TEXT', acc[0], acc[1], acc[2])
        return (None, 0, 0, True)
    return (None, 0, 0, True)

def r7(ctx, sc, lex):
    """yymore (pointer yytext): yytext_ptr is the start of yytext including the text kept by yymore(); the run the DFA
    matched starts yy_more_len bytes later, at the token-start local (yy_bp).  Every scan position that yylex or yyinput
    computes from one of the two starts is base + m * yy_more_len + offset; counting the run start as yytext_ptr +
    yy_more_len gives the total weight M of yy_more_len.  An offset that is a compile-time constant was emitted by the
    generator and counts bytes of the current run (the head of a fixed-trailing-context rule, 0 for "start of the run"):
    M must be 1.  An offset computed at run time (the argument of yyless, a length saved from yy_cp - yytext_ptr) is
    measured from yytext: M must be 0.  Anything else applies the yymore adjustment twice or not at all."""
    rep = ctx.rep; v = sc.v; n = 0
    la = sc.fa(lex)
    if not la.cell_loads('MORELEN'):
        c03.vac(rep, v, 'C08.R7: the scanner has no yy_more_len (no yymore(), or %array where yy_more_offset is used)')
        return 0
    ts = token_start_locals(sc, lex)
    if not ts: rep.broken('%s: no pointer local of %s is stored to yytext_ptr (token-start local not found)' % (v.name, lex.name))
    cfg, hdr, sw, eob, gnb = lex_anchors(ctx, sc, lex)
    sp = c04.scan_position_locals(sc, lex)
    for fn in [lex] + sc.fns('INPUT'):
        a = sc.fa(fn)
        seen = set()
        stores = list(a.cell_stores('CBUFP'))
        if fn is lex:
            for L in sp: stores += a.local_stores(L)
        for st in stores:
            if st.ops[0][0] != 'reg' or st.ops[0][1] in seen: continue
            seen.add(st.ops[0][1])
            try:
                base, m, const, runtime = linear_position(sc, fn, st.ops[0], ts if fn is lex else ())
            except _NotLinear:
                continue
            if base is None: continue
            n += 1
            M = m + (1 if base == 'RUN' else 0)
            want = 0 if runtime else 1
            if fn is lex:
                site = _site(sc, lex, st, sw, eob, hdr)
                if site == 'in-an-action': site = 'yyless' if runtime else 'fixed-trailing-context'
            else: site = 'refill'
            key = 'C08.R7:%s:%s:scan-position-from-token-start#%s' % (skel(v), norm(fn.name), site)
            what = '%s %+d*yy_more_len + %s' % ('yy_bp' if base == 'RUN' else 'yytext_ptr', m, 'a run-time offset' if runtime else str(const))
            if M == want:
                rep.ok('C08.R7', '%s %s: scan position@%s = %s (net weight of yy_more_len relative to yytext_ptr %d)' % (v.name, norm(fn.name), st.line, what, M))
            else:
                rep.fail('C08.R7', key, where(st), '%s sets the scan position (line %s) to %s: relative to yytext_ptr the text kept by yymore() is counted %d time(s), but %s [variant %s]' % (
                    norm(fn.name), st.line, what, M,
                    'a run-time offset (the argument of yyless, a saved length) is measured from yytext: it must not be counted' if runtime else 'a constant offset counts bytes of the current run, which starts at yytext_ptr + yy_more_len: it must be counted once',
                    v.name), variant=v.describe())
    return n

# ---------------------------------------------------------------- R8

def r8(ctx, sc, lex):
    """input() returns each character exactly once: see c03.r5 (shared symbolic evaluation); here the obligation is that
    the offset saved before the refill is that of the end-of-buffer byte itself"""
    gnb = sc.fn('GNB')
    consts, eof = c03.eof_code(sc, lex, gnb)
    return c03.r5(ctx, sc, consts, eof, rule='C08.R8')

# ---------------------------------------------------------------- driver

def run(ctx):
    rep = ctx.rep
    vs = [v for v in ctx.variants() if c03.usable(v)]
    rep.require(len(vs) >= 60, 'only %d scanner variants compiled to IR' % len(vs))
    tot = {'R1a': 0, 'R1b': 0, 'R1c': 0, 'R1d': 0, 'R2': 0, 'R4': 0, 'R5': 0, 'R6': 0, 'R7': 0, 'R8': 0, 'yymore': 0}
    backends = set()
    for v in vs:
        sc = Scanner(v)
        lex = sc.fn('LEX', having_call='GNB')
        if lex is None: rep.broken('%s: yylex not found' % v.name)
        backends.add(v.backend)
        tot['R1a'] += r1a(ctx, sc, lex)
        tot['R1b'] += r1b(ctx, sc)
        tot['R1c'] += r1c(ctx, sc)
        tot['R1d'] += r1d(ctx, sc)
        tot['R4'] += r4(ctx, sc, lex)
        tot['R5'] += r5(ctx, sc, lex)
        tot['R6'] += r6(ctx, sc, lex)
        tot['R7'] += r7(ctx, sc, lex)
        tot['R8'] += r8(ctx, sc, lex)
        if sc.fa(lex).cell_loads('MORELEN'): tot['yymore'] += 1
        k = r2(ctx, sc)
        if k == 0: c03.vac(rep, v, 'C08.R2: no yyunput in this variant (noyyunput)')
        tot['R2'] += k
    rep.require(backends == {'nr', 'r', 'cxx', 'c99', 'go'}, 'back ends analysed: %s' % sorted(backends))
    rep.setcount('variants_analysed', len(vs))
    for k, n in tot.items(): rep.setcount('instances_' + k, n)
    c03.count_guard(rep, tot['R1a'] >= 9 * len(vs), 'C08.R1(a) matched %d instances, at least 9 per variant expected (3 + one per restore + one per take in yylex)' % tot['R1a'])
    c03.count_guard(rep, tot['R1b'] >= 8 * len(vs) - 16, 'C08.R1(b) matched %d instances, 8..10 per variant expected (2 per editing entry point)' % tot['R1b'])
    c03.count_guard(rep, tot['R1d'] >= 6 * len(vs), 'C08.R1(d) matched %d takes, at least 6 per variant expected' % tot['R1d'])
    c03.count_guard(rep, tot['R1c'] >= 3 * len(vs), 'C08.R1(c) matched %d instances, 3 per variant expected' % tot['R1c'])
    c03.count_guard(rep, tot['R2'] >= len(vs) - 4, 'C08.R2 matched %d instances, one per variant with yyunput expected' % tot['R2'])
    c03.count_guard(rep, tot['R4'] >= 3 * len(vs), 'C08.R4 matched %d instances, 2 arms in yylex + 2 in yyinput per variant expected' % tot['R4'])
    rep.floor('C08.R1', 1, 'see instances_R1a/R1b/R1c'); rep.floor('C08.R2', 1, 'see instances_R2')
    c03.count_guard(rep, tot['R6'] >= tot['yymore'], 'C08.R6 matched %d instances, one per yymore variant (%d) expected' % (tot['R6'], tot['yymore']))
    c03.count_guard(rep, tot['R5'] >= 4 * tot['yymore'], 'C08.R5 matched %d instances, 4 per yymore variant (%d) expected' % (tot['R5'], tot['yymore']))
    c03.count_guard(rep, tot['R7'] >= 4 * tot['yymore'], 'C08.R7 matched %d instances, at least 4 per yymore variant (%d) expected' % (tot['R7'], tot['yymore']))
    c03.count_guard(rep, tot['R8'] >= len(vs) - 8, 'C08.R8 matched %d instances, one per variant with yyinput expected' % tot['R8'])
    rep.floor('C08.R7', 1, 'see instances_R7'); rep.floor('C08.R8', 1, 'see instances_R8')
    rep.floor('C08.R4', 1, 'see instances_R4'); rep.floor('C08.R5', 1, 'see instances_R5'); rep.floor('C08.R6', 1, 'see instances_R6')
    rep.undecided += ['yymore length arithmetic (yy_more_len / yy_more_offset) and "consumed exactly once"',
                      'the state after the user\'s yywrap() and on the end-of-file arm of yy_get_next_buffer (a path-insensitive join cannot see it)',
                      'line-count effects of unput/input (C09.R3)']
    rep.assumptions += ['clang -O0 IR of the instantiated skeleton is a faithful rendering of the generated C/C++ source',
                        'user actions leave yy_hold_char alone and reach the buffer only through the documented entry points']
    c03.flush_vac(rep)
    import macro_hygiene
    macro_hygiene.check(ctx, 'C08.R9', {'yyless', 'unput', 'yyunput'}, ['yyless', 'yyunput'])
    rep.floor('C08.R9', 6, 'yyless()/yyunput() (and unput() where defined) in the nr, r and C++ instantiation of the cpp skeleton')
    return rep.finish('other',
        'Must-pass-through rules for the hold-character protocol on LLVM IR of %d instantiated scanner variants (nr, r, C++, c99, go): restore and '
        'take shapes are recognised by data flow (store of yy_hold_char through a tainted buffer pointer / store to yy_hold_char of a byte loaded '
        'through one, or a callee that takes on every path); obligations a1-a5 in yylex, dominance and post-dominance in yyunput/yyinput/yyless/'
        'yy_switch_to_buffer/yypush_buffer_state, conditional take in yypop_buffer_state/yy_flush_buffer/yyrestart, and the low-water/fatal '
        'structure of yyunput.' % len(vs))
