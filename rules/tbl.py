"""Table-language model: reads the DFA that flex emitted for a variant out of the *constant tables* in the variant's
LLVM IR (never running the scanner) and compares its language and rule priority, for every start condition and
beginning-of-line state and over all byte strings, with a reference DFA built independently from the rule text by the E3
model (lib/lex.py).  Used by C01.R7 (patterns mean what the manual says, longest-match/first-rule data is right) and C02.R5
(all table representations denote the same automaton).

What is modelled of the run time is only the table look-up step of each representation (the three forms of
"next state" in the skeleton: compressed base/def/nxt/chk with equivalence and meta-equivalence classes, full yy_nxt[][],
fast yy_transition[] with yy_verify) and the accepting information (yy_accept, yy_acclist, yy_transition[-1]).
"""
import re, collections, os
import ir, lex

class TableError(Exception): pass
class TableDefect(Exception):
    """the generated scanner itself would index one of its tables out of range (undefined behaviour in C): a property
    violation, not a modelling problem"""

def int_array(mod, name):
    g = mod.globals.get(name)
    if g is None or g.init is None: return None
    if g.init[0] == 'other' and g.init[1] == 'zeroinitializer':
        t = g.ty; n = 1
        while t is not None and t.k == 'arr': n *= t.a; t = t.b
        return [0] * n
    if g.init[0] == 'cstr':
        t = g.init[1]; out = []; k = 0
        while k < len(t):
            if t[k] == '\\':
                if t[k+1] == '\\': out.append(92); k += 2
                else: out.append(int(t[k+1:k+3], 16)); k += 3
            else: out.append(ord(t[k])); k += 1
        return out
    if g.init[0] != 'agg': return None
    return flatten_ints(g.init[1])

_tok = re.compile(r'\[(\d+) x \[(\d+) x i\d+\]\] zeroinitializer|\[(\d+) x i\d+\] zeroinitializer|\bi(?:1|8|16|32|64) (-?\d+)')
def flatten_ints(text):
    """integers of a (possibly packed-struct, partly zeroinitializer) constant array initialiser, in order"""
    # drop the leading type list of a packed struct  <{ i32, i32, [25 x i32] }> <{ ...values... }>
    m = re.match(r'\s*<\{[^{}]*\}>\s*<\{', text)
    if m: text = text[m.end() - 2:]
    out = []
    for m in _tok.finditer(text):
        if m.group(1): out += [0] * (int(m.group(1)) * int(m.group(2)))
        elif m.group(3): out += [0] * int(m.group(3))
        else: out.append(int(m.group(4)))
    return out

def _as_stored(ty, v):
    """value of the initialiser after conversion to the declared type of the object (x86-64: char is signed, 8 bits)"""
    if ty == 'char': return ((v + 128) & 0xff) - 128
    if ty == 'bool': return int(v != 0)
    if ty == 'unsigned int': return v & 0xffffffff
    if ty == 'int': return ((v + 2**31) & 0xffffffff) - 2**31
    return v

def defines(src):
    d = {}
    for m in re.finditer(r'^#define (YY_[A-Z_]+) (-?\d+)\s*$', src, re.M): d[m.group(1)] = int(m.group(2))
    # constants the c99-style back ends emit as typed objects hold the value as converted to that type, not as written
    for m in re.finditer(r'^(?:static )?const (int|unsigned int|char|flex_\w+|bool) (YY_[A-Z_]+|yy[A-Za-z]+) = (-?\d+);', src, re.M):
        d[m.group(2)] = _as_stored(m.group(1), int(m.group(3)))
    return d

class TableDFA:
    """next-state / accepting functions of one generated scanner, from its tables"""
    def __init__(s, v, mod):
        s.v = v; s.mod = mod
        src = open(v.src, errors='replace').read()
        s.defs = defines(src)
        names = set(mod.globals)
        def pick(*c):
            for n in c:
                if n in names: return n
            return None
        s.n_transition = pick('yy_transition', 'yyTransition')
        s.n_nxt = pick('yy_nxt', 'yyNxt')
        s.n_accept = pick('yy_accept', 'yyAccept')
        s.n_acclist = pick('yy_acclist', 'yyAcclist')
        s.n_ec = pick('yy_ec', 'yyEc')
        s.n_meta = pick('yy_meta', 'yyMeta')
        s.n_base = pick('yy_base', 'yyBase'); s.n_def = pick('yy_def', 'yyDef'); s.n_chk = pick('yy_chk', 'yyChk')
        s.n_nultrans = pick('yy_NUL_trans', 'yyNULtrans', 'yy_NUL_Trans')
        s.ec = int_array(mod, s.n_ec) if s.n_ec else None
        s.num_rules = s.defs.get('YY_NUM_RULES'); s.eob = s.defs.get('YY_END_OF_BUFFER')
        if s.num_rules is None or s.eob is None: raise TableError('YY_NUM_RULES / YY_END_OF_BUFFER not found in the generated source')
        if s.n_transition: s._init_fast()
        elif s.n_nxt and mod.globals[s.n_nxt].ty.k == 'arr' and mod.globals[s.n_nxt].ty.b.k == 'arr': s._init_full()
        elif s.n_base and s.n_chk: s._init_compressed()
        else: raise TableError('table representation not recognised (globals: %s)' % sorted(n for n in names if n.startswith('yy'))[:12])
        s.acclist = int_array(mod, s.n_acclist) if s.n_acclist else None
        s.accept = int_array(mod, s.n_accept) if s.n_accept else None

    # ---- compressed
    def _init_compressed(s):
        s.kind = 'compressed'
        m = s.mod
        s.base = int_array(m, s.n_base); s.deflt = int_array(m, s.n_def); s.nxt = int_array(m, s.n_nxt); s.chk = int_array(m, s.n_chk)
        s.meta = int_array(m, s.n_meta) if s.n_meta else None
        s.jamstate = s.defs.get('YY_JAMSTATE'); s.nul_ec = s.defs.get('YY_NUL_EC')
        if s.jamstate is None: raise TableError('YY_JAMSTATE not found')
    def _cls(s, byte):
        if byte == 0 and s.n_nultrans is None and s.defs.get('YY_NUL_EC') is not None: return s.defs['YY_NUL_EC']
        return s.ec[byte] if s.ec is not None else byte
    def _idx(s, cur, c):
        if not 0 <= cur < len(s.base): raise TableDefect('state number %d is outside yy_base[0..%d]' % (cur, len(s.base) - 1))
        i = s.base[cur] + c
        if not 0 <= i < len(s.chk) or i >= len(s.nxt):
            raise TableDefect('yy_base[%d] + %d = %d is outside yy_chk/yy_nxt[0..%d] (yy_base[%d] is %d as stored in its declared element type)' % (cur, c, i, len(s.chk) - 1, cur, s.base[cur]))
        return i
    def _step_compressed(s, st, byte):
        c = s._cls(byte); cur = st; guard = 0
        while s.chk[s._idx(cur, c)] != cur:
            if not 0 <= cur < len(s.deflt): raise TableDefect('state number %d is outside yy_def' % cur)
            cur = s.deflt[cur]; guard += 1
            if guard > 100000: raise TableDefect('the default chain from state %d never reaches a state with a transition (the match loop does not terminate)' % st)
            if cur >= s.jamstate + 1 and s.meta is not None:
                if not 0 <= c < len(s.meta): raise TableDefect('class %d is outside yy_meta' % c)
                c = s.meta[c]
        n = s.nxt[s._idx(cur, c)]
        return None if n == s.jamstate or n == 0 else n
    # ---- full
    def _init_full(s):
        s.kind = 'full'
        g = s.mod.globals[s.n_nxt]
        s.rows = g.ty.a; s.cols = g.ty.b.a
        flat = int_array(s.mod, s.n_nxt)
        if flat is None or len(flat) != s.rows * s.cols: raise TableError('yy_nxt has %s entries, expected %d x %d' % (len(flat) if flat else None, s.rows, s.cols))
        s.full = [flat[r * s.cols:(r + 1) * s.cols] for r in range(s.rows)]
        s.nultrans = int_array(s.mod, s.n_nultrans) if s.n_nultrans else None
    def _step_full(s, st, byte):
        if byte == 0 and s.nultrans is not None:
            n = s.nultrans[st]
            return n if n > 0 else None
        c = s._cls(byte)
        if not 0 <= st < s.rows or not 0 <= c < s.cols: raise TableDefect('yy_nxt[%d][%d] is outside the %d x %d table' % (st, c, s.rows, s.cols))
        n = s.full[st][c]
        return n if n > 0 else None
    # ---- fast
    def _init_fast(s):
        s.kind = 'fast'
        g = s.mod.globals[s.n_transition]
        s.trans = []
        if g.init and g.init[0] == 'agg':
            for m in re.finditer(r'%struct\.yy_trans_info (zeroinitializer|\{ i\d+ (-?\d+), i\d+ (-?\d+) \})', g.init[1]):
                s.trans.append((0, 0) if m.group(1) == 'zeroinitializer' else (int(m.group(2)), int(m.group(3))))
        if not s.trans or (g.ty is not None and g.ty.k == 'arr' and len(s.trans) != g.ty.a):
            raise TableError('yy_transition initialiser not understood (%d entries)' % len(s.trans))
        esz = s.mod.sizeof(g.ty.b) if g.ty is not None and g.ty.k == 'arr' else 4
        def ptr_indices(text):
            out = []
            for part in re.split(r',\s*(?=%struct\.yy_trans_info\*)', text.strip()[1:-1] if text.strip().startswith('[') else text):
                m1 = re.search(r'@%s to i8\*\), i64 (\d+)\)' % re.escape(s.n_transition), part)
                m2 = re.search(r'@%s, i\d+ 0, i\d+ (\d+)\)' % re.escape(s.n_transition), part)
                if m1: out.append(int(m1.group(1)) // esz)
                elif m2: out.append(int(m2.group(1)))
                elif re.search(r'@%s\b' % re.escape(s.n_transition), part): out.append(0)
                else: out.append(None)
            return out
        sl = s.mod.globals.get('yy_start_state_list') or s.mod.globals.get('yyStartStateList')
        if sl is None or sl.init is None: raise TableError('yy_start_state_list not found')
        s.startlist = ptr_indices(sl.init[1])
        nt = s.mod.globals.get(s.n_nultrans) if s.n_nultrans else None
        s.nul_fast = None
        if nt is not None and nt.init is not None and nt.init[0] == 'agg':
            # array of pointers into yy_transition (null = jam)
            s.nul_fast = ptr_indices(nt.init[1])
    def _step_fast(s, st, byte):
        if byte == 0 and s.n_nultrans is not None:
            raise TableError('fast tables with a yy_NUL_trans table are not modelled')
        c = s._cls(byte)
        k = st + c
        if k < 0 or k >= len(s.trans): raise TableDefect('yy_transition[%d] is outside the table of %d entries' % (k, len(s.trans)))
        ver, nx = s.trans[k]
        if ver != c: return None
        return st + nx

    # ---- common interface
    def start(s, sc_index, bol):
        y = 1 + 2 * sc_index + (1 if bol else 0)
        if s.kind == 'fast':
            if y >= len(s.startlist): raise TableError('yy_start_state_list has no entry %d' % y)
            return s.startlist[y]
        return y
    def step(s, st, byte):
        if s.kind == 'compressed': return s._step_compressed(st, byte)
        if s.kind == 'full': return s._step_full(st, byte)
        return s._step_fast(st, byte)
    def accepting(s, st):
        """sorted list of rule numbers accepting in this state (the first is the one yylex reports); [] if none.
        YY_END_OF_BUFFER (the end-of-buffer pseudo rule) is dropped."""
        if s.kind == 'fast':
            a = s.trans[st - 1][1] if st >= 1 else 0
            return [a] if a and a != s.eob else []
        if s.acclist is not None:
            lo, hi = s.accept[st], s.accept[st + 1]
            out = []
            for k in range(lo, hi):
                a = s.acclist[k]
                out.append(a)
            return [a for a in out if (a & 0x1fff) != s.eob]
        a = s.accept[st]
        return [a] if a and a != s.eob else []

# ------------------------------------------------------------------ reference automaton from the rule text

def reference(spec, sc, bol):
    """(DFA, id->rule) for the rules of `spec` active in start condition sc with the given beginning-of-line state.
    A rule r/s competes with the text of r followed by s; r$ is r/\\n."""
    act = []
    k = 0
    for r in spec.rules:
        if r.is_eof: continue
        k += 1
        if not r.active_in(sc, spec): continue
        a = lex.parse_pattern(r.pat, spec)
        if a['bol'] and not bol: continue
        full = a['head']
        if a['trail'] is not None: full = ('cat', [full, a['trail']])
        if a['eol']: full = ('cat', [full, ('set', frozenset([10]))])
        act.append((k, full))
    ndefault = k + 1
    # the default rule: any single byte, lowest priority, active everywhere
    act.append((ndefault, ('set', lex.ALL)))
    return lex.DFA(act), ndefault

def compare(tdfa, spec, sc_names, variable_trailing=False, limit=400000):
    """product exploration; returns list of (sc, bol, witness bytes, table verdict, reference verdict) disagreements and
    the number of product states explored"""
    out = []; explored = 0
    for sci, sc in enumerate(sc_names):
        for bol in (False, True):
            ref, ndefault = reference(spec, sc, bol)
            try: t0 = tdfa.start(sci, bol)
            except TableError as e:
                out.append((sc, bol, b'', 'no start state: %s' % e, '')); continue
            start = (t0, 0)
            seen = {start: None}; q = collections.deque([start])
            while q:
                st = q.popleft(); explored += 1
                if explored > limit: raise TableError('product larger than %d states' % limit)
                ts, rs = st
                ta = tdfa.accepting(ts) if ts is not None else []
                ra = ref.accept.get(rs, []) if rs is not None else []
                if st != start:
                    tl = [a & 0x1fff for a in ta] if tdfa.acclist is not None else ta
                    bad = False
                    if tdfa.acclist is not None and not variable_trailing:
                        bad = tl != ra          # REJECT visits the accepting rules in this order: the list must be sorted
                    else:
                        bad = (tl[0] if tl else 0) != (ra[0] if ra else 0)
                    if bad:
                        w = []; x = st
                        while seen[x] is not None: x, c = seen[x]; w.append(c)
                        out.append((sc, bol, bytes(reversed(w)), 'accepts %s' % (tl or 'nothing'), 'accepts %s' % (ra or 'nothing')))
                        if len(out) > 20: return out, explored
                        continue
                for byte in range(256):
                    try: nt = tdfa.step(ts, byte) if ts is not None else None
                    except TableDefect as e:
                        w = [byte]; x = st
                        while seen[x] is not None: x, c = seen[x]; w.append(c)
                        out.append((sc, bol, bytes(reversed(w)), 'undefined behaviour: %s' % e, 'a defined transition'))
                        if len(out) > 20: return out, explored
                        nt = None
                    nr = ref.step(rs, byte) if rs is not None else None
                    if nt is None and nr is None: continue
                    ns = (nt, nr)
                    if ns not in seen: seen[ns] = (st, byte); q.append(ns)
    return out, explored


# ------------------------------------------------------------------ driver shared by C01.R7 and C02.R5

_results = {}
_gen_stats = {}
def language_results(ctx, probes=None):
    """{variant name: (probe, table kind, reject?, disagreements, product states)} for the language probes (only the named
    probes when `probes` is given)"""
    import variants, tbl_probes
    key = (ctx.art.dir, ctx.tier, tuple(sorted(probes)) if probes is not None else None)
    if key in _results: return _results[key]
    vs = tbl_probes.language_variants(ctx.tier == 'thorough', ctx.art)
    if probes is not None: vs = [v for v in vs if v.name.split('_')[1] in probes]
    variants.instantiate(ctx.art, vs, 'lang')
    gen = []
    if probes is None:
        # generated rule sets (rules/tbl_gen.py): deterministic and independent of VERIF_SEED (a verdict must not depend on the
        # seed); sets 0..439 were compared once on the unchanged tree (tools/gensweep.py, 2640 variants, all equal)
        import tbl_gen
        n, tabs = (48, ('Cem', 'C', 'Cf', 'CF', 'CFe', 'Cem_rej')) if ctx.tier == 'thorough' else (10, ('Cem', 'CF', 'Cem_rej'))
        base = 0
        gen = tbl_gen.generated_variants(range(base, base + n), tabs)
        variants.instantiate(ctx.art, gen, 'gen_%s_%d' % (ctx.tier, base))
        vs = vs + gen
    out = {}
    nref = 0
    for v in vs:
        probe = v.name.split('_')[1]
        rej = v.name.endswith('_rej')
        if v in gen and ((v.refused and not v.crashed) or 'timeout' in (v.stderr or '')[-200:]):
            nref += 1; continue         # a generated rule set that flex declines with a message is no verdict either way
        if v.crashed or v.refused or v.ll is None:
            out[v.name] = (probe, None, rej, 'not generated: %s' % ((v.stderr or v.ll_err or '').strip().split('\n')[-1][:120]), 0, v)
            continue
        sp = lex.parse_spec(v.spec())
        try:
            t = TableDFA(v, variants.module(v))
            dis, n = compare(t, sp, sp.sc_order, limit=3000000)
            out[v.name] = (probe, t.kind, rej, dis, n, v)
        except TableError as e:
            out[v.name] = (probe, None, rej, 'table model: %s' % e, 0, v)
    if gen and nref * 5 > len(gen):
        import common
        raise common.AnalysisBroken('flex refused %d of %d generated rule sets: the generator no longer matches the accepted language' % (nref, len(gen)))
    _gen_stats[key] = (len(gen), nref)
    _results[key] = out
    return out

def rule_language(ctx, rule, probes=None, what='language and rule priority', rej_only=False):
    """C01.R7: the emitted tables denote, for every start condition and beginning-of-line state and over ALL byte strings,
    the same accepted rules as the reference automaton built from the rule text by the E3 model."""
    rep = ctx.rep
    res = language_results(ctx, probes)
    states = 0; notgen = []
    for name, (probe, kind, rej, dis, n, v) in sorted(res.items()):
        if probes is not None and probe not in probes: continue
        if rej_only and not rej: continue
        states += n
        if isinstance(dis, str):
            notgen.append('%s: language probe %s: %s' % (rule, name, dis)); continue       # reported after the probes that were generated
        if not dis:
            rep.ok(rule, '%s (%s tables%s): %s equal the reference over all inputs (%d product states)' % (name, kind, ', REJECT lists' if rej else '', what, n))
            continue
        for sc, bol, w, tv, rv in dis[:3]:
            k = '%s:tables:%s:%s:%s' % (rule, probe, sc, w.hex() or 'start')
            rep.fail(rule, k, '%s <%s>%s' % (name, sc, ' at beginning of line' if bol else ''),
                     'after reading %r the generated tables say "%s" but the rule set says "%s" (rule numbers are positions in the probe; probe %s, %s tables)' % (w, tv, rv, probe, kind),
                     replay_input=v.spec() + '\n--- input: %r' % w, variant=v.describe())
    rep.setcount('language_probe_variants', len(res)); rep.setcount('language_product_states', states)
    for k_, (ng, nr_) in _gen_stats.items():
        if k_[2] is None: rep.setcount('generated_rule_set_variants', ng); rep.setcount('generated_rule_set_variants_refused_by_flex', nr_)
    if notgen: rep.broken('; '.join(notgen[:3]) + (' (+%d more)' % (len(notgen) - 3) if len(notgen) > 3 else ''))
    return len(res)

def rule_representations(ctx, rule):
    """C02.R5: all table representations of one rule set denote the same automaton (each was compared with the same
    reference; here the verdict maps are compared with each other, so a representation-specific defect is attributed
    to the representation and a front-end defect is not reported twice)."""
    rep = ctx.rep
    res = language_results(ctx)
    groups = {}; notgen = []
    for name, (probe, kind, rej, dis, n, v) in res.items():
        if isinstance(dis, str): notgen.append('%s: language probe %s: %s' % (rule, name, dis)); continue
        sig = tuple(sorted((sc, bol, w, tv) for sc, bol, w, tv, rv in dis))
        groups.setdefault((probe, rej), {})[name] = (sig, kind)
    n = 0
    for (probe, rej), members in sorted(groups.items()):
        n += 1
        sigs = {}
        for name, (sig, kind) in members.items(): sigs.setdefault(sig, []).append(name)
        if len(sigs) == 1:
            rep.ok(rule, 'probe %s%s: %d table representations denote the same automaton' % (probe, ' (REJECT)' if rej else '', len(members)))
        else:
            major = max(sigs.values(), key=len)
            for sig, names in sigs.items():
                if names is major: continue
                kinds = sorted({n_.split('_')[2] for n_ in names})
                w = sig[0] if sig else None
                rep.fail(rule, '%s:tables:%s:%s' % (rule, probe, '+'.join(kinds)), ', '.join(sorted(names)),
                         'table representation(s) %s of probe %s behave differently from the others%s' % (
                             '/'.join(kinds), probe, (': after %r they say "%s"' % (w[2], w[3])) if w else ' (the others disagree with the reference, these do not)'))
    if notgen: rep.broken('; '.join(notgen[:3]) + (' (+%d more)' % (len(notgen) - 3) if len(notgen) > 3 else ''))
    return n

# ------------------------------------------------------------------ declared element types versus the values written

_CT = {'flex_int8_t': (-128, 127), 'flex_uint8_t': (0, 255), 'flex_int16_t': (-32768, 32767), 'flex_uint16_t': (0, 65535),
       'flex_int32_t': (-2 ** 31, 2 ** 31 - 1), 'flex_uint32_t': (0, 2 ** 32 - 1), 'int': (-2 ** 31, 2 ** 31 - 1), 'short': (-32768, 32767),
       'unsigned char': (0, 255), 'char': (-128, 127), 'int16_t': (-32768, 32767), 'int32_t': (-2 ** 31, 2 ** 31 - 1), 'uint8_t': (0, 255)}

def _ctype(src, name, depth=0):
    """value range of a C integer type name of the generated source, following typedefs and #defines"""
    name = name.strip()
    if name in _CT: return _CT[name]
    if depth > 4: return None
    m = re.search(r'^\s*typedef\s+([\w ]+?)\s+%s\s*;' % re.escape(name), src, re.M) or re.search(r'^#define\s+%s\s+([\w ]+?)\s*$' % re.escape(name), src, re.M)
    return _ctype(src, m.group(1), depth + 1) if m else None

def table_value_ranges(src):
    """[(table name, declared type, (lo, hi) or None, min value, max value, first offending (index, value) or None)] for every
    constant integer table (`static const T yy_name[N] = { ... };`, also arrays of struct yy_trans_info) of a generated
    scanner source: the numbers flex wrote must be representable in the element type flex declared, otherwise the C
    compiler converts them silently and the scanner works with different tables than flex computed."""
    out = []
    for m in re.finditer(r'^(?:static\s+)?const\s+(struct\s+yy_trans_info|[A-Za-z_]\w*(?:\s+\w+)?)\s+(yy_?\w+)\s*((?:\[\d*\])+)\s*=\s*\{', src, re.M):
        ty, name = m.group(1), m.group(2)
        e = src.find('};', m.end())
        if e < 0: continue
        body = src[m.end():e]
        if '&' in body or '"' in body: continue            # pointer or string tables
        vals = [int(x) for x in re.findall(r'-?\d+', re.sub(r'/\*.*?\*/', '', body, flags=re.S))]
        if not vals: continue
        if ty.startswith('struct'):
            ms = re.search(r'struct\s+yy_trans_info\s*\{(.*?)\}\s*;', src, re.S)
            ft = re.search(r'([A-Za-z_]\w*)\s+yy_verify\s*;', re.sub(r'/\*.*?\*/', '', ms.group(1), flags=re.S)) if ms else None
            rng = _ctype(src, ft.group(1)) if ft else None
        else:
            rng = _ctype(src, ty)
        bad = None
        if rng is not None:
            for i, x in enumerate(vals):
                if not rng[0] <= x <= rng[1]: bad = (i, x); break
        out.append((name, ty, rng, min(vals), max(vals), bad))
    return out

def rule_value_ranges(ctx, rule, vs):
    rep = ctx.rep; n = 0
    for v in vs:
        if v.src is None or not os.path.exists(v.src): continue
        src = open(v.src, errors='replace').read()
        for name, ty, rng, lo, hi, bad in table_value_ranges(src):
            n += 1
            sk = {'c99': 'c99-flex.skl', 'go': 'go-flex.skl'}.get(v.backend, 'cpp-flex.skl')
            if rng is None:
                rep.note('%s: %s: element type %s of %s not resolved' % (rule, v.name, ty, name)); continue
            if bad is None:
                rep.ok(rule, '%s: %s %s[]: values %d..%d fit the declared element type' % (v.name, ty, name, lo, hi))
            else:
                rep.fail(rule, '%s:%s:%s:value-out-of-range-of-declared-type' % (rule, sk, name), '%s (%s)' % (v.name, os.path.basename(v.src)),
                         'flex declares %s as %s[] (range %d..%d) but writes the value %d at index %d: the compiler converts it silently and the scanner uses a different table than flex computed'
                         % (name, ty, rng[0], rng[1], bad[1], bad[0]), replay_input=v.spec(), variant=v.describe())
        # scalar constants emitted as typed objects (c99-style back ends): the written value must survive the conversion
        for m in re.finditer(r'^(?:static )?const (int|unsigned int|char|bool) (YY_[A-Z_]+|yy[A-Za-z_]+) = (-?\d+);', src, re.M):
            n += 1
            ty, name, val = m.group(1), m.group(2), int(m.group(3))
            sk = {'c99': 'c99-flex.skl', 'go': 'go-flex.skl'}.get(v.backend, 'cpp-flex.skl')
            if _as_stored(ty, val) == val:
                rep.ok(rule, '%s: const %s %s = %d fits its declared type' % (v.name, ty, name, val))
            else:
                rep.fail(rule, '%s:%s:%s:constant-out-of-range-of-declared-type' % (rule, sk, name), '%s (%s)' % (v.name, os.path.basename(v.src)),
                         'flex declares %s as const %s but writes the value %d: the compiled scanner sees %d' % (name, ty, val, _as_stored(ty, val)),
                         replay_input=v.spec(), variant=v.describe())
    return n
