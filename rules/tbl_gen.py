"""Generated language probes (thorough tier of C01.R7 / C02.R5 / C07.R5): rule sets drawn from the documented pattern
grammar by a seeded generator, so that the table-language comparison is not limited to the hand-written probes of
tbl_probes.py ("probes decide the probe", DESIGN 6.4).  The generator is deterministic: rule set k of seed S is always the
same text; VERIF_SEED changes S.  It stays inside the part of the language whose meaning the manual fixes without
reference to run-time state:

  literals and escapes (\\n \\t \\0 \\xHH \\ooo, escaped operators), '.', bracket classes with ranges, negation and POSIX
  class expressions (also negated), {-} and {+}, quoted strings, grouping, alternation, concatenation, * + ? {n} {n,} {n,m},
  {NAME} expansion (definitions with a top-level alternation, to exercise the implicit parentheses), (?i: ) (?-i: ) (?s: ),
  %option caseless, inclusive and exclusive start conditions with <SC>, <A,B> and <*> prefixes, ^, $, and r/s with a
  trailing part of fixed length (variable head *and* variable trail is the documented "dangerous trailing context" and is
  left to the hand-written probes).

What is generated is only text; the verdict comes from tbl.compare() exactly as for the hand-written probes.
"""
import random

LIT = ['a', 'b', 'c', 'd', 'A', 'B', '0', '1', '_', r'\n', r'\t', r'\0', r'\x80', r'\xff', r'\101', r'\.', r'\*', r'\+', r'\\', '-', ':', ',']
LEN1_CLASS = ['[abc]', '[a-d]', '[^ab]', '[^a\\n]', '[0-9]', '[A-Ca-c]', '[[:digit:]]', '[[:alpha:]_]', '[[:^space:]]', '[[:upper:]]', '[[:lower:]0]',
              '[[:space:]]', '[[:punct:]]', '[\\x80-\\xff]', '[\\0-\\x1f]', '[^\\0]', '[a-z]{-}[aeiou]', '[a-c]{+}[0-1]', '[[:alnum:]]{-}[[:digit:]]',
              '[^a-z]{-}[A-Z]', '[a-d]{-}[bc]{+}[x]', '[]a]', '[a\\-b]', '[^]]', '[[:xdigit:]]', '[[:^alpha:]]', '[[:blank:]\\n]', '[\\x7f-\\x81]', '[d-f0]']
QUOTED = ['"ab"', '"a b"', '"a+"', '"[x]"', '"if"', '"A\\n"', '"\\0a"', '"(c)"', '"a|b"', '"{D1}"', '"$"', '"^"', '"/*"', '"a\\"b"']

class Gen:
    def __init__(s, rnd, defs, caseless):
        s.r = rnd; s.defs = defs; s.caseless = caseless

    def atom(s, depth, fixed):
        """(text, fixed length or None).  With fixed=True only atoms of a known length are produced."""
        r = s.r; x = r.random()
        if x < 0.34: return r.choice(LIT), 1
        if x < 0.42: return '.', 1
        if x < 0.62: return r.choice(LEN1_CLASS), 1
        if x < 0.70:
            q = r.choice(QUOTED); n = len(eval_quoted(q)); return q, n
        if x < 0.74 and s.defs and not fixed:
            return '{%s}' % r.choice(sorted(s.defs)), None
        if x < 0.80 and depth < 2:
            t, n = s.alt(depth + 1, fixed); f = r.choice(['(?i:%s)', '(?-i:%s)', '(?i:%s)'])
            return f % t, n
        if x < 0.83: return '(?s:.)', 1
        if depth < 2:
            t, n = s.alt(depth + 1, fixed); return '(%s)' % t, n
        return r.choice(LIT), 1

    def rep(s, depth, fixed):
        t, n = s.atom(depth, fixed)
        x = s.r.random()
        if fixed: return t, n          # flex treats every counted repetition and every alternation as variable length
        if x < 0.55: return t, n
        if x < 0.65: return t + '*', None
        if x < 0.75: return t + '+', None
        if x < 0.83: return t + '?', None
        if x < 0.89:
            k = s.r.choice([1, 2, 3]); return t + '{%d}' % k, (n * k if n is not None else None)
        if x < 0.95:
            lo = s.r.choice([0, 1, 2]); return t + '{%d,%d}' % (lo, lo + s.r.choice([1, 2])), None
        return t + '{%d,}' % s.r.choice([1, 2]), None

    def cat(s, depth, fixed):
        k = s.r.choice([1, 1, 2, 2]) if depth else s.r.choice([1, 2, 2, 3, 3])
        parts = [s.rep(depth, fixed) for _ in range(k)]
        n = sum(p[1] for p in parts) if all(p[1] is not None for p in parts) else None
        return ''.join(p[0] for p in parts), n

    def alt(s, depth, fixed):
        k = 1 if (fixed or s.r.random() < 0.7) else 2
        parts = [s.cat(depth, fixed) for _ in range(k)]
        if k == 1: return parts[0]
        n = parts[0][1] if all(p[1] is not None and p[1] == parts[0][1] for p in parts) else None
        if fixed and n is None: return parts[0]
        return '|'.join(p[0] for p in parts), n

def eval_quoted(q):
    """bytes of a quoted string of QUOTED (only the escapes used there)"""
    t = q[1:-1]; out = []; i = 0
    while i < len(t):
        if t[i] == '\\':
            c = t[i + 1]; out.append({'n': 10, '0': 0, '"': 34}.get(c, ord(c))); i += 2
        else: out.append(ord(t[i])); i += 1
    return out

def nullable_text(t):
    """conservative: could the pattern text match the empty string?  (used only to keep nullable heads away from trailing
    context, where the manual leaves the split unspecified)"""
    return any(ch in t for ch in '*?') or '{0' in t or '{D' in t

def gen_spec(seed):
    """(spec text, number of user rules) of generated rule set `seed`"""
    rnd = random.Random(0x5eed0000 + seed)
    caseless = rnd.random() < 0.2
    defs = {}
    L = ['%option noyywrap', '%option 8bit', '%option nodefault'] if False else []
    nd = rnd.choice([0, 0, 1, 2])
    g0 = Gen(rnd, {}, caseless)
    for i in range(nd):
        # a definition; some have a top-level alternation so that the implicit parentheses of {NAME} matter
        t, _ = g0.alt(1, False)
        if not t or t[0] in '^' or t.endswith('$'): t = '[0-1]+'
        defs['D%d' % (i + 1)] = t
    scs = []
    for nm, kind in (('S1', '%s'), ('X1', '%x'), ('X2', '%x')):
        if rnd.random() < 0.35: scs.append((nm, kind))
    if caseless: L.append('%option caseless')
    for n, t in defs.items(): L.append('%s %s' % (n, t))
    for nm, kind in scs: L.append('%s %s' % (kind, nm))
    L.append('%%')
    g = Gen(rnd, defs, caseless)
    nrules = rnd.choice([3, 4, 5, 6, 7, 8, 10, 12])
    for k in range(1, nrules + 1):
        pre = ''
        if scs and rnd.random() < 0.5:
            x = rnd.random()
            if x < 0.2: pre = '<*>'
            elif x < 0.3: pre = '<INITIAL>'
            elif x < 0.45 and len(scs) > 1: pre = '<%s>' % ','.join(nm for nm, _ in rnd.sample(scs, 2))
            else: pre = '<%s>' % rnd.choice(scs)[0]
        bol = '^' if rnd.random() < 0.15 else ''
        head, hn = g.alt(0, False)
        tail = ''
        x = rnd.random()
        if x < 0.10: tail = '$'
        elif x < 0.25 and not nullable_text(head):
            t, tn = g.cat(1, True)
            if tn is not None and tn > 0: tail = '/' + t
        if head[:1] == '^': head = '\\' + head
        if '|' in head and tail.startswith('/'): head = '(%s)' % head
        L.append('%s%s%s%s   { return %d; }' % (pre, bol, head, tail, k))
    L.append('%%')
    return '\n'.join(L) + '\n', nrules

def generated_variants(seeds, tables=('Cem', 'C', 'Cf', 'CF', 'CFe', 'Cem_rej')):
    """probe variants `lang_g<seed>_<tables>[_rej]` for the given rule-set numbers"""
    import variants, tbl_probes
    topt = dict(tbl_probes.TABLEOPTS)
    out = []
    for k in seeds:
        body, _ = gen_spec(k)
        for tn in tables:
            rej = tn.endswith('_rej'); base = tn[:-4] if rej else tn
            opts = ['noyywrap', '8bit'] + topt[base] + (['reject'] if rej else [])
            spec = ''.join('%%option %s\n' % o for o in opts) + body
            out.append(variants.Variant('lang_g%04d_%s' % (k, tn), 'nr', (), opts, raw_spec=spec))
    return out

if __name__ == '__main__':
    import sys
    print(gen_spec(int(sys.argv[1]))[0])
