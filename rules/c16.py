"""C16 - flex is robust on arbitrary input and honest about its exit status (rules over flex's own IR).

R1  every wait()/waitpid() passes a status location that is tested with the WIFEXITED / WEXITSTATUS masks, and the
    failing edges store to a variable that flows into the value returned / exited by the process.
R2  every stream flex opens for writing has a checked flush point (fflush+ferror, ferror+tested fclose, or a tested
    fsetpos) in the function that finishes it, after the last write on every path to a successful exit.
R3  synerr() is the only writer of syntaxerror=true; in readin() the test of syntaxerror lies on every path from
    yyparse() to the return and its true edge ends in flexend(non-zero); success exits exist only where listed.
R4  bounded writes into fixed arrays: no strcat/sprintf/vsprintf/gets/stpcpy; the one strcpy sits behind its capacity
    loop; every strncpy is bounded by its destination and provably terminated; every (v)snprintf is bounded by the
    capacity of its destination.
R5  limits are tested before growth: mkstate() (maximum_mns), new_rule() (MAX_RULE).
R6  flexend(): a non-zero status with a created output file reaches unlink(env.outfilename).
R10 argv is only read below argc: every load of s->argv[E] in the option scanner (and of main's own argv[E]) is reached only
    with 0 <= E < argc, decided by interpreting the function for all small (index, argc); argv[0] needs argc >= 1 only.
R11 growth guards are tight: every test K + k >= C that directly controls the growth of capacity C is interpreted for all
    small (K, C); on the paths that do not grow, every store into an array of C's family with a computable index is below C.
R12 every input file is opened: the first set_input_file() gets input_files[0] (or NULL) once, and yywrap(), interpreted for
    1..5 files, opens *++input_files exactly while files remain and returns 0 iff it opened one.
R8  arrays that share a capacity grow together: for every (capacity global C, array global G) pair derived from the
    allocation sizes in the IR, each function that increases C reallocates G (with a size that reads C) on every
    returning path; the arm where an optional G is null is exempt.
"""
import re
import ir, flow
from ir import Resolver
from common import where, fwhere
from genutil import (fns, srcfile, calls, cls, const_str, cstring, lin, array_len, branch_edges, edge_dominates, truth_edges, immutable_flag_filter, all_cstrings,
                     selftest_program, Collect, expect_control, reach_fns, is_elem_of_global, canon_field)

# ================================================================ shared

def ordinal(call):
    """k-th call to the same callee inside its function (stable against edits elsewhere)"""
    k = 0
    for x in call.fn.ins:
        if x is call: return k
        if x.op in ('call', 'invoke') and x.callee == call.callee: k += 1
    return k

def key(rule, ins_or_fn, construct):
    f = ins_or_fn.fn if isinstance(ins_or_fn, ir.Ins) else ins_or_fn
    return '%s:%s:%s:%s' % (rule, srcfile(f), f.name, construct)

def loads_in_slice(fn, v, res):
    return [(d, res.loc(d.ops[0])) for d in flow.value_slice(fn, v) if d.op == 'load']

def success_exit_calls(prog, fn):
    """calls in fn that end the process / the forked child with status 0: flexend(0), exit(0), _exit(0),
    longjmp(flex_main_jmp_buf, 1) (= FLEX_EXIT(0))"""
    out = []
    for x in fn.ins:
        if x.op != 'call' or not isinstance(x.callee, str): continue
        if x.callee in ('flexend', 'exit', '_exit') and x.ops and x.ops[0] == ('int', 0): out.append(x)
        if x.callee in ('longjmp', '_longjmp', 'siglongjmp') and len(x.ops) == 2 and x.ops[1] == ('int', 1): out.append(x)
    return out

# ================================================================ R1

WAITS = {'wait': 0, 'waitpid': 1, 'wait3': 0, 'wait4': 1}

def flows_to_exit(prog, fn, loc, frm, res):
    """the value stored at local `loc` reaches (through copies / arithmetic into other locals) the operand of a `ret`
    or an argument of a no-return call that is reachable from instruction `frm`"""
    cfg = prog.cfg(fn); nr = prog.noreturn()
    tainted = {loc}
    changed = True
    while changed:
        changed = False
        for s in fn.ins:
            if s.op != 'store': continue
            t = res.loc(s.ops[1])
            if t in tainted or t[0] != 'local': continue
            if any(l in tainted for _, l in loads_in_slice(fn, s.ops[0], res)):
                tainted.add(t); changed = True
    for x in cfg.reach(frm):
        if x.op == 'ret' and x.ops and any(l in tainted for _, l in loads_in_slice(fn, x.ops[0], res)): return x
        if x.op == 'call' and isinstance(x.callee, str) and x.callee in nr:
            for a in x.ops:
                if any(l in tainted for _, l in loads_in_slice(fn, a, res)): return x
    return None

def r1(prog, rep):
    n = 0
    for f in fns(prog):
        ws = [c for c in f.ins if c.op == 'call' and c.callee in WAITS]
        if not ws: continue
        res = Resolver(f); cfg = prog.cfg(f); ucfg = prog.cfg(f, cut=False)
        for c in ws:
            n += 1
            k = key('C16.R1', c, c.callee)
            a = c.ops[WAITS[c.callee]]
            loc = None if a[0] in ('null', 'int') else res.loc(a)
            if loc is None or loc[0] not in ('local', 'global'):
                rep.fail('C16.R1', k, where(c), '%s() is called with a null status pointer in %s: the exit statuses of the children '
                         'reaped here are discarded and cannot reach the exit status of this process' % (c.callee, f.name),
                         replay_input='flex --header-file=/dev/full x.l   (prints "error writing output file", exits 0)')
                continue
            after = cfg.reach(c)
            loads = {x for x in after if x.op == 'load' and res.loc(x.ops[0]) == loc}
            tests = {'WIFEXITED': [], 'WEXITSTATUS': []}
            for b in f.blocks:
                br = b.ins[-1]
                if br.op != 'br' or not br.ops or br not in after: continue
                sl = flow.value_slice(f, br.ops[0])
                if not any(x in loads for x in sl): continue
                masks = {x.ops[1][1] for x in sl if x.op == 'and' and x.ops[1][0] == 'int'}
                # a predicate helper (static int child_failed(int st)) that receives the status: its masks count
                for x in sl:
                    g = prog.fn(x.callee) if x.op == 'call' and isinstance(x.callee, str) else None
                    if g is not None and any(any(y in loads for y in flow.value_slice(f, a)) for a in x.ops):
                        masks |= {y.ops[1][1] for y in g.ins if y.op == 'and' and y.ops[1][0] == 'int'}
                if 127 in masks: tests['WIFEXITED'].append(br)
                if 65280 in masks: tests['WEXITSTATUS'].append(br)
            missing = [t for t, v in tests.items() if not v]
            if missing:
                rep.fail('C16.R1', k, where(c), 'status written by %s() in %s is not examined with %s' % (c.callee, f.name, ' / '.join(missing)))
                continue
            effect = None
            for s in f.ins:
                if s.op != 'store' or s not in after: continue
                deps = {b for b, _ in ucfg.control_deps_closure(s.blk)}
                if not (deps & set(tests['WIFEXITED'])) or not (deps & set(tests['WEXITSTATUS'])): continue
                t = res.loc(s.ops[1])
                if t[0] != 'local': continue
                sink = flows_to_exit(prog, f, t, s, res)
                if sink is not None: effect = (s, t, sink); break
            if effect is None:
                rep.fail('C16.R1', k, where(c), 'a child that was killed or exited non-zero does not change the status %s returns/exits with: '
                         'no store controlled by both the WIFEXITED and the WEXITSTATUS test reaches a return value or an exit argument' % f.name)
            else:
                s, t, sink = effect
                verdict = status_word_verdict(prog, f, c, loc, t)
                if verdict[0]:
                    rep.ok('C16.R1', '%s %s(&%s)@%s: WIFEXITED@%s WEXITSTATUS@%s -> %s=...@%s -> %s@%s; evaluated: %s' % (
                        f.name, c.callee, loc[1], c.line, tests['WIFEXITED'][0].line, tests['WEXITSTATUS'][0].line, t[1], s.line,
                        sink.op if sink.op == 'ret' else sink.callee, sink.line, verdict[1]))
                else:
                    rep.fail('C16.R1', k, where(c), 'the child-status test after %s() in %s has the wrong truth table: %s' % (c.callee, f.name, verdict[1]),
                             replay_input='kill the m4 child with SIGKILL (e.g. M4=/path/to/script that does `kill -9 $$`): flex must not exit 0')
    return n

# status words as wait() delivers them (glibc encoding): low 7 bits = terminating signal, 0x80 = core, bits 8..15 = exit code
STATUS_FAIL = [(0x0100, 'exit(1)'), (0xff00, 'exit(255)'), (9, 'killed by SIGKILL'), (0x8b, 'SIGSEGV with core dump'), (15, 'killed by SIGTERM')]

def _process_status(outcome):
    """exit status of the process for an evaluation outcome: int, ('sym', ..) or None (path cannot continue)"""
    if outcome[0] == 'ret': return outcome[1]
    if outcome[0] == 'exit':
        callee, av = outcome[1], outcome[2]
        if callee in ('longjmp', '_longjmp', 'siglongjmp'):        # FLEX_EXIT(n) is longjmp(flex_main_jmp_buf, n + 1)
            v = av[1] if len(av) > 1 else ('sym', '?')
            return v - 1 if isinstance(v, int) else v
        if callee in ('exit', '_exit', 'flexend'): return av[0] if av else ('sym', '?')
        return 1                                                   # flexerror / lerr / flexfatal ...: error exits
    return None

def status_word_verdict(prog, f, call, status_loc, t):
    """Concrete evaluation of f from the wait call: the call delivers status word w once, then reports no more children.
    With the status variable t at its success baseline, word 0 must end in process status 0 and every failing word
    (non-zero exit code, death by signal) in a non-zero process status on every path.  Returns (ok, text);
    raises AnalysisBroken when the code cannot be evaluated."""
    from common import AnalysisBroken
    from genutil import MiniEval, EvalUnknown
    skey = flow._freeze(status_loc); tkey = flow._freeze(t)
    def run(w, t0):
        seen = {'n': 0}
        def hook(x, av, mem):
            if x is call:
                seen['n'] += 1
                if seen['n'] == 1: mem[skey] = w; return 4242
                return -1
            return None
        ev = MiniEval(prog, hook)
        outs = ev.run(f, call.blk, call.idx, {}, {tkey: t0})
        return [st for st in (_process_status(o) for o in outs) if st is not None]
    try:
        base = None; always_fail = False
        for t0 in (0, 1, 2, -1):
            sts = run(0, t0)
            if sts and all(st == 0 for st in sts): base = t0; break
            if sts and all(isinstance(st, int) and st != 0 for st in sts) and t0 in (0, 1): always_fail = True
        if base is None:
            if always_fail: return (False, 'a child that exited with status 0 makes %s end with a non-zero status' % f.name)
            raise AnalysisBroken('C16.R1: cannot find the value of %s for which %s ends with status 0 after a child exited 0' % (t[1], f.name))
        bad = []
        for w, what in STATUS_FAIL:
            sts = run(w, base)
            if not sts or any(not isinstance(st, int) for st in sts):
                raise AnalysisBroken('C16.R1: the process status of %s after a child %s is not a constant on some path' % (f.name, what))
            if any(st == 0 for st in sts): bad.append('%s (status word 0x%04x) still ends in exit status 0' % (what, w))
        if bad: return (False, '; '.join(bad))
        return (True, 'word 0 -> 0; %s -> non-zero' % ', '.join('0x%04x' % w for w, _ in STATUS_FAIL))
    except EvalUnknown as e:
        raise AnalysisBroken('C16.R1: cannot evaluate %s from the wait call (%s)' % (f.name, e))

# ================================================================ R2

OPENERS = {'fopen': (1, None), 'fdopen': (1, None), 'freopen': (1, 2), 'fopen64': (1, None), 'freopen64': (1, 2)}
# libc output calls -> index of the FILE* argument
WRITERS = {'fputs': 1, 'fputc': 1, 'putc': 1, '_IO_putc': 1, 'fwrite': 3, 'fprintf': 0, 'vfprintf': 0, 'fputs_unlocked': 1, 'putc_unlocked': 1}
# main process only: at exit its stdout is the pipe into the filter chain (filter_apply_chain dup2()s it); a filter that
# cannot write exits non-zero and R1 folds that into the exit status.
R2_CLOSE_EXCEPT = {('flex_main', ('global', 'stdout')): 'stdout of the main process is the pipe to the filter chain at this point; '
                                                        'write failures surface as a non-zero child status (R1)'}

def stream_class(prog, fn, v, res, alias):
    """class of the FILE* value v inside fn: a location class; locals that only ever hold `stdout` are stdout"""
    v = flow.strip_casts(fn, v)
    d = fn.def_of(v)
    if d is None or d.op != 'load': return None
    c = cls(prog, res.loc(d.ops[0]))
    if c in alias: c = alias[c]
    if c and c[0] == 'local': return ('local', fn.name, c[1])
    return c

def local_aliases(prog, fn, res):
    """local FILE* variables all of whose non-null stores copy one global stream: {('local',x): ('global',g)}"""
    st = {}
    for x in fn.ins:
        if x.op == 'store':
            t = res.loc(x.ops[1])
            if t[0] == 'local': st.setdefault(t, []).append(x)
    out = {}
    for t, ss in st.items():
        src = set()
        for s in ss:
            if s.ops[0] == ('null',): continue
            d = fn.def_of(flow.strip_casts(fn, s.ops[0]))
            if d is not None and d.op == 'load' and res.loc(d.ops[0])[0] == 'global': src.add(res.loc(d.ops[0]))
            else: src.add(None)
        if len(src) == 1 and None not in src:
            g = next(iter(src))
            if g[1] in ('stdout', 'stderr'): out[t] = g
    return out

def result_branches(fn, call):
    """conditional branches whose condition is the (cast / compared-with-zero) result of `call`:
    list of (br, label_if_result_nonzero, label_if_result_zero)"""
    out = []
    for b in fn.blocks:
        br = b.ins[-1] if b.ins else None
        if br is None or br.op != 'br' or len(br.targets) != 2: continue
        te = truth_edges(fn, br)
        if te is None: continue
        v = flow.int_origin(fn, te[0])
        if v == ('reg', call.res): out.append((br, te[1], te[2]))
    return out

def tested_failure_is_fatal(prog, fn, call, cfg):
    """the int result of `call` controls a branch whose non-zero edge cannot reach a `ret` or a success exit
    (it ends in a no-return error function).  Returns the branch or None."""
    succ = set(success_exit_calls(prog, fn))
    for br, nz, z in result_branches(fn, call):
        sub = cfg.reach_from_block(fn.bmap[nz])
        if not any(x.op == 'ret' or x in succ for x in sub) and any(b in cfg.cut for b in {x.blk for x in sub}):
            return br
    return None

def zero_edge_block(fn, br):
    return fn.bmap[truth_edges(fn, br)[2]]

def flush_points(prog, fn, res, alias, writers_of):
    """checked flush points in fn, per stream class: list of (class, anchor instruction, kind, barrier set).
    kind A: ferror(S) tested fatal, preceded by fflush(S) on every path from any write to S
    kind B: ferror(S) tested fatal, and on its zero edge a fclose(S) whose result is tested fatal
    kind C: fsetpos(S, ..) whose result is tested (failure edge fatal or error return)"""
    cfg = prog.cfg(fn)
    out = []
    for c in fn.ins:
        if c.op != 'call': continue
        if c.callee == 'ferror':
            S = stream_class(prog, fn, c.ops[0], res, alias)
            if S is None: continue
            br = tested_failure_is_fatal(prog, fn, c, cfg)
            if br is None: continue
            zb = zero_edge_block(fn, br)
            closes = [x for x in cfg.reach_from_block(zb) if x.op == 'call' and x.callee == 'fclose' and stream_class(prog, fn, x.ops[0], res, alias) == S]
            good_close = [x for x in closes if tested_failure_is_fatal(prog, fn, x, cfg) is not None]
            flushes = [x for x in fn.ins if x.op == 'call' and x.callee == 'fflush' and stream_class(prog, fn, x.ops[0], res, alias) == S and cfg.ins_dominates(x, c)]
            # no write to S between the fflush and the ferror
            flushes = [x for x in flushes if not any(w in cfg.reach(x, avoid=[c]) and c in cfg.reach(w) for w in writers_of(S))]
            if good_close: out.append((S, c, 'ferror+fclose', good_close))
            elif flushes: out.append((S, c, 'fflush+ferror', flushes))
        elif c.callee in ('fsetpos', 'fsetpos64'):
            S = stream_class(prog, fn, c.ops[0], res, alias)
            if S is None: continue
            if tested_error_edge(prog, fn, c, cfg): out.append((S, c, 'tested fsetpos', [c]))
    return out

def error_return_stores(fn):
    """stores of a negative constant / null to the return slot: the path through them is an error return"""
    return [x for x in fn.ins if x.op == 'store' and x.ops[1] == ('reg', 'retval') and x.ops[0][0] == 'int' and x.ops[0][1] < 0]

def tested_error_edge(prog, fn, call, cfg):
    """result of call controls a branch whose non-zero edge is fatal or stores a negative constant to the return slot"""
    if tested_failure_is_fatal(prog, fn, call, cfg) is not None: return True
    errs = set(error_return_stores(fn))
    for br, nz, z in result_branches(fn, call):
        # every path from the failure edge to a ret passes an error-return store or is cut by a no-return call
        sub = cfg.reach_from_block(fn.bmap[nz], avoid=errs)
        if not any(x.op == 'ret' for x in sub): return True
    return False

def r2(prog, rep, except_close=R2_CLOSE_EXCEPT):
    """returns number of instances"""
    n = 0
    info = {}
    for f in fns(prog):
        res = Resolver(f); info[f] = (res, local_aliases(prog, f, res))
    # functions that write to a stream class directly
    direct = {}      # class -> {fn: [write calls]}
    for f in fns(prog):
        res, alias = info[f]
        for x in f.ins:
            if x.op == 'call' and x.callee in WRITERS and len(x.ops) > WRITERS[x.callee]:
                S = stream_class(prog, f, x.ops[WRITERS[x.callee]], res, alias)
                if S is not None: direct.setdefault(S, {}).setdefault(f, []).append(x)
    def writers_in(f, S):
        """write events for class S inside f: direct libc writes plus calls to functions that write S directly
        (field classes only: the tables writer's helpers)"""
        w = list(direct.get(S, {}).get(f, []))
        if S[0] == 'field':
            names = {g.name for g in direct.get(S, {})}
            # helpers that call those helpers (yytbl_write_pad64 -> yytbl_write8)
            grew = True
            while grew:
                grew = False
                for g in fns(prog):
                    if g.name not in names and g is not f and any(x.op == 'call' and x.callee in names for x in g.ins) and g.mod is f.mod and g.name.startswith('yytbl_write'):
                        names.add(g.name); grew = True
            w += [x for x in f.ins if x.op == 'call' and x.callee in names]
        return w
    fps = {}         # class -> [(fn, anchor, kind, barrier)]
    for f in fns(prog):
        res, alias = info[f]
        for S, c, kind, bar in flush_points(prog, f, res, alias, lambda S_, f=f: writers_in(f, S_)):
            fps.setdefault(S, []).append((f, c, kind, bar))
    # ---- (a) opens
    wclasses = set()
    for f in fns(prog):
        res, alias = info[f]
        for o in f.ins:
            if o.op != 'call' or o.callee not in OPENERS: continue
            mi, si = OPENERS[o.callee]
            mode = cstring(f.mod, o.ops[mi]) if len(o.ops) > mi else None
            if mode is None:
                rep.fail('C16.R2', key('C16.R2', o, 'open:%s#%d' % (o.callee, ordinal(o))), where(o), 'mode argument of %s is not a literal' % o.callee); n += 1; continue
            if not re.search(r'[wa+]', mode): continue
            n += 1
            S = None
            if si is not None: S = stream_class(prog, f, o.ops[si], res, alias)
            else:
                # class of the location the result is stored to / passed to
                uses = f.uses(); work = [o.res]; seen = set()
                while work and S is None:
                    r = work.pop()
                    if r in seen: continue
                    seen.add(r)
                    for u in uses.get(r, []):
                        if u.op == 'bitcast': work.append(u.res)
                        elif u.op == 'store' and u.ops[0] == ('reg', r):
                            c = cls(prog, res.loc(u.ops[1]))
                            if c[0] == 'local':
                                # a local that is only handed on (tablesout -> yytbl_writer_init(&tableswr, tablesout)): follow its loads
                                passed = None
                                for l in f.ins:
                                    if l.op == 'load' and res.loc(l.ops[0]) == ('local', c[1]):
                                        for u2 in uses.get(l.res, []):
                                            if u2.op == 'call' and isinstance(u2.callee, str) and prog.fn(u2.callee) is not None and u2.callee not in WRITERS:
                                                passed = stored_class_of_param(prog, prog.fn(u2.callee), u2.ops.index(('reg', l.res)))
                                S = passed or ('local', f.name, c[1])
                            else: S = c
                            break
            kk = key('C16.R2', o, 'open:%s:%s' % (o.callee, class_str(S)))
            if S is None:
                rep.fail('C16.R2', kk, where(o), 'cannot determine where the stream opened by %s is kept' % o.callee); continue
            wclasses.add(S)
            pts = fps.get(S, [])
            if S[0] == 'local': pts = [p for p in pts if p[0] is f]
            if not pts:
                rep.fail('C16.R2', kk, where(o), 'stream %s is opened for writing ("%s") in %s but no function checks it for write errors at a flush point '
                         '(fflush+ferror, ferror+tested fclose, or a tested fsetpos): a failed write would still end in exit status 0' % (class_str(S), mode, f.name))
            else:
                rep.ok('C16.R2', 'open %s(%s,"%s")@%s in %s: flush point %s' % (o.callee, class_str(S), mode, o.line, f.name,
                       ', '.join('%s@%s:%s' % (k_, g.name, c.line) for g, c, k_, _ in pts)))
    # ---- (b) every function that finishes a write stream: writes are followed by a flush point; every fclose is checked
    for S in sorted(wclasses, key=str):
        for f in fns(prog):
            res, alias = info[f]
            pts = [p for p in fps.get(S, []) if p[0] is f]
            closes = [x for x in f.ins if x.op == 'call' and x.callee == 'fclose' and stream_class(prog, f, x.ops[0], res, alias) == S]
            if not pts and not closes: continue
            cfg = prog.cfg(f)
            for cl in closes:
                n += 1
                kk = key('C16.R2', cl, 'fclose:%s' % class_str(S))
                ex = except_close.get((f.name, S))
                good = any(cl in bar for _, _, kind, bar in pts if kind == 'ferror+fclose') or \
                       any(kind == 'fflush+ferror' and cfg.ins_dominates(c, cl) and cl in cfg.reach_from_block(zero_edge_block(f, tested_failure_is_fatal(prog, f, c, cfg)))
                           for _, c, kind, _ in pts)
                if good:
                    rep.ok('C16.R2', '%s fclose(%s)@%s: behind a fatal ferror test' % (f.name, class_str(S), cl.line))
                elif ex:
                    rep.ok('C16.R2', '%s fclose(%s)@%s: excepted - %s' % (f.name, class_str(S), cl.line, ex))
                else:
                    rep.fail('C16.R2', kk, where(cl), '%s closes the output stream %s without a preceding ferror() test whose failure is fatal '
                             '(or does not test the fclose result): a write error on this stream is lost' % (f.name, class_str(S)))
            if not pts: continue
            anchors = set()
            for _, c, kind, bar in pts: anchors.add(c)
            succ = set(success_exit_calls(prog, f))
            errs = set(error_return_stores(f))
            for w in writers_in(f, S):
                n += 1
                filt, facts = immutable_flag_filter(f, w, res)
                r_ = cfg.reach(w, avoid=anchors | errs, edge_filter=filt)
                leak = [x for x in r_ if x.op == 'ret' or x in succ]
                kk = key('C16.R2', w, 'write:%s:%s#%d' % (class_str(S), w.callee, ordinal(w)))
                if leak:
                    p = cfg.path(w, lambda x: x is leak[0], avoid=anchors | errs, edge_filter=filt)
                    rep.fail('C16.R2', kk, where(w), 'in %s a write to %s can reach a successful return/exit (%s) without passing the checked flush point' % (
                             f.name, class_str(S), where(leak[0])), witness=['%s:%s' % (x.blk.name, x.line) for x in (p or [])])
                else:
                    rep.ok('C16.R2', '%s %s(%s)@%s -> flush point %s' % (f.name, w.callee, class_str(S), w.line, ','.join(str(a.line) for a in sorted(anchors, key=lambda a: a.line or 0))))
    return n

def stored_class_of_param(prog, g, idx):
    """class of the non-local location function g stores its idx-th parameter to (yytbl_writer_init: wr->out = out)"""
    if g is None or idx >= len(g.params): return None
    res = Resolver(g); pn = g.params[idx][1]
    for x in g.ins:
        if x.op == 'store':
            d = g.def_of(flow.strip_casts(g, x.ops[0]))
            if d is not None and d.op == 'load' and res.loc(d.ops[0]) == ('local', pn + '.addr'):
                c = cls(prog, res.loc(x.ops[1]))
                if c[0] in ('field', 'global'): return c
    return None

def class_str(S):
    if S is None: return '?'
    if S[0] == 'global': return S[1]
    if S[0] == 'field': return '%s.%s' % (S[1], S[2])
    if S[0] == 'local': return '%s' % S[2]
    return str(S)

# ================================================================ R3

# process-success exits that are legitimate: (function, callee) -> why
SUCCESS_EXITS = {
    ('flex_main', 'flexend'): 'the one normal end of a run',
    ('flexinit', 'longjmp'): '--help / --version, before any input is read',
    ('filter_apply_chain', 'longjmp'): 'forked filter child after its filter function returned success',
    ('filter_tee_header', 'longjmp'): 'forked tee child after both branches were flushed and checked',
}

def r3(prog, rep, success_exits=SUCCESS_EXITS, anchors=True):
    n = 0
    # (a) writers of syntaxerror
    for f in fns(prog):
        res = Resolver(f)
        for x in f.ins:
            if x.op == 'store' and res.loc(x.ops[1]) == ('global', 'syntaxerror'):
                n += 1
                v = x.ops[0]
                if v == ('int', 0):
                    if f.name in ('flexinit',): rep.ok('C16.R3', 'syntaxerror=false in %s@%s (initialisation)' % (f.name, x.line))
                    else: rep.fail('C16.R3', key('C16.R3', x, 'syntaxerror=false'), where(x), '%s clears syntaxerror: an error already reported would be forgotten and flex could exit 0' % f.name)
                elif f.name == 'synerr' and v[0] == 'int' and v[1] != 0:
                    rep.ok('C16.R3', 'syntaxerror=true in synerr@%s' % x.line)
                else:
                    rep.fail('C16.R3', key('C16.R3', x, 'syntaxerror-store'), where(x), '%s writes syntaxerror; only synerr() may set it' % f.name)
    # (b) readin: test after yyparse
    rd = prog.fn('readin')
    if rd is None:
        if anchors: rep.broken('C16.R3: function readin() not found')
        return n
    cfg = prog.cfg(rd); res = Resolver(rd)
    yp = calls(rd, 'yyparse')
    if not yp:
        if anchors: rep.broken('C16.R3: readin() no longer calls yyparse()')
        return n
    tests = []
    for b in rd.blocks:
        br = b.ins[-1]
        te = truth_edges(rd, br) if br.op == 'br' else None
        if te is None: continue
        d = rd.def_of(flow.int_origin(rd, te[0]))
        if d is None or d.op != 'load' or res.loc(d.ops[0]) != ('global', 'syntaxerror'): continue
        tests.append((br, te[1]))
    n += 1
    kk = key('C16.R3', rd, 'syntaxerror-test')
    good = None
    for br, tl in tests:
        tb = rd.bmap[tl]
        sub = cfg.reach_from_block(tb)
        fe = [x for x in tb.ins if x.op == 'call' and x.callee == 'flexend']
        if any(x.op == 'ret' for x in sub): continue
        if not fe or fe[0].ops[0][0] != 'int' or fe[0].ops[0][1] == 0: continue
        if any(x.op == 'ret' for x in cfg.reach(yp[0], avoid=[br])): continue
        good = (br, fe[0]); break
    if good:
        rep.ok('C16.R3', 'readin: every path from yyparse()@%s to the return passes `if (syntaxerror)`@%s whose true edge calls flexend(%d)@%s' % (
            yp[0].line, good[0].line, good[1].ops[0][1], good[1].line))
    else:
        p = cfg.path(yp[0], lambda x: x.op == 'ret', avoid=[br for br, _ in tests])
        rep.fail('C16.R3', kk, where(yp[0]), 'readin() can return after yyparse() without testing syntaxerror with a true edge that ends in flexend(non-zero): '
                 'a specification with syntax errors would be turned into a scanner and flex would exit 0',
                 witness=['%s:%s' % (x.blk.name, x.line) for x in (p or [])], replay_input='%%\n"a  ECHO;\n%%   (unterminated quote)')
    # yyparse() != 0 edge
    n += 1
    ypt = tested_failure_is_fatal(prog, rd, yp[0], cfg)
    if ypt is not None: rep.ok('C16.R3', 'readin: non-zero yyparse() result is fatal (branch@%s)' % ypt.line)
    else: rep.fail('C16.R3', key('C16.R3', rd, 'yyparse-result'), where(yp[0]), 'a non-zero result of yyparse() does not end the run with a non-zero status')
    # (c) success exits
    for f in fns(prog):
        for x in success_exit_calls(prog, f):
            n += 1
            why = success_exits.get((f.name, x.callee if x.callee not in ('_longjmp', 'siglongjmp') else 'longjmp'))
            if why: rep.ok('C16.R3', 'success exit %s(…0)@%s in %s: %s' % (x.callee, x.line, f.name, why))
            else: rep.fail('C16.R3', key('C16.R3', x, 'success-exit:%s' % x.callee), where(x), '%s ends the process with status 0 outside the listed places; '
                           'an exit 0 that bypasses the syntaxerror test and the output checks makes the status dishonest' % f.name)
    fm = prog.fn('flex_main')
    if fm is not None:
        c = prog.cfg(fm); rdc = calls(fm, 'readin'); fe = [x for x in calls(fm, 'flexend')]
        for x in fe:
            n += 1
            if rdc and c.ins_dominates(rdc[0], x): rep.ok('C16.R3', 'flex_main: flexend@%s is dominated by readin()@%s' % (x.line, rdc[0].line))
            else: rep.fail('C16.R3', key('C16.R3', fm, 'flexend-before-readin'), where(x), 'flex_main can reach flexend() without having run readin()')
    return n

# ================================================================ R4

BANNED = ('strcat', 'sprintf', 'vsprintf', 'gets', 'stpcpy', '__strcat_chk', '__sprintf_chk', '__vsprintf_chk', '__stpcpy_chk')
STRNCPY_EXCEPT = {}
SNPRINTF_EXCEPT = {
    'regmatch_cpy': 'destination is the caller\'s buffer; its only caller regmatch_strtol() passes buf[20] after testing regmatch_len(m) < sizeof buf, and neither is called by flex',
}
STRNCAT_EXCEPT = {
    'filter_fix_linedirs': 'appends the literal "\\n" to buf[4096] right after snprintf(buf, 4096, <#line template>, lineno, filename[<=2048]) - the text is < 2100 bytes',
}

# A buffer that may hold a string as long as the bound but is excepted, with the mechanical precondition that keeps the
# exception honest:  (function, array) -> (reason, precondition(prog) -> bool)
def _skelfile_never_assigned(prog):
    for f in fns(prog):
        res = Resolver(f)
        for x in f.ins:
            if x.op == 'store' and cls(prog, res.loc(x.ops[1])) == ('field', 'env_bundle_t', 'skelfile'): return False
    return True
SOURCE_ARRAY_EXCEPT = {
    ('skelout', 'buf_storage'): ('filled only by fgets(buf, MAXLINE, env.skelfile); env.skelfile is never assigned (D14: -S has no effect), so the arm is dead', _skelfile_never_assigned),
}

def skeleton_line_max(prog):
    """(longest line, number of lines) over the compiled-in skeleton arrays (<x>_skel: arrays of string pointers)"""
    best = -1; cnt = 0
    for m in prog.modules:
        for g in m.globals.values():
            if not g.name.endswith('_skel') or g.ty is None or g.ty.k != 'arr' or g.init is None: continue
            for nm in set(ir.globs_in(g.init)):
                sg = m.globals.get(nm)
                if sg is None or sg.ty is None or sg.ty.k != 'arr': continue
                cnt += 1; best = max(best, sg.ty.a - 1)
    return best, cnt

def bounded_string(prog, fn, v, bound, depth=0):
    """(ok, why): the C string v points to is shorter than `bound` bytes for every caller.
    literal: strlen < bound;  fixed char array of N <= bound (holds a terminated string of at most N-1 bytes);
    parameter: every call site of fn passes a bounded string (depth <= 3);  local pointer variable: every value assigned
    to it is bounded;  element of a back end's skel[] array: the longest compiled-in skeleton line is shorter."""
    s = const_str(fn, v)
    if s is not None:
        return (len(s.encode('latin-1', 'replace')) < bound, 'literal of %d bytes' % len(s))
    al = array_len(fn, v)
    if al is not None:
        if al[0] * al[1] <= bound: return (True, 'array %s[%d]' % (al[2][1], al[0]))
        ex = SOURCE_ARRAY_EXCEPT.get((fn.name, al[2][1]))
        if ex is not None and ex[1](prog): return (True, 'array %s[%d] excepted: %s' % (al[2][1], al[0], ex[0]))
        return (False, 'array %s[%d], which can hold a string of %d bytes' % (al[2][1], al[0], al[0] * al[1] - 1))
    d = fn.def_of(flow.strip_casts(fn, v))
    res = Resolver(fn)
    if d is not None and d.op == 'load':
        l = res.loc(d.ops[0])
        if l[0] == 'elem' and l[1][0] == 'deref' and ir.field_of(l[1][1]) == ('flex_backend_t', 'skel'):
            mx, cnt = skeleton_line_max(prog)
            if cnt < 1000: return (False, 'a skeleton line, but the skeleton arrays were not found')
            return (mx < bound, 'skeleton line (longest of %d compiled-in lines: %d bytes)' % (cnt, mx))
        if l[0] == 'local' and l[1].endswith('.addr') and fn.is_param(l[1][:-5]):
            # the parameter slot must not be reassigned
            st = [x for x in fn.ins if x.op == 'store' and res.loc(x.ops[1]) == l]
            if len(st) != 1 or depth >= 3: return (False, 'parameter %s (reassigned or too deep)' % l[1][:-5])
            idx = [i for i, (_, nm) in enumerate(fn.params) if nm == l[1][:-5]][0]
            sites = prog.callers(fn.name)
            if not sites: return (False, 'parameter %s of a function without direct callers' % l[1][:-5])
            whys = []
            for c in sites:
                ok, why = bounded_string(prog, c.fn, c.ops[idx], bound, depth + 1)
                if not ok: return (False, 'call %s passes %s' % (where(c), why))
                whys.append(why)
            return (True, '%d call sites, each a short literal/array' % len(sites))
        if l[0] == 'local' and depth < 3:
            st = [x for x in fn.ins if x.op == 'store' and res.loc(x.ops[1]) == l]
            if not st: return (False, 'an uninitialised pointer variable')
            whys = []
            for x in st:
                ok, why = bounded_string(prog, fn, x.ops[0], bound, depth + 1)
                if not ok: return (False, '%s = %s' % (l[1], why))
                whys.append(why)
            return (True, '%s is one of: %s' % (l[1], '; '.join(whys)))
    return (False, 'a value of unknown length')

def src_length_guard(prog, fn, call, src, n, res):
    """a branch edge dominating `call` that implies strlen(src) < n.  Recognised length expressions for src:
    yyleng - k for src = yytext + k (scanner invariant: yytext[yyleng] == 0), strlen(src'), a local assigned strlen(src')
    where src' is the same value as src."""
    cfg = prog.cfg(fn)
    sv = flow.strip_casts(fn, src)
    k = 0; base = fn.def_of(sv)
    if base is not None and base.op == 'getelementptr' and len(base.ops) == 2 and base.ops[1][0] == 'int':
        k = base.ops[1][1]; base = fn.def_of(flow.strip_casts(fn, base.ops[0]))
    if base is None or base.op != 'load': return None
    sloc = res.loc(base.ops[0])
    for b in fn.blocks:
        br = b.ins[-1]
        be = branch_edges(fn, br) if br.op == 'br' else None
        if be is None: continue
        ic, t, f_ = be
        if ic.pred not in ('slt', 'ult', 'sle', 'ule', 'sge', 'uge', 'sgt', 'ugt'): continue
        a, c_ = ic.ops
        if c_[0] != 'int': continue
        if ic.pred in ('slt', 'ult'): lab, lim = t, c_[1]
        elif ic.pred in ('sle', 'ule'): lab, lim = t, c_[1] + 1
        elif ic.pred in ('sge', 'uge'): lab, lim = f_, c_[1]
        else: lab, lim = f_, c_[1] + 1
        if not edge_dominates(cfg, fn, br, lab, call): continue
        la = lin(fn, a, res)
        if la is None: continue
        const = la.get(1, 0); atoms = {x: y for x, y in la.items() if x != 1}
        if len(atoms) != 1 or list(atoms.values()) != [1]: continue
        atom = next(iter(atoms))
        bound = None
        if sloc == ('global', 'yytext') and atom == ('load', ('global', 'yyleng')) and const == -k and k >= 0:
            bound = lim                        # strlen(yytext + k) <= yyleng - k < lim
        elif atom[0] == 'reg':
            d = fn.def_of(('reg', atom[1]))
            if d is not None and d.op == 'call' and d.callee == 'strlen' and k == 0 and const == 0:
                d2 = fn.def_of(flow.strip_casts(fn, d.ops[0]))
                if d2 is not None and d2.op == 'load' and res.loc(d2.ops[0]) == sloc: bound = lim
        if bound is None or bound > n: continue
        # nothing between the test and the copy changes the pointer or the length
        mid = cfg.reach_from_block(fn.bmap[lab], avoid=[call])
        if any(x.op == 'store' and res.loc(x.ops[1]) in (sloc, ('global', 'yyleng')) for x in mid if call in cfg.reach(x)): continue
        return (br, bound)
    return None

def heap_capacity(prog, fn, dst, before, res):
    """linear form of the byte capacity of the heap block pointer value dst points to, when dst is a load of a location
    whose reaching store is the result of malloc/calloc/realloc in the same function; else None"""
    cfg = prog.cfg(fn)
    d = fn.def_of(flow.strip_casts(fn, dst))
    if d is None or d.op != 'load': return None
    P = res.loc(d.ops[0])
    sts = [x for x in fn.ins if x.op == 'store' and flow._freeze(res.loc(x.ops[1])) == flow._freeze(P) and cfg.ins_dominates(x, before)]
    # the last dominating store with no other store to P between it and the use
    for s in sts:
        others = [x for x in cfg.reach(s, avoid=[before]) if x.op == 'store' and x is not s and flow._freeze(res.loc(x.ops[1])) == flow._freeze(P) and before in cfg.reach(x)]
        if others: continue
        a = fn.def_of(flow.strip_casts(fn, s.ops[0]))
        if a is None or a.op != 'call': return None
        if a.callee == 'malloc': cap = lin(fn, a.ops[0], res)
        elif a.callee == 'calloc':
            x1 = lin(fn, a.ops[0], res); x2 = lin(fn, a.ops[1], res)
            if x1 is None or x2 is None: return None
            if set(x2) <= {1}: cap = {k_: v * x2.get(1, 0) for k_, v in x1.items()}
            elif set(x1) <= {1}: cap = {k_: v * x1.get(1, 0) for k_, v in x2.items()}
            else: return None
        elif a.callee == 'realloc': cap = lin(fn, a.ops[1], res)
        else: return None
        if cap is None: return None
        # the variables the size is made of are not reassigned between the allocation and the use
        for atom in cap:
            if atom == 1: continue
            if atom[0] != 'load': return None
            for x in cfg.reach(a, avoid=[before]):
                if x.op == 'store' and flow._freeze(res.loc(x.ops[1])) == atom[1] and before in cfg.reach(x): return None
        return (cap, a)
    return None

def lin_le(a, b):
    """a <= b for linear forms that differ only in the constant term"""
    ka = {k: v for k, v in a.items() if k != 1}; kb = {k: v for k, v in b.items() if k != 1}
    if ka != kb: return None
    return a.get(1, 0) <= b.get(1, 0)

def lin_str(a):
    if a is None: return '?'
    parts = []
    for k, v in a.items():
        if k == 1: parts.append(str(v))
        else:
            nm = k[1][1] if k[0] == 'load' and len(k[1]) > 1 and isinstance(k[1][1], str) else str(k[1])
            parts.append(nm if v == 1 else '%d*%s' % (v, nm))
    return '+'.join(parts) or '0'

def r4(prog, rep, anchors=True):
    n = 0
    # ---- census of calls that cannot be bounded
    hits = []
    for f in fns(prog):
        for x in f.ins:
            if x.op in ('call', 'invoke') and x.callee in BANNED: hits.append(x)
    n += 1
    for x in hits:
        rep.fail('C16.R4', key('C16.R4', x, 'banned:%s#%d' % (x.callee, ordinal(x))), where(x), '%s() writes an unbounded string in %s' % (x.callee, x.fn.name))
    if not hits: rep.ok('C16.R4', 'census: no call to %s in %d functions' % ('/'.join(BANNED[:5]), len(fns(prog))))
    # ---- strcpy
    for f in fns(prog):
        res = Resolver(f); cfg = prog.cfg(f)
        for c in f.ins:
            if c.op != 'call' or c.callee not in ('strcpy', '__strcpy_chk'): continue
            n += 1
            kk = key('C16.R4', c, 'strcpy#%d' % ordinal(c))
            why = strcpy_capacity_guard(prog, f, c, res, cfg)
            if why[0]: rep.ok('C16.R4', '%s strcpy@%s: %s' % (f.name, c.line, why[1]))
            else: rep.fail('C16.R4', kk, where(c), 'strcpy in %s is not behind a capacity test that covers strlen(src)+1: %s' % (f.name, why[1]))
    # ---- strncpy
    for f in fns(prog):
        res = Resolver(f); cfg = prog.cfg(f)
        for c in f.ins:
            if c.op != 'call' or c.callee not in ('strncpy', '__strncpy_chk'): continue
            n += 1
            kk = key('C16.R4', c, 'strncpy#%d' % ordinal(c)) if len(calls(f, c.callee)) > 1 else key('C16.R4', c, 'strncpy')
            dst, src, cnt = c.ops[0], c.ops[1], c.ops[2]
            al = array_len(f, dst)
            if f.name in STRNCPY_EXCEPT:
                rep.ok('C16.R4', '%s strncpy@%s excepted: %s' % (f.name, c.line, STRNCPY_EXCEPT[f.name])); continue
            if al is not None:
                N = al[0] * al[1]
                if cnt[0] != 'int':
                    rep.fail('C16.R4', kk, where(c), 'strncpy into %s[%d] in %s with a non-constant count' % (al[2][1], N, f.name)); continue
                if cnt[1] > N:
                    rep.fail('C16.R4', kk, where(c), 'strncpy count %d exceeds the destination %s[%d] in %s' % (cnt[1], al[2][1], N, f.name)); continue
                g = src_length_guard(prog, f, c, src, cnt[1], res)
                if g is not None:
                    rep.ok('C16.R4', '%s strncpy(%s[%d], .., %d)@%s: length guard@%s implies strlen(src) < %d, so the copy is NUL-padded' % (f.name, al[2][1], N, cnt[1], c.line, g[0].line, g[1])); continue
                t = terminator_after(prog, f, c, al, cnt[1], res, cfg)
                if t is not None:
                    rep.ok('C16.R4', '%s strncpy(%s[%d], .., %d)@%s: explicit terminator store@%s' % (f.name, al[2][1], N, cnt[1], c.line, t.line)); continue
                ok, why = bounded_string(prog, f, src, cnt[1])
                if ok:
                    rep.ok('C16.R4', '%s strncpy(%s[%d], .., %d)@%s: source is always shorter than the count (%s)' % (f.name, al[2][1], N, cnt[1], c.line, why)); continue
                rep.fail('C16.R4', kk, where(c), 'strncpy(%s, src, %d) into %s[%d] in %s: nothing bounds strlen(src) below the count and no terminator is stored, '
                         'so the array may be left unterminated and the following strlen()/string use runs past it (source: %s)' % (al[2][1], cnt[1], al[2][1], N, f.name, why),
                         replay_input='%option emit="c99"\n%%\na yyunput(<9000 bytes>);\n%%   (ASan: stack-buffer-overflow in context_call)')
            else:
                hc = heap_capacity(prog, f, dst, c, res)
                lc = lin(f, cnt, res)
                if hc is None or lc is None:
                    rep.fail('C16.R4', kk, where(c), 'strncpy in %s: capacity of the destination cannot be related to the count' % f.name); continue
                cap, al_ = hc
                # count + 1 <= capacity and a terminator at dst[count]
                lc1 = dict(lc); lc1[1] = lc1.get(1, 0) + 1
                le = lin_le(lc1, cap)
                t = heap_terminator(prog, f, c, dst, lc, res, cfg)
                if le and t is not None:
                    rep.ok('C16.R4', '%s strncpy(heap %s, .., %s)@%s: capacity %s, terminator stored at [%s]@%s' % (f.name, al_.callee, lin_str(lc), c.line, lin_str(cap), lin_str(lc), t.line))
                else:
                    rep.fail('C16.R4', kk, where(c), 'strncpy in %s: count %s vs capacity %s, terminator %s' % (f.name, lin_str(lc), lin_str(cap), 'found' if t is not None else 'missing'))
    # ---- strncat
    for f in fns(prog):
        for c in f.ins:
            if c.op != 'call' or c.callee not in ('strncat', '__strncat_chk'): continue
            n += 1
            kk = key('C16.R4', c, 'strncat#%d' % ordinal(c))
            s = const_str(f, c.ops[1])
            if f.name in STRNCAT_EXCEPT and s is not None and len(s) == 1 and array_len(f, c.ops[0]) is not None:
                rep.ok('C16.R4', '%s strncat@%s excepted: %s' % (f.name, c.line, STRNCAT_EXCEPT[f.name]))
            else:
                rep.fail('C16.R4', kk, where(c), 'strncat in %s: the count bounds the appended bytes, not the destination; this use has not been reviewed' % f.name)
    # ---- snprintf / vsnprintf
    for f in fns(prog):
        res = Resolver(f)
        for c in f.ins:
            if c.op != 'call' or c.callee not in ('snprintf', 'vsnprintf', '__snprintf_chk', '__vsnprintf_chk'): continue
            n += 1
            kk = key('C16.R4', c, '%s#%d' % (c.callee, ordinal(c)))
            dst, size = c.ops[0], c.ops[1]
            al = array_len(f, dst)
            if al is not None:
                N = al[0] * al[1]
                if size[0] == 'int' and size[1] <= N:
                    rep.ok('C16.R4', '%s %s(%s[%d], %d)@%s' % (f.name, c.callee, al[2][1], N, size[1], c.line))
                elif size[0] == 'int':
                    rep.fail('C16.R4', kk, where(c), '%s size %d exceeds the destination %s[%d] in %s' % (c.callee, size[1], al[2][1], N, f.name))
                else:
                    rep.fail('C16.R4', kk, where(c), '%s into %s[%d] in %s with a size that is not a constant' % (c.callee, al[2][1], N, f.name))
                continue
            if f.name in SNPRINTF_EXCEPT:
                rep.ok('C16.R4', '%s %s@%s excepted: %s' % (f.name, c.callee, c.line, SNPRINTF_EXCEPT[f.name])); continue
            hc = heap_capacity(prog, f, dst, c, res)
            ls = lin(f, size, res)
            if hc is None or ls is None:
                rep.fail('C16.R4', kk, where(c), '%s in %s: destination is neither a fixed array nor a block allocated in this function with a size that can be compared' % (c.callee, f.name)); continue
            cap, al_ = hc
            if lin_le(ls, cap):
                rep.ok('C16.R4', '%s %s(heap %s(%s), %s)@%s' % (f.name, c.callee, al_.callee, lin_str(cap), lin_str(ls), c.line))
            else:
                rep.fail('C16.R4', kk, where(c), '%s in %s: size %s is not bounded by the allocation %s(%s)' % (c.callee, f.name, lin_str(ls), al_.callee, lin_str(cap)))
    return n

def terminator_after(prog, fn, call, al, cnt, res, cfg):
    """a store of 0 to dst[j], j constant, 0 <= j <= cnt and j < N (the copy writes dst[0..cnt-1], so the string then has
    at most j characters); it must lie on every path from the copy to the first other use of the array."""
    target = al[2]
    for x in cfg.reach(call):
        if x.op != 'store' or x.ops[0] != ('int', 0): continue
        d = fn.def_of(x.ops[1])
        if d is None or d.op != 'getelementptr' or d.srcty is None or d.srcty.k != 'arr': continue
        b = d.ops[0]; bd = fn.def_of(b)
        base = ('local', bd.res) if bd is not None and bd.op == 'alloca' else ('global', b[1]) if b[0] == 'glob' else None
        if base != target or len(d.ops) != 3 or d.ops[2][0] != 'int': continue
        # strncpy writes dst[0..cnt-1]; a NUL stored at any index j <= cnt (inside the array) bounds the string
        if not (0 <= d.ops[2][1] <= cnt and d.ops[2][1] < al[0] * al[1]): continue
        # dominates every later read of the array: no load/call using the array is reachable from the copy avoiding the store
        uses = [y for y in cfg.reach(call, avoid=[x]) if y is not x and uses_array(fn, y, target)]
        if not uses: return x
    return None

def uses_array(fn, ins, target):
    for o in ins.ops:
        al = array_len(fn, o) if isinstance(o, tuple) else None
        if al is not None and al[2] == target: return True
        d = fn.def_of(o) if isinstance(o, tuple) else None
        if d is not None and d.op == 'getelementptr':
            b = d.ops[0]; bd = fn.def_of(b)
            base = ('local', bd.res) if bd is not None and bd.op == 'alloca' else ('global', b[1]) if b[0] == 'glob' else None
            if base == target: return True
    return False

def heap_terminator(prog, fn, call, dst, lcnt, res, cfg):
    """store of 0 to P[count] after the copy, before the function returns P"""
    d0 = fn.def_of(flow.strip_casts(fn, dst))
    if d0 is None or d0.op != 'load': return None
    P = res.loc(d0.ops[0])
    for x in cfg.reach(call):
        if x.op != 'store' or x.ops[0] != ('int', 0): continue
        g = fn.def_of(x.ops[1])
        if g is None or g.op != 'getelementptr' or len(g.ops) != 2: continue
        b = fn.def_of(flow.strip_casts(fn, g.ops[0]))
        if b is None or b.op != 'load' or res.loc(b.ops[0]) != P: continue
        li = lin(fn, g.ops[1], res)
        if li == lcnt and not any(y.op == 'ret' for y in cfg.reach(call, avoid=[x])): return x
    return None

def strcpy_capacity_guard(prog, fn, c, res, cfg):
    """add_action(): strcpy(&A[idx], src) is dominated by the exit edge of a test  len + idx >= size + K  (K <= 0) with
    len = strlen(src), A = the global array pointer, and every assignment of A allocates `size` bytes."""
    dst, src = c.ops[0], c.ops[1]
    g = fn.def_of(flow.strip_casts(fn, dst))
    if g is None or g.op != 'getelementptr' or len(g.ops) != 2: return (False, 'destination is not array[index]')
    b = fn.def_of(flow.strip_casts(fn, g.ops[0]))
    if b is None or b.op != 'load': return (False, 'destination base is not a loaded pointer')
    A = res.loc(b.ops[0])
    if A[0] != 'global': return (False, 'destination base is not a global buffer')
    lidx = lin(fn, g.ops[1], res)
    sd = fn.def_of(flow.strip_casts(fn, src))
    sloc = res.loc(sd.ops[0]) if sd is not None and sd.op == 'load' else None
    for blk in fn.blocks:
        br = blk.ins[-1]
        be = branch_edges(fn, br) if br.op == 'br' else None
        if be is None: continue
        ic, t, f_ = be
        if ic.pred in ('sge', 'uge'): lab, strict = f_, True         # exit edge: lhs < rhs
        elif ic.pred in ('sgt', 'ugt'): lab, strict = f_, False      # lhs <= rhs
        elif ic.pred in ('slt', 'ult'): lab, strict = t, True
        elif ic.pred in ('sle', 'ule'): lab, strict = t, False
        else: continue
        if not edge_dominates(cfg, fn, br, lab, c): continue
        l = lin(fn, ic.ops[0], res); r = lin(fn, ic.ops[1], res)
        if l is None or r is None or lidx is None: continue
        # l = len + idx (+c1), r = size (+c2)
        rest = dict(l)
        for k_, v in lidx.items():
            if k_ == 1: continue
            rest[k_] = rest.get(k_, 0) - v
            if rest[k_] == 0: del rest[k_]
        lens = [k_ for k_ in rest if k_ != 1]
        sizes = [k_ for k_ in r if k_ != 1]
        if len(lens) != 1 or rest[lens[0]] != 1 or len(sizes) != 1 or r[sizes[0]] != 1: continue
        lenatom, sizeatom = lens[0], sizes[0]
        if lenatom[0] != 'load' or lenatom[1][0] != 'local' or sizeatom[0] != 'load' or sizeatom[1][0] != 'global': continue
        # len + idx + c1 (<|<=) size + c2   =>   need  len + idx + 1 <= size
        slack = r.get(1, 0) - (rest.get(1, 0) - lidx.get(1, 0)) - (1 if strict else 0)    # len + idx <= size + slack
        if slack > -1: continue
        # len is strlen(src)
        ls = [x for x in fn.ins if x.op == 'store' and res.loc(x.ops[1]) == lenatom[1]]
        if len(ls) != 1: continue
        v = fn.def_of(flow.int_origin(fn, ls[0].ops[0]))
        if v is None or v.op != 'call' or v.callee != 'strlen': continue
        vd = fn.def_of(flow.strip_casts(fn, v.ops[0]))
        if vd is None or vd.op != 'load' or res.loc(vd.ops[0]) != sloc: continue
        # every assignment of the buffer pointer allocates `size` bytes
        bad = []
        cnt = 0
        for f2 in fns(prog):
            r2_ = Resolver(f2)
            for s in f2.ins:
                if s.op == 'store' and r2_.loc(s.ops[1]) == A:
                    cnt += 1
                    a = f2.def_of(flow.strip_casts(f2, s.ops[0]))
                    okk = False
                    if a is not None and a.op == 'call' and a.callee in ('allocate_array', 'reallocate_array'):
                        sz = a.ops[0] if a.callee == 'allocate_array' else a.ops[1]
                        ls_ = lin(f2, sz, r2_)
                        if ls_ == {sizeatom: 1}: okk = True
                    if not okk: bad.append(s)
        if bad: return (False, '%s is assigned at %s with a size other than %s' % (A[1], where(bad[0]), sizeatom[1][1]))
        return (True, 'behind the exit edge of `%s + %s >= %s%+d`@%s; %s is always allocated with %s bytes (%d sites)' % (
            lenatom[1][1], lin_str(lidx), sizeatom[1][1], r.get(1, 0), br.line, A[1], sizeatom[1][1], cnt))
    return (False, 'no dominating capacity test of the form strlen(src) + index < size')

# ================================================================ R5

def guarded_by_fatal(prog, fn, cond_globals, targets, res):
    """a conditional branch whose condition reads every name in cond_globals, one of whose edges ends in a no-return
    call without reaching any target, and whose block dominates every target.  Returns the branch or None."""
    cfg = prog.cfg(fn)
    for b in fn.blocks:
        br = b.ins[-1]
        if br.op != 'br' or not br.ops: continue
        locs = {l for _, l in loads_in_slice(fn, br.ops[0], res)}
        if not all(('global', g) in locs for g in cond_globals): continue
        for lab in br.targets:
            sub = cfg.reach_from_block(fn.bmap[lab])
            blks = {x.blk for x in sub}
            if any(x.op == 'ret' for x in sub) or any(t in sub for t in targets): continue
            if not any(bb in cfg.cut for bb in blks): continue
            if all(cfg.dominates(b, t.blk) for t in targets): return br
    return None

def r5(prog, rep, anchors=True):
    n = 0
    mk = prog.fn('mkstate')
    if mk is None:
        if anchors: rep.broken('C16.R5: mkstate() not found')
    else:
        res = Resolver(mk)
        grow = [x for x in mk.ins if x.op == 'call' and x.callee in ('reallocate_array', 'realloc', 'reallocarray')]
        if not grow and anchors: rep.broken('C16.R5: mkstate() no longer grows the NFA arrays')
        if grow:
            n += 1
            br = guarded_by_fatal(prog, mk, ['maximum_mns', 'current_mns'], grow, res)
            if br is not None: rep.ok('C16.R5', 'mkstate: %d reallocations dominated by the maximum_mns test@%s whose failing edge is fatal' % (len(grow), br.line))
            else: rep.fail('C16.R5', key('C16.R5', mk, 'maximum_mns'), where(grow[0]), 'mkstate() grows the NFA arrays without first comparing current_mns with maximum_mns on an edge that ends in lerr(): '
                           'an NFA beyond the limit is not refused', replay_input='a rule set needing > 31999 NFA states, e.g. (a|b){1,4000}')
    nr = prog.fn('new_rule')
    if nr is None:
        if anchors: rep.broken('C16.R5: new_rule() not found')
    else:
        res = Resolver(nr); cfg = prog.cfg(nr)
        inc = [x for x in nr.ins if x.op == 'store' and res.loc(x.ops[1]) == ('global', 'num_rules')]
        uses = [x for x in nr.ins if x.op == 'store' and any(is_elem_of_global(res.loc(x.ops[1]), g) for g in ('rule_linenum', 'rule_useful', 'rule_has_nl', 'rule_type'))]
        if (not inc or not uses) and anchors: rep.broken('C16.R5: new_rule() no longer increments num_rules / initialises the rule arrays')
        if inc and uses:
            n += 1
            ok = None
            for b in nr.blocks:
                br = b.ins[-1]
                be = branch_edges(nr, br) if br.op == 'br' else None
                if be is None: continue
                ic, t, f_ = be
                if ('global', 'num_rules') not in {l for _, l in loads_in_slice(nr, br.ops[0], res)}: continue
                if ic.ops[1][0] != 'int' or ic.pred not in ('sgt', 'sge', 'ugt', 'uge'): continue
                sub = cfg.reach_from_block(nr.bmap[t])
                if any(x.op == 'ret' for x in sub) or any(u in sub for u in uses): continue
                if not cfg.ins_dominates(inc[0], br): continue
                if any(x.op == 'ret' for x in cfg.reach(inc[0], avoid=[br])): continue
                if not all(cfg.dominates(b, u.blk) for u in uses): continue
                ok = (br, ic.ops[1][1]); break
            if ok: rep.ok('C16.R5', 'new_rule: ++num_rules@%s is followed on every path by the test against %d@%s (fatal), before the rule arrays are written' % (inc[0].line, ok[1], ok[0].line))
            else: rep.fail('C16.R5', key('C16.R5', nr, 'MAX_RULE'), where(inc[0]), 'new_rule() does not compare num_rules with MAX_RULE on a fatal edge after incrementing it: '
                           'rule numbers would collide with the YY_TRAILING_MASK flag bits', replay_input='a specification with 8192 rules')
    return n

# ================================================================ R6

def r6(prog, rep, anchors=True):
    fe = prog.fn('flexend')
    if fe is None:
        if anchors: rep.broken('C16.R6: flexend() not found')
        return 0
    res = Resolver(fe); ucfg = prog.cfg(fe, cut=False); cfg = prog.cfg(fe)
    un = [x for x in fe.ins if x.op == 'call' and x.callee in ('unlink', 'remove')]
    kk = key('C16.R6', fe, 'unlink')
    n = 1
    if not un:
        rep.fail('C16.R6', kk, fwhere(fe), 'flexend() never removes the partially written output file', replay_input='flex -o out.c bad.l ; ls out.c')
    else:
        u = un[0]
        arg = {cls(prog, l) for _, l in loads_in_slice(fe, u.ops[0], res)}
        deps = ucfg.control_deps_closure(u.blk)
        status = False; created = False
        for br, t in deps:
            te = truth_edges(fe, br) if br.op == 'br' else None
            ll = {l for _, l in loads_in_slice(fe, br.ops[0], res)} if br.ops else set()
            if ('local', 'exit_status.addr') in ll and te is not None and t is fe.bmap[te[1]]: status = True
            if ('global', 'outfile_created') in ll: created = True
        other = [l for br, t in deps for _, l in loads_in_slice(fe, br.ops[0], res) if br.ops
                 and cls(prog, l) not in (('local', 'exit_status.addr'), ('global', 'outfile_created'), ('global', 'stdout'), ('global', '_stdout_closed'),
                                          ('global', 'flexend.called_before'))      # the recursion guard at the top of flexend()
                 and l[0] != 'call']
        # conditions that come from results of ferror()/fclose() are the documented else-if chain
        if ('field', 'env_bundle_t', 'outfilename') not in arg:
            rep.fail('C16.R6', kk, where(u), 'flexend() unlinks something other than env.outfilename')
        elif not status or not created:
            rep.fail('C16.R6', kk, where(u), 'the unlink of the output file in flexend() is not controlled by `exit_status != 0 && outfile_created` (status:%s created:%s)' % (status, created))
        elif other:
            rep.fail('C16.R6', kk, where(u), 'the unlink of the output file additionally depends on %s' % ', '.join(sorted({ir.loc_str(l) for l in other})))
        else:
            rep.ok('C16.R6', 'flexend: unlink(env.outfilename)@%s controlled by exit_status != 0 && outfile_created (and the ferror/fclose chain)' % u.line)
    # no error path of flexend() re-enters flexend() before the clean-up: the recursion guard exits at once, the partial output stays
    if un:
        u = un[0]
        guard = None
        for br, t in ucfg.control_deps_closure(u.blk):
            ll = {l for _, l in loads_in_slice(fe, br.ops[0], res)} if br.ops else set()
            if ('local', 'exit_status.addr') in ll: guard = br
        reent = []
        cg = prog.callgraph() if hasattr(prog, 'callgraph') else None
        def reaches_flexend(name, seen=None):
            seen = seen or set()
            if name == 'flexend': return True
            if name in seen: return False
            seen.add(name)
            g = prog.fn(name)
            if g is None or not g.blocks: return False
            return any(c.op == 'call' and isinstance(c.callee, str) and reaches_flexend(c.callee, seen) for c in g.ins)
        if guard is not None:
            n += 1
            for c in fe.ins:
                if c.op != 'call' or not isinstance(c.callee, str) or not reaches_flexend(c.callee): continue
                before = guard in ucfg.reach(c) or any(y.blk is guard.blk for y in ucfg.reach(c))
                inside = any(br is guard for br, t in ucfg.control_deps_closure(c.blk))
                if before and not inside: reent.append(c)
            if reent:
                rep.fail('C16.R6', key('C16.R6', fe, 'reenters-before-cleanup'), where(reent[0]), 'flexend() reports an error through %s() before the clean-up of the output file: %s() calls flexend() again, '
                         'whose recursion guard exits at once, so flex exits non-zero and leaves the partly written output file behind' % (reent[0].callee, reent[0].callee),
                         replay_input='%option yyclass="Foo" without %option c++: exit 1, lex.yy.c stays')
            else:
                rep.ok('C16.R6', 'flexend: no call that can re-enter flexend() precedes the removal of the partial output')
    # outfile_created is set where the file is created
    co = prog.fn('check_options')
    if co is not None:
        r2_ = Resolver(co); c2 = prog.cfg(co)
        st = [x for x in co.ins if x.op == 'store' and r2_.loc(x.ops[1]) == ('global', 'outfile_created') and x.ops[0] != ('int', 0)]
        fo = [x for x in co.ins if x.op == 'call' and x.callee in ('freopen', 'fopen')]
        n += 1
        if st and fo and all(any(x in c2.reach(o) for x in st) and not any(y.op == 'ret' for y in c2.reach(o, avoid=st)) for o in fo):
            rep.ok('C16.R6', 'check_options: outfile_created=1@%s follows freopen@%s on every returning path' % (st[0].line, fo[0].line))
        else:
            rep.fail('C16.R6', key('C16.R6', co, 'outfile_created'), fwhere(co), 'check_options() can return after creating the output file without setting outfile_created: flexend() would not remove it on failure')
    return n

# ================================================================ positive controls

def controls(ctx):
    p = selftest_program(ctx, 'c16_controls.c')
    c = Collect(); r1(p, c)
    expect_control(ctx, 'C16.R1', c, ['bad_wait_null:wait', 'bad_wait_ignored:wait', 'bad_wait_noeffect:waitpid', 'bad_wait_polarity:wait', 'bad_wait_exitcode_only:wait'], must_hold=2)
    c = Collect(); r4(p, c, anchors=False)
    expect_control(ctx, 'C16.R4', c, ['banned:strcat', 'banned:sprintf', 'banned:gets', 'bad_strcpy:strcpy', 'bad_strncpy_unterminated:strncpy',
                                      'bad_strncpy_count:strncpy', 'bad_snprintf_size:snprintf', 'bad_snprintf_heap:snprintf', 'bad_strncat:strncat'], must_hold=5)
    c = Collect(); r2(p, c, except_close={})
    expect_control(ctx, 'C16.R2', c, ['bad_open_never_checked:open:fopen', 'bad_close_unchecked:fclose', 'bad_early_return:write'], must_hold=3)
    c = Collect(); r3(p, c, success_exits={('flex_main', 'flexend'): 'x'}, anchors=False)
    expect_control(ctx, 'C16.R3', c, ['other_writer:syntaxerror-store', 'readin:syntaxerror-test', 'sneaky_exit:success-exit'])
    c = Collect(); r5(p, c, anchors=False)
    expect_control(ctx, 'C16.R5', c, ['mkstate:maximum_mns', 'new_rule:MAX_RULE'])
    c = Collect(); r6(p, c, anchors=False)
    expect_control(ctx, 'C16.R6', c, ['flexend:unlink'])
    c = Collect(); r10(p, c, anchors=False)
    expect_control(ctx, 'C16.R10', c, ['bad_scanopt:argv[index+1]:not-below-argc', 'bad_scanopt_entry:argv[index]:not-below-argc'], must_hold=2)
    c = Collect(); r8(p, c)
    expect_control(ctx, 'C16.R8', c, ['bad_grow:cur_max:forgotten', 'bad_grow_early_return:cur_max2:late', 'bad_grow_source:cur_max3:arr_a:realloc-of-arr_b', 'bad_grow_source:cur_max3:arr_b:fresh-allocation'], must_hold=3)
    c = Collect(); r11(p, c)
    expect_control(ctx, 'C16.R11', c, ['bad_guard:cur_max:guard-not-tight'], must_hold=2)
    c = Collect(); r12(p, c, anchors=False)
    expect_control(ctx, 'C16.R12', c, ['yywrap:input-file-count'], must_hold=1)

# ================================================================ driver

def r7(prog, rep):
    """R7 constant addresses stay inside their array: every getelementptr (instruction or constant expression) that
    indexes a fixed-size array with a constant uses an index in 0..N (N = one past the end, legal only as a bound).
    This is what bounds hand-written copy loops such as line_directive_out's `s3 = &filename[sizeof(filename) - 2]`."""
    n = 0
    for f in fns(prog):
        locals_ = {}
        for x in f.ins:
            cands = []
            if x.op == 'getelementptr' and x.srcty is not None and x.srcty.k == 'arr' and len(x.ops) >= 3 and x.ops[2][0] == 'int':
                cands.append((x.srcty.a, x.ops[2][1], x.ops[0]))
            for o in x.ops:
                if isinstance(o, tuple) and o[0] == 'cgep' and o[1].k == 'arr' and len(o[3]) >= 2 and o[3][1][0] == 'int':
                    cands.append((o[1].a, o[3][1][1], o[2]))
            for N, idx, base in cands:
                if N == 0: continue          # flexible / extern arrays of unknown size
                n += 1
                name = base[1] if base[0] in ('reg', 'glob') else '?'
                if idx > N:
                    rep.fail('C16.R7', 'C16.R7:%s:%s:%s[%d]' % (x.loc[0], f.name, name, N), where(x),
                             'address &%s[%d] is computed for an array of %d elements: a bound or access beyond the end of a fixed buffer' % (name, idx, N))
    if n:
        rep.ok('C16.R7', '%d constant array addresses in flex are within [0, N]' % n)
        o = rep.obl.setdefault('C16.R7', [0, 0]); o[0] += n - 1; o[1] += n - 1
    return n

# ================================================================ R8  arrays that share a capacity grow together

ALLOC_SIZE_ARG = {'allocate_array': 0, 'reallocate_array': 1, 'malloc': 0, 'calloc': 0, 'realloc': 1, 'reallocarray': 1}
REALLOCS = {'reallocate_array': 0, 'realloc': 0, 'reallocarray': 0}      # callee -> index of the old-block argument
R8_EXCEPT = {
    ('lastsc', 'scon_stk'): 'lastsc is the number of start conditions, not a capacity: scon_stk is allocated with lastsc + 1 entries by the sect1end production, '
                            'after the last scinstal() - start conditions can only be declared in section 1 (order fixed by the grammar, not decidable on the CFG)',
}

def capacity_families(prog):
    """{capacity global C: {array global G: [allocation stores]}}: G is assigned the result of an allocation whose size
    expression loads C (derived from the IR, nothing is listed by name)"""
    fam = {}
    for f in fns(prog):
        res = Resolver(f)
        for x in f.ins:
            if x.op != 'store': continue
            l = res.loc(x.ops[1])
            if l[0] != 'global': continue
            d = f.def_of(flow.strip_casts(f, x.ops[0]))
            if d is None or d.op != 'call' or d.callee not in ALLOC_SIZE_ARG or len(d.ops) <= ALLOC_SIZE_ARG[d.callee]: continue
            li = lin(f, d.ops[ALLOC_SIZE_ARG[d.callee]], res)
            for a in (li or {}):
                if a != 1 and a[0] == 'load' and a[1][0] == 'global':
                    fam.setdefault(a[1][1], {}).setdefault(l[1], []).append(x)
    return fam

def grow_stores(prog, C):
    """stores to capacity global C whose value is computed from C itself and is not a decrease (C += k, C *= 2, C += C/8)"""
    out = []
    for f in fns(prog):
        res = Resolver(f)
        for x in f.ins:
            if x.op != 'store' or res.loc(x.ops[1]) != ('global', C): continue
            if not any(y.op == 'load' and res.loc(y.ops[0]) == ('global', C) for y in flow.value_slice(f, x.ops[0])): continue
            li = lin(f, x.ops[0], res)
            if li is not None and set(li) <= {1, ('load', ('global', C))} and li.get(('load', ('global', C))) == 1 and li.get(1, 0) <= 0: continue
            out.append(x)
    return out

def realloc_stores(prog, f, G, C, res):
    """stores in f that assign G the result of a reallocation of G sized by C"""
    out = []
    for x in f.ins:
        if x.op != 'store' or res.loc(x.ops[1]) != ('global', G): continue
        d = f.def_of(flow.strip_casts(f, x.ops[0]))
        if d is not None and d.op == 'load' and res.loc(d.ops[0])[0] == 'local':
            # int *grown = realloc(...); G = grown;
            st = [y for y in f.ins if y.op == 'store' and res.loc(y.ops[1]) == res.loc(d.ops[0])]
            if len(st) == 1: d = f.def_of(flow.strip_casts(f, st[0].ops[0]))
        if d is None or d.op != 'call' or d.callee not in REALLOCS: continue
        old = f.def_of(flow.strip_casts(f, d.ops[REALLOCS[d.callee]]))
        if old is None or old.op != 'load' or res.loc(old.ops[0]) != ('global', G): continue
        li = lin(f, d.ops[ALLOC_SIZE_ARG[d.callee]], res)
        if li is None or ('load', ('global', C)) not in li: continue
        out.append(x)
    return out

def r8(prog, rep, exceptions=R8_EXCEPT, floor_note=True):
    fam = capacity_families(prog)
    n = 0; table = []
    for C in sorted(fam):
        gs = grow_stores(prog, C)
        if not gs: continue              # a size that never grows (lastsc, _sf_max users are found through their own growth)
        table.append('%s: %s (grown in %s)' % (C, ', '.join(sorted(fam[C])), ', '.join(sorted({g.fn.name for g in gs}))))
        for S in gs:
            f = S.fn; res = Resolver(f); cfg = prog.cfg(f)
            for G in sorted(fam[C]):
                n += 1
                kk = key('C16.R8', f, '%s:%s' % (C, G))
                if (C, G) in exceptions:
                    rep.ok('C16.R8', '%s: %s grows, %s excepted: %s' % (f.name, C, G, exceptions[(C, G)])); continue
                rs = realloc_stores(prog, f, G, C, res)
                # a direct callee that reallocates G on every returning path counts as the reallocation
                for c in f.ins:
                    g = prog.fn(c.callee) if c.op == 'call' and isinstance(c.callee, str) else None
                    if g is None or g is f or not g.blocks: continue
                    gr = realloc_stores(prog, g, G, C, Resolver(g))
                    if gr and not any(y.op == 'ret' for y in prog.cfg(g).reach_from_block(g.entry, avoid=gr)): rs.append(c)
                def filt(b, t, G=G):
                    # the arm where the optional array G is null needs no reallocation
                    br = b.ins[-1]
                    te = truth_edges(f, br) if br.op == 'br' and len(br.targets) == 2 else None
                    if te is None: return True
                    d = f.def_of(flow.strip_casts(f, te[0]))
                    if d is not None and d.op == 'load' and res.loc(d.ops[0]) == ('global', G) and te[1] != te[2]:
                        return t.name != te[2]
                    return True
                leak = [y for y in cfg.reach(S, avoid=rs, edge_filter=filt) if y.op == 'ret']
                if rs and not leak:
                    rep.ok('C16.R8', '%s: %s grows@%s -> %s reallocated@%s' % (f.name, C, S.line, G, rs[0].line))
                    continue
                # say what the function does to G instead, when it assigns it from another allocation
                odd = None
                for y in f.ins:
                    if y.op != 'store' or res.loc(y.ops[1]) != ('global', G): continue
                    d = f.def_of(flow.strip_casts(f, y.ops[0]))
                    if d is None or d.op != 'call' or d.callee not in ALLOC_SIZE_ARG: continue
                    if d.callee in REALLOCS:
                        old_ = f.def_of(flow.strip_casts(f, d.ops[REALLOCS[d.callee]]))
                        src = res.loc(old_.ops[0]) if old_ is not None and old_.op == 'load' else None
                        if src != ('global', G):
                            odd = (y, 'realloc-of-%s' % (src[1] if src and src[0] == 'global' else 'another-block'),
                                   '%s is assigned the reallocation of %s: the two arrays then share one block and the old elements of %s are lost' % (
                                       G, ir.loc_str(src) if src else 'another block', G))
                    else:
                        odd = (y, 'fresh-allocation', '%s is assigned a fresh %s() block instead of a reallocation of itself: the elements created so far are lost (and the old block leaks)' % (G, d.callee))
                if odd is not None:
                    rep.fail('C16.R8', key('C16.R8', f, '%s:%s:%s' % (C, G, odd[1])), where(odd[0]), '%s() increases %s; %s' % (f.name, C, odd[2]),
                             replay_input='a specification with more than %s start conditions / elements of that family' % C)
                else:
                    rep.fail('C16.R8', kk, where(S), '%s() increases %s but %s %s, which is allocated with %s elements (%s): the next access up to the new capacity writes past the block' % (
                        f.name, C, 'can return without reallocating' if rs else 'does not reallocate', G, C,
                        ', '.join(sorted({where(a) for a in fam[C][G]}))[:160]),
                        replay_input='flex -Cf on a specification with more than 1000 DFA states (valgrind: invalid write in ntod)' if G == 'nultrans' else None)
    rep.note('C16.R8 capacity families derived from the IR: ' + ' | '.join(table))
    return n, table

# ================================================================ R10  argv is only read below argc

OPT_STRUCT = '_scanopt_t'

def _argv_carriers(prog):
    """{function: (argc slot, argv slot)} for functions that receive main's (argc, argv) pair, by propagation from main"""
    out = {}
    m = prog.fn('main')
    if m is None or len(m.params) < 2: return out
    work = [(m, 0, 1)]
    while work:
        f, ci, vi = work.pop()
        if f in out: continue
        out[f] = (('local', f.params[ci][1] + '.addr'), ('local', f.params[vi][1] + '.addr'))
        res = Resolver(f)
        for c in f.ins:
            g = prog.fn(c.callee) if c.op == 'call' and isinstance(c.callee, str) else None
            if g is None or not g.blocks: continue
            pos = {}
            for i, a in enumerate(c.ops):
                d = f.def_of(flow.strip_casts(f, a)) if isinstance(a, tuple) else None
                if d is not None and d.op == 'load':
                    l = res.loc(d.ops[0])
                    if l == out[f][0]: pos['c'] = i
                    if l == out[f][1]: pos['v'] = i
            if 'c' in pos and 'v' in pos and pos['v'] < len(g.params) and g.params[pos['v']][1]: work.append((g, pos['c'], pos['v']))
    return out

def r10(prog, rep, anchors=True):
    """every load of argv[E] is reached only with 0 <= E < argc, decided by interpreting the function for all small
    (index, argc): the option scanner's s->argv[..] against s->index / s->argc, and main's own argv against its argc"""
    from common import AnalysisBroken
    from genutil import MiniEval, EvalUnknown
    n = 0; nev = 0
    carriers = _argv_carriers(prog)
    # callees must not change the cursor behind the evaluator's back
    def stores_cursor(g):
        r_ = Resolver(g)
        return any(x.op == 'store' and cls(prog, r_.loc(x.ops[1])) in (('field', OPT_STRUCT, 'index'), ('field', OPT_STRUCT, 'argc'), ('field', OPT_STRUCT, 'argv')) for x in g.ins)
    for f in fns(prog):
        res = Resolver(f)
        sites = []
        for x in f.ins:
            if x.op != 'load': continue
            d = f.def_of(flow.strip_casts(f, x.ops[0]))
            if d is None or d.op != 'getelementptr' or len(d.ops) != 2: continue
            b = f.def_of(flow.strip_casts(f, d.ops[0]))
            if b is None or b.op != 'load': continue
            bl = res.loc(b.ops[0])
            if cls(prog, bl) == ('field', OPT_STRUCT, 'argv'): sites.append((x, d.ops[1], 'struct'))
            elif f in carriers and bl == carriers[f][1]: sites.append((x, d.ops[1], 'param'))
        if not sites: continue
        cfg = prog.cfg(f)
        # memory cells holding index / argc in this function
        cells = {'index': set(), 'argc': set()}
        for x in f.ins:
            if x.op in ('load', 'store'):
                l = res.loc(x.ops[0] if x.op == 'load' else x.ops[1]); c = cls(prog, l)
                if c == ('field', OPT_STRUCT, 'index'): cells['index'].add(flow._freeze(l))
                if c == ('field', OPT_STRUCT, 'argc'): cells['argc'].add(flow._freeze(l))
        if f in carriers: cells['argc'].add(flow._freeze(carriers[f][0]))
        for x, idx, kind in sites:
            n += 1
            li = lin(f, idx, res)
            estr = 'index%+d' % li.get(1, 0) if li and any(a != 1 for a in li) else str((li or {}).get(1, 0)) if li is not None else '?'
            estr = estr.replace('+0', '')
            kk = key('C16.R10', f, 'argv[%s]:not-below-argc' % estr)
            if idx[0] == 'int':
                # a constant element: only argv[0], the program name, is below every argc >= 1 (the domain of the rule)
                if idx[1] == 0: rep.ok('C16.R10', '%s: argv[0]@%s - the program name; within bounds for every argc >= 1' % (f.name, x.line))
                else: rep.fail('C16.R10', kk, where(x), '%s() reads argv[%d] without relating it to argc' % (f.name, idx[1]))
                continue
            for c in f.ins:
                g = prog.fn(c.callee) if c.op == 'call' and isinstance(c.callee, str) else None
                if g is not None and g is not f and any(stores_cursor(h) for h in [prog.fn(nm) for nm in reach_fns(prog, [g.name])] if h is not None and h.blocks) and x in cfg.reach(c):
                    raise AnalysisBroken('C16.R10: %s() calls %s(), which changes the option cursor, before reading argv[%s]; the read cannot be related to index/argc' % (f.name, g.name, estr))
            bad = None; hits = 0
            try:
                for argc in range(1, 9):
                    for index in range(0, argc + 3):
                        mem = {}
                        for k_ in cells['index']: mem[k_] = index
                        for k_ in cells['argc']: mem[k_] = argc
                        ev = MiniEval(prog, None, max_steps=400000, max_paths=20000, memo=True, inline=False, stop=x)
                        for o in ev.run(f, f.entry, 0, {}, mem):
                            if o[0] != 'hit': continue
                            nev += 1; hits += 1
                            e = ev.val(idx, o[1])
                            if not isinstance(e, int):
                                raise AnalysisBroken('C16.R10: the element index of the argv read at %s is not a function of index/argc (%s)' % (where(x), e))
                            if not (0 <= e < argc) and bad is None: bad = (index, argc, e)
            except EvalUnknown as ex:
                raise AnalysisBroken('C16.R10: cannot evaluate %s() up to the argv read at %s (%s)' % (f.name, where(x), ex))
            if not hits:
                raise AnalysisBroken('C16.R10: the argv read at %s is never reached in the evaluation of %s(); nothing was decided' % (where(x), f.name))
            if bad:
                rep.fail('C16.R10', kk, where(x), '%s() can read argv[%d] with argc = %d (index = %d): argv[argc] is only the terminating NULL and anything beyond lies outside the array, so e.g. an option '
                         'that needs an argument and is the last word is dereferenced instead of diagnosed' % (f.name, bad[2], bad[1], bad[0]), replay_input='flex -P      (or -o / -D / -S as the last word)')
            else:
                rep.ok('C16.R10', '%s: argv[%s]@%s is reached only with 0 <= %s < argc (all index in 0..argc+2, argc in 1..8)' % (f.name, estr, x.line, estr))
    rep.note('C16.R10: %d feasible arrivals at argv reads evaluated' % nev)
    return n

# ================================================================ R11  growth guards are tight

def growth_guards(prog, fam):
    """[(C, K, function, branch, label of the growing edge, offset k)] for tests  K + k >= C  (any spelling) whose taken
    edge directly controls a store that increases C or a call to a function that does"""
    out = []
    for C in sorted(fam):
        gs = grow_stores(prog, C)
        if not gs: continue
        growers = {g.fn.name for g in gs}
        CA = ('load', ('global', C))
        for f in fns(prog):
            res = Resolver(f); ucfg = None
            for b in f.blocks:
                br = b.ins[-1]
                be = branch_edges(f, br) if br.op == 'br' else None
                if be is None: continue
                ic, tl, fl = be
                l0 = lin(f, ic.ops[0], res); l1 = lin(f, ic.ops[1], res)
                if l0 is None or l1 is None or (CA not in l0 and CA not in l1): continue
                # bring to  kside (>=|>|<|<=) cside  with C only on the cside
                if CA in l1 and CA not in l0: kside, cside, pred = l0, l1, ic.pred
                elif CA in l0 and CA not in l1: kside, cside, pred = l1, l0, {'sge': 'sle', 'sgt': 'slt', 'sle': 'sge', 'slt': 'sgt', 'uge': 'ule', 'ugt': 'ult', 'ule': 'uge', 'ult': 'ugt'}.get(ic.pred)
                else: continue
                if pred is None or cside.get(CA) != 1 or any(a != 1 and a != CA for a in cside): continue
                lab = tl if pred in ('sge', 'sgt', 'uge', 'ugt') else fl if pred in ('sle', 'slt', 'ule', 'ult') else None
                if lab is None: continue
                atoms = [a for a in kside if a != 1]
                if len(atoms) != 1 or kside[atoms[0]] != 1 or atoms[0][0] != 'load' or atoms[0][1][0] != 'global': continue
                ucfg = ucfg or prog.cfg(f, cut=False)
                for bb in f.blocks:
                    if not any((x in gs) or (x.op == 'call' and x.callee in growers) for x in bb.ins): continue
                    if any(b2 is br and t2 is f.bmap[lab] for b2, t2 in ucfg.control_deps(bb)):
                        out.append((C, atoms[0][1][1], f, br, lab)); break
    return out

def r11(prog, rep):
    """for every growth guard: interpret the function from the guard for all small (K, C); on every path that does not
    grow, every store into an array of C's family with a computable index uses an index < C"""
    from common import AnalysisBroken
    from genutil import MiniEval, EvalUnknown, PathEnd
    fam = {C: gs for C, gs in capacity_families(prog).items() if not any(c_ == C for c_, _g in R8_EXCEPT)}
    guards = growth_guards(prog, fam)
    n = 0; table = []
    for C, K, f, br, lab in guards:
        n += 1
        res = Resolver(f)
        growers = {g.fn.name for g in grow_stores(prog, C)}
        kk = key('C16.R11', f, '%s:guard-not-tight' % C)
        kcell = flow._freeze(('global', K)); ccell = flow._freeze(('global', C))
        # family element stores of this function: instruction -> (array, index value)
        fstores = {}
        for x in f.ins:
            if x.op != 'store': continue
            d = f.def_of(flow.strip_casts(f, x.ops[1]))
            for _ in range(4):          # member of a struct/union element
                if d is not None and d.op == 'getelementptr' and len(d.ops) >= 2 and f.def_of(flow.strip_casts(f, d.ops[0])) is not None \
                   and f.def_of(flow.strip_casts(f, d.ops[0])).op != 'load' and d.ops[1] == ('int', 0): d = f.def_of(flow.strip_casts(f, d.ops[0]))
                else: break
            if d is None or d.op != 'getelementptr' or len(d.ops) < 2: continue
            b_ = f.def_of(flow.strip_casts(f, d.ops[0]))
            if b_ is not None and b_.op == 'load' and res.loc(b_.ops[0])[0] == 'global' and res.loc(b_.ops[0])[1] in fam[C]:
                fstores[x] = (res.loc(b_.ops[0])[1], d.ops[1])
        bad = None; seen = 0; ungrown = 0
        try:
            for c in range(1, 9):
                for k in range(0, c + 2):
                    def hook(x, av, mem):
                        if isinstance(x.callee, str) and x.callee in growers: raise PathEnd()
                        return None
                    state = {'ev': None}
                    def observe(x, regs, mem, c=c, k=k):
                        nonlocal bad, seen
                        if res.loc(x.ops[1]) == ('global', C): raise PathEnd()       # grown in place: what follows is within the new capacity
                        fs = fstores.get(x)
                        if fs is None: return
                        e = state['ev'].val(fs[1], regs)
                        if not isinstance(e, int): return
                        seen += 1
                        cv = mem.get(ccell)
                        if isinstance(cv, int) and e >= cv and bad is None: bad = (k, c, fs[0], e, x)
                    ev = MiniEval(prog, hook, max_steps=300000, max_paths=20000, memo=True, inline=False, observe=observe, max_visits=3)
                    state['ev'] = ev
                    outs = ev.run(f, br.blk, 0, {}, {kcell: k, ccell: c})
                    ungrown += sum(1 for o in outs if o[0] in ('ret', 'cut'))
        except EvalUnknown as ex:
            raise AnalysisBroken('C16.R11: cannot evaluate %s() from its growth guard on %s (%s)' % (f.name, C, ex))
        if not ungrown:
            raise AnalysisBroken('C16.R11: the guard `%s vs %s` in %s() sends every evaluated path into the growth; it is not a function of (%s, %s) alone' % (K, C, f.name, K, C))
        table.append('%s/%s in %s@%s (%d stores checked)' % (K, C, f.name, br.line, seen))
        if bad:
            k, c, G, e, x = bad
            rep.fail('C16.R11', kk, where(br), 'the growth test on %s in %s() is not tight: with %s = %d and %s = %d it does not grow, and %s[%d] is then stored (%s) although the arrays of the family hold %d elements: '
                     'a write one element past every table of the family' % (C, f.name, K, k, C, c, G, e, where(x), c),
                     replay_input='a specification with exactly %s + 1 elements of that kind (e.g. 40 start conditions): valgrind reports the invalid write' % C)
        else:
            rep.ok('C16.R11', '%s: guard on %s/%s @%s: no store at an index >= %s on any path that does not grow (%d stores, %s in 0..%s+1, %s in 1..8)' % (f.name, K, C, br.line, C, seen, K, C, C))
    rep.note('C16.R11 growth guards derived from the IR: ' + ' | '.join(table))
    return n

# ================================================================ R12  every input file is opened

def r12(prog, rep, anchors=True):
    """the cursor over input_files[]: the first file is opened once outside yywrap() with input_files[0] (NULL when there
    is none), and yywrap() opens *++input_files exactly while files remain, so that a run opens num_input_files files"""
    from common import AnalysisBroken
    from genutil import MiniEval, EvalUnknown
    yw = prog.fn('yywrap')
    if yw is None:
        if anchors: rep.broken('C16.R12: yywrap() not found')
        return 0
    n = 0
    kk = key('C16.R12', yw, 'input-file-count')
    # ---- first call site(s) outside yywrap
    first = [c for c in prog.callers('set_input_file') if c.fn is not yw]
    n += 1
    k1 = 'C16.R12:%s:%s:first-input-file' % (srcfile(first[0].fn) if first else '?', first[0].fn.name if first else '?')
    ok_first = False
    if len(first) == 1:
        f = first[0].fn; res = Resolver(f)
        # the argument is input_files[0] or NULL, chosen by a test of num_input_files > 0
        vals = []
        a = first[0].ops[0]; d = f.def_of(flow.strip_casts(f, a))
        work = [a]
        while work:
            v = work.pop(); d = f.def_of(flow.strip_casts(f, v)) if v[0] == 'reg' else None
            if v == ('null',): vals.append('NULL')
            elif d is not None and d.op == 'phi': work += list(d.ops)
            elif d is not None and d.op == 'select': work += list(d.ops[1:])
            elif d is not None and d.op == 'load':
                g = f.def_of(flow.strip_casts(f, d.ops[0]))
                if g is not None and g.op == 'getelementptr' and len(g.ops) == 2 and g.ops[1] == ('int', 0) and res.loc(flow.strip_casts(f, g.ops[0])) == ('deref', ('global', 'input_files')):
                    vals.append('input_files[0]')
                elif res.loc(d.ops[0]) == ('deref', ('global', 'input_files')): vals.append('input_files[0]')
                else: vals.append('?')
            else: vals.append('?')
        ok_first = sorted(set(vals)) in (['NULL', 'input_files[0]'], ['input_files[0]'])
        st_n = [x for x in f.ins if x.op == 'store' and res.loc(x.ops[1]) == ('global', 'num_input_files')]
        st_f = [x for x in f.ins if x.op == 'store' and res.loc(x.ops[1]) == ('global', 'input_files')]
        cfg = prog.cfg(f)
        ok_first = ok_first and bool(st_n) and bool(st_f) and all(cfg.ins_dominates(x, first[0]) for x in st_n + st_f)
        if ok_first: rep.ok('C16.R12', '%s opens the first input once: set_input_file(%s)@%s after num_input_files/input_files are set' % (f.name, ' or '.join(sorted(set(vals))), first[0].line))
    if not ok_first:
        rep.fail('C16.R12', k1, where(first[0]) if first else fwhere(yw), 'the first input file is not opened exactly once with input_files[0] (or NULL) after num_input_files and input_files have been set (%d call sites of set_input_file() outside yywrap())' % len(first))
    # ---- yywrap, evaluated
    n += 1
    res = Resolver(yw)
    ncell = flow._freeze(('global', 'num_input_files'))
    def one(nval):
        state = {'open': 0, 'arg_ok': True}
        def hook(x, av, mem):
            if x.callee == 'set_input_file':
                state['open'] += 1
                # the file opened is *++input_files: the argument is loaded through input_files after it was advanced by one
                d = yw.def_of(flow.strip_casts(yw, x.ops[0]))
                adv = [y for y in yw.ins if y.op == 'store' and res.loc(y.ops[1]) == ('global', 'input_files')]
                good = d is not None and d.op == 'load' and len(adv) == 1 and prog.cfg(yw).ins_dominates(adv[0], x)
                if good:
                    g = yw.def_of(flow.strip_casts(yw, adv[0].ops[0]))
                    good = g is not None and g.op == 'getelementptr' and len(g.ops) == 2 and g.ops[1] == ('int', 1) and res.loc(flow.strip_casts(yw, g.ops[0])) == ('deref', ('global', 'input_files')) \
                           and flow.strip_casts(yw, d.ops[0]) == ('reg', g.res)
                state['arg_ok'] = state['arg_ok'] and good
            return None
        ev = MiniEval(prog, hook, max_steps=20000, max_paths=64, memo=True, inline=False)
        outs = [o for o in ev.run(yw, yw.entry, 0, {}, {ncell: nval}) if o[0] == 'ret']
        if len(outs) != 1 or not isinstance(outs[0][1], int) or not isinstance(outs[0][2].get(ncell), int):
            raise AnalysisBroken('C16.R12: yywrap() is not a function of num_input_files alone (num_input_files = %d)' % nval)
        return state['open'], outs[0][1], outs[0][2][ncell], state['arg_ok']
    bad = None
    try:
        for N in range(1, 6):
            opens = 1; cur = N; steps = 0
            while True:
                steps += 1
                o, rv, cur, arg_ok = one(cur)
                if not arg_ok and bad is None: bad = 'yywrap() does not open *++input_files (the next entry of the cursor)'
                if o and rv != 0 and bad is None: bad = 'yywrap() opens a file but returns %d (end of input)' % rv
                if not o and rv == 0 and bad is None: bad = 'yywrap() returns 0 (more input) without opening a file'
                opens += o
                if rv != 0 or steps > 8: break
            if opens != N and bad is None:
                bad = 'with %d input files on the command line a run opens %d of them: yywrap() stops %s' % (N, opens, 'early, so the last file is never read' if opens < N else 'late, reading past input_files[]')
    except EvalUnknown as ex:
        raise AnalysisBroken('C16.R12: cannot evaluate yywrap() (%s)' % ex)
    if bad: rep.fail('C16.R12', kk, fwhere(yw), bad, replay_input='flex -t a.l b.l   with a syntax error in b.l: flex must report it')
    else: rep.ok('C16.R12', 'yywrap: evaluated for 1..5 input files - a run opens exactly num_input_files files, each through *++input_files, and returns 0 iff it opened one')
    return n

# ---------------------------------------------------------------- R13: a function that may move its argument hands the new address back

REALLOC_FAMILY = ('reallocate_array', 'realloc', 'reallocarray', 'yyrealloc')

def moving_functions(prog):
    """{function: parameter slot} for the functions of flex that reallocate the block a pointer parameter points to and
    return the (possibly new) address: a store into the parameter's slot of a value derived from a realloc-family call
    whose first argument is that parameter, and a `ret` of a load of the same slot"""
    out = {}
    for f in fns(prog):
        if not f.blocks: continue
        slots = {}
        for x in f.ins:
            if x.op == 'store' and x.ops[0][0] == 'reg' and x.ops[0][1] in getattr(f, 'params', ()) :
                slots[x.ops[1]] = x.ops[0][1]
        if not slots:
            # parameters are spilled to %name.addr allocas in -O0 IR
            for x in f.ins:
                if x.op == 'store' and x.ops[1][0] == 'reg' and str(x.ops[1][1]).endswith('.addr'): slots[x.ops[1]] = x.ops[0]
        for slot in slots:
            moved = False
            for c in f.ins:
                if c.op != 'call' or c.callee not in REALLOC_FAMILY or not c.ops: continue
                a = flow.strip_casts(f, c.ops[0]); d = f.def_of(a) if a[0] == 'reg' else None
                if d is None or d.op != 'load' or d.ops[0] != slot: continue
                for st in f.ins:
                    if st.op == 'store' and st.ops[1] == slot and flow.strip_casts(f, st.ops[0]) == ('reg', c.res): moved = True
            if not moved: continue
            for r in f.ins:
                if r.op == 'ret' and r.ops:
                    d = f.def_of(flow.strip_casts(f, r.ops[0])) if r.ops[0][0] == 'reg' else None
                    if d is not None and d.op == 'load' and d.ops[0] == slot: out[f] = slot
    return out

def r13(prog, rep):
    """every call of such a function uses the returned address: a caller that keeps its old pointer works until the block
    is actually moved (input large enough to outgrow the initial allocation), then reads and frees released memory"""
    mv = moving_functions(prog)
    n = 0
    for g, slot in sorted(mv.items(), key=lambda kv: kv[0].name):
        for f in fns(prog):
            k = 0
            for c in f.ins:
                if c.op != 'call' or c.callee != g.name: continue
                n += 1
                used = any(('reg', c.res) in [o for o in y.ops if isinstance(o, tuple)] for y in f.ins if y is not c) if c.res is not None else False
                kk = key('C16.R13', f, '%s#%d:result-dropped' % (g.name, k)); k += 1
                if used: rep.ok('C16.R13', '%s: the address returned by %s() (which may reallocate its argument) is used' % (where(c), g.name))
                else: rep.fail('C16.R13', kk, where(c), '%s() reallocates the block its pointer argument designates and returns the new address, but this call in %s() drops the '
                               'result: once the block has moved (an input that outgrows the initial allocation) the caller goes on with the released block' % (g.name, f.name))
    return n

def run(ctx):
    rep = ctx.rep
    prog = ctx.flex
    rep.require(len(prog.modules) >= 20, 'only %d translation units of flex were compiled to IR' % len(prog.modules))
    for anchor in ('flex_main', 'readin', 'flexend', 'synerr', 'filter_tee_header', 'filter_fix_linedirs', 'add_action', 'context_call', 'comment', 'flexscan'):
        rep.require(prog.fn(anchor) is not None, 'anchored function %s() not found in flex' % anchor)
    controls(ctx)
    counts = {}
    counts['R1'] = r1(prog, rep)
    counts['R2'] = r2(prog, rep)
    counts['R3'] = r3(prog, rep)
    counts['R4'] = r4(prog, rep)
    counts['R5'] = r5(prog, rep)
    counts['R6'] = r6(prog, rep)
    counts['R7'] = r7(prog, rep)
    counts['R8'], r8table = r8(prog, rep)
    import genutil
    counts['R10'] = r10(prog, rep)
    counts['R11'] = r11(prog, rep)
    counts['R12'] = r12(prog, rep)
    counts['R13'] = r13(prog, rep)
    counts['R9'] = genutil.rule_param_array_loops(rep, prog, 'C16.R9', [f for f in fns(prog) if f.file and not f.file.endswith(('scan.c', 'parse.c')) and 'stage' not in f.file])
    rep.setcount('capacity_families', len(r8table))
    rep.setcount('translation_units', len(prog.modules))
    rep.setcount('functions_analysed', len(fns(prog)))
    for k_, v in counts.items(): rep.setcount('instances_' + k_, v)
    rep.floor('C16.R1', 2, 'wait loops in flex_main and filter_tee_header')
    rep.floor('C16.R2', 30, '5 streams opened for writing, their fclose sites and the writes in the functions that finish them')
    rep.floor('C16.R3', 9, 'two stores to syntaxerror, the readin test, the yyparse result, six success exits, flexend/readin order')
    rep.floor('C16.R4', 50, 'census + strcpy + 9-10 strncpy + strncat + 41 (v)snprintf today')
    rep.floor('C16.R5', 2, 'mkstate, new_rule')
    rep.floor('C16.R6', 2, 'flexend unlink, check_options outfile_created')
    rep.floor('C16.R7', 800, 'constant-index addresses of fixed arrays in flex')
    rep.floor('C16.R11', 12, 'growth guards today: sf_push, genctbl x2, mkctbl x2, snstods, new_rule, scinstal, mk1tbl x2, cclinit, mkstate - a family whose guard is no longer a K-vs-C test drops out and trips this floor')
    rep.floor('C16.R12', 2, 'first open in flexinit, yywrap')
    rep.floor('C16.R13', 2, 'the two calls of epsclosure() in ntod()')
    rep.floor('C16.R10', 5, 'argv reads today: scanopt x2, scanopt_err x3 (one guarded, two argv[0]), scanopt_usage argv[0], flexinit argv[0]')
    rep.floor('C16.R9', 8, 'loops over (array, count) parameter pairs in dfa.c, ecs.c, tblcmp.c')
    rep.floor('C16.R8', 38, '11 capacity families with 37 (capacity, array) pairs today; epsclosure grows current_max_dfa_size at 5 macro sites')
    rep.undecided += ['termination and crash-freedom of flex on arbitrary input',
                      'bounds of writes that are not made through strcpy/strncpy/strncat/(v)snprintf (hand-written copy loops, array indexing)',
                      'that the functions holding a flush point perform the last write of the run to that stream (checked per function only)',
                      'that every diagnostic path prints a message; the file:line form of syntax messages',
                      'limits other than maximum_mns / MAX_RULE / MAXLINE name copies']
    rep.assumptions += ['clang -O0 IR of flex as built by the repository\'s own make is a faithful rendering of the sources',
                        'glibc macro expansion of WIFEXITED/WEXITSTATUS (masks 0x7f / 0xff00)',
                        'scanner invariant yytext[yyleng] == 0 in flex\'s own scanner (so strlen(yytext+k) <= yyleng-k)',
                        'fsetpos() reports a failed flush of buffered data (glibc does)']
    return rep.finish('other',
        'Path rules over the LLVM IR of flex\'s own %d translation units (%d functions, incl. parse.c and stage1scan.c): wait-status folding by '
        'control dependence and value flow into the returned status; per-stream open/write/flush-check/close discipline with reachability '
        'avoiding the flush points; post-dominance of the syntaxerror test over yyparse() in readin() and an allow-list of status-0 exits; '
        'census of unbounded string calls and a capacity/termination proof for every strcpy/strncpy/strncat/(v)snprintf (constant vs array '
        'size, dominating length guards, linear comparison of allocation and size expressions); dominance of the limit tests in mkstate() and '
        'new_rule(); control dependence of the unlink in flexend().' % (len(prog.modules), len(fns(prog))))
