"""C09 - yylineno equals one plus the number of newlines consumed (the static approximation).

The run-time count is  sum over matched rules r of [rule_has_nl[r]] * (newlines in the text of r)  corrected by
yyless / yyunput / yyinput / trailing-context rewinds.  It is right only if the generator's flag
rule_has_nl[r] over-approximates "rule r can match a newline", if the flag reaches the scanner unchanged, and
if every run-time path that consumes or returns a byte adjusts the counter under a comparison with '\\n'.

R1  generator: every mkstate() call that can create a newline transition (class argument / character
    argument) has, in the same parse.y action, a store rule_has_nl[num_rules] = true that is passed on
    every path on which ccl_has_nl[class] is set / the character equals nlch.  mkstate() is the only writer of
    transchar[]; every other mkstate() call in flex creates an epsilon state or copies a state of the same rule.
R2  generator: ccl_has_nl[] follows every change of a class (cclinit, ccladd, cclnegate); nobody else writes
    class members or negation; nlch is '\\n' and never written.
R3  scanner: in every variant instantiated with M4_MODE_YYLINENO the counter is incremented after the match
    under yy_rule_can_match_eol[yy_act] and a comparison with '\\n', decremented by yyunput and incremented by
    yyinput under a comparison of the byte with '\\n', and rewound by both yyless expansions and by the fixed
    trailing context prologues; every other increment/decrement is guarded by a newline comparison as well.
    In variants without the mode nothing but initialisation and yyset_lineno writes the counter (count 0,
    positive control selftest/c09_writers.ll).
R4  generator: finish_rule() emits M4_HOOK_LINE_FORWARD/REWIND(n) under rule_has_nl[num_rules] before every
    M4_HOOK_CHAR_FORWARD/REWIND(n), with the same n.
R5  generator: geneoltbl() (in-code table) and mkeoltbl() (serialized table) emit the same thing:
    rule_has_nl[i] ? 1 : 0 for i = 1..num_rules, table length num_rules + 1.
R7  scanner, yymore(): in every variant instantiated with M4_MODE_YYLINENO and M4_MODE_YYMORE_USED the post-match
    newline loop of yylex starts at the first character of the NEW piece of the token, so that text kept by
    yymore() is not counted again.  Decided by value flow, not by name: "the offset of the new piece" is the value
    the token set-up (YY_DO_BEFORE_ACTION / yy_do_before_action) reads from a scanner register to place the token
    text (subtracted from the text pointer with %pointer; the index of the copy destination in the text array with
    %array).  The initial value of the loop index must be loaded from a cell that holds that value on every path to
    the loop: the register itself if nothing overwrites it between the set-up and the loop, or a cell the set-up
    copied it into (also through a called set-up function, by summary).  A register that the set-up resets after
    reading it (yy_more_offset with %array), a constant, or anything computed fails.
R8  scanner, yyless() after yymore(): in the same variants the loop that rewinds the line counter for yyless (inline in
    the cpp skeleton, the helper yy_less_lineno of c99/go) walks yytext from a start index to yyleng; that index must
    be the yyless argument, which counts from yytext[0] and so already includes the text kept by yymore().  The start
    value is followed through locals and into the arguments of every call of the helper; it must not depend on a
    yymore length/offset register (the registers the token set-up reads to place the text, found by value flow).
"""
import os, re
import ir, flow, variants
from common import where, fwhere, VERIF

NL = 10

# ------------------------------------------------------------------ exception tables (one symbol per entry)

# R1: class globals whose newline membership is fixed by construction (checked, see _excluded_by_construction)
R1_CLASS_EXCLUDES_NL = {
    'ccldot': "'.' excludes newline by construction: cclinit(); ccladd(ccldot,'\\n'); cclnegate(ccldot)",
}
# R1: productions whose constant '\n' state is not counted
R1_CONST_NL_PRODUCTIONS = {
    "rule: re '$'": "trailing newline of `re$`: the byte is never part of yytext; counting (post-match loop) and rewinding "
                    "(M4_HOOK_LINE_REWIND, C09.R4) are gated by the same flag, so leaving it clear is consistent",
}
# R1: non-epsilon mkstate callers outside yyparse
R1_COPY_CALLERS = {
    'dupmachine': 'copies transchar[i] of an existing machine of the rule being parsed (copysingl/mkrep); the rule was marked when '
                  'the original state was made',
}
# R2: writers of ccltbl[] that need not maintain ccl_has_nl
R2_CCLTBL_WRITERS = {
    'ccl2ecl': 'rewrites class members to equivalence-class numbers after all rules have been parsed; rule flags are final by then',
}
# R2: functions that receive a pointer into ccltbl[]
R2_CCLTBL_ESCAPES = {
    'qsort': 'permutes the members of one class (fullccl action); membership is unchanged',
    'mkeccl': 'reads class members to refine equivalence classes (checked: no store through the parameter)',
}
# R3: functions that may set (not increment/decrement) the line counter in any variant
R3_SETTERS = {
    'yyset_lineno': 'documented setter',
    'yy_init_buffer': 'new buffer starts at line 1',
    'yy_scan_buffer': 'new buffer over caller-supplied memory starts at line 1 (it fills the structure itself instead of calling yy_init_buffer; D57)',
    'yy_init_globals': 'scanner (re)initialisation',
    'ctor_common': 'C++ constructor',
}

# names (after prefix normalisation) of interface locations per back end
LINE_NAMES = {'yylineno', 'yy_bs_lineno', 'bs_yylineno', 'yylineno_r'}
EOLTBL_NAMES = {'yy_rule_can_match_eol', 'yyRuleCanMatchEOL'}
ATBOL_NAMES = {'yyatbol', 'yyatbol_flag', 'yyatbolFlag', 'yy_at_bol'}
HOLD_NAMES = {'yy_hold_char', 'yyHoldChar'}
CBUFP_NAMES = {'yy_c_buf_p', 'yyCBufP'}
YYTEXT_NAMES = {'yytext', 'yytext_r', 'yytext_ptr'}
YYLENG_NAMES = {'yyleng', 'yyleng_r'}

def norm(name):
    m = re.match(r'_ZL(\d+)(\w+)$', name)          # C++ file-static: _ZL<len><name>
    if m and len(m.group(2)) == int(m.group(1)): name = m.group(2)
    return re.sub(r'\b(foo|bar)(?=[a-zA-Z_])', 'yy', name)

def base(name):
    """unqualified, prefix-normalised function name (Itanium nested names are unpacked)"""
    if name.startswith('_ZN'):
        i = 3; parts = []
        while i < len(name) and name[i].isdigit():
            j = i
            while name[j].isdigit(): j += 1
            n = int(name[i:j]); parts.append(name[j:j + n]); i = j + n
        if parts: return norm(parts[-1])
    return norm(name)

def skel(v):
    return {'nr': 'cpp-flex.skl', 'r': 'cpp-flex.skl', 'cxx': 'cpp-flex.skl', 'c99': 'c99-flex.skl', 'go': 'go-flex.skl'}[v.backend]

# ------------------------------------------------------------------ small IR helpers

def strip_int(fn, v):
    n = 0
    while n < 20:
        n += 1
        d = fn.def_of(v)
        if d is not None and d.op in ('sext', 'zext', 'trunc'): v = d.ops[0]; continue
        return v
    return v

def origin(fn, v, through=('reverse_case',)):
    """where an integer value comes from, keeping constant indices:
       ('const', n) | ('global', g) | ('local', a) | ('slot', base-local, k) | ('neg', o) | ('elem', base-origin, index-origin) | ('?', text)"""
    v = strip_int(fn, v)
    if v[0] == 'int': return ('const', v[1])
    d = fn.def_of(v)
    if d is None: return ('?', str(v))
    if d.op == 'sub' and d.ops[0] == ('int', 0): return ('neg', origin(fn, d.ops[1], through))
    if d.op in ('call', 'invoke') and d.callee in through and d.ops: return origin(fn, d.ops[0], through)
    if d.op == 'load':
        a = d.ops[0]
        if a[0] == 'glob': return ('global', a[1])
        ad = fn.def_of(a)
        if ad is None: return ('?', str(a))
        if ad.op == 'alloca': return ('local', ad.res)
        if ad.op == 'getelementptr':
            bo = origin(fn, ad.ops[0], through) if ad.ops[0][0] == 'reg' else (('global', ad.ops[0][1]) if ad.ops[0][0] == 'glob' else ('?', str(ad.ops[0])))
            idx = ad.ops[1:]
            if len(idx) == 2 and idx[0] == ('int', 0): idx = idx[1:]     # [N x T]* global array
            if len(idx) == 1:
                io = origin(fn, idx[0], through)
                if bo[0] == 'local' and io[0] == 'const': return ('slot', bo[1], io[1])
                return ('elem', bo, io)
        return ('?', d.op)
    return ('?', d.op)

def elem_store(fn, x):
    """store x writes base[idx]: returns (base-origin, index-origin) or None"""
    if x.op != 'store': return None
    ad = fn.def_of(x.ops[1])
    if ad is None or ad.op != 'getelementptr': return None
    b = ad.ops[0]
    bo = origin(fn, b) if b[0] == 'reg' else (('global', b[1]) if b[0] == 'glob' else None)
    idx = ad.ops[1:]
    if len(idx) == 2 and idx[0] == ('int', 0): idx = idx[1:]
    if bo is None or len(idx) != 1: return None
    return bo, origin(fn, idx[0])

def branch_test(fn, br):
    """conditional branch `br` compares a with b: (a, b, eq_label, ne_label), truthiness is `x != 0`"""
    if br.op != 'br' or not br.ops or len(br.targets) < 2: return None
    t, f = br.targets[0], br.targets[1]
    d = fn.def_of(br.ops[0])
    n = 0
    while d is not None and d.op == 'xor' and ('int', 1) in d.ops and n < 8:
        n += 1; t, f = f, t
        d = fn.def_of(d.ops[0] if d.ops[1] == ('int', 1) else d.ops[1])
    if d is None: return None
    if d.op == 'icmp' and d.pred in ('eq', 'ne'):
        a, b = d.ops
        return (a, b, t, f) if d.pred == 'eq' else (a, b, f, t)
    if d.op == 'trunc':      # _Bool loaded from memory
        return (d.ops[0], ('int', 0), f, t)
    return None

def truthy_of(fn, br):
    """br tests x != 0: (x, nonzero_label, zero_label)"""
    bt = branch_test(fn, br)
    if bt is None: return None
    a, b, eq, ne = bt
    if b == ('int', 0): return (a, ne, eq)
    if a == ('int', 0): return (b, ne, eq)
    return None

def walk_loc(loc):
    while loc:
        k = loc[0]
        if k == 'global': yield ('g', loc[1]); return
        if k == 'field': yield ('f', loc[2]); loc = loc[3]; continue
        if k in ('elem', 'deref'): loc = loc[1]; continue
        if k == 'local': yield ('l', loc[1]); return
        if k == 'param': yield ('p', loc[1]); return
        return

def mentions(loc, names):
    return any(t in 'gf' and norm(n) in names for t, n in walk_loc(loc))

def load_loc(fn, res, v):
    """location read by value v (through integer casts), or None"""
    d = fn.def_of(strip_int(fn, v))
    if d is None or d.op != 'load': return None
    return res.loc(d.ops[0])

def action_region(cfg, blk):
    """blocks dominated by blk"""
    return {b for b in cfg.blocks if cfg.dominates(blk, b)}

def region_reach(cfg, start, region, avoid=(), edge_filter=None):
    def ef(b, t):
        if t not in region: return False
        return edge_filter(b, t) if edge_filter is not None else True
    return cfg.reach(start, avoid=avoid, edge_filter=ef)

def leaves_region(cfg, start, region, avoid=(), edge_filter=None):
    """some path from `start` that avoids `avoid` leaves the region"""
    avoid = set(avoid)
    r = cfg.reach(start, avoid=avoid, edge_filter=(lambda b, t: (b in region) and (edge_filter(b, t) if edge_filter else True)))
    return any(x.blk not in region for x in r)

# ================================================================== R1

def production_names(ctx):
    txt = ctx.art.source('parse.c')
    out = {}
    for m in re.finditer(r'^\s*case (\d+): /\* (.*?)\s*\*/', txt, re.M):
        out[int(m.group(1))] = re.sub(r'\s+', ' ', m.group(2).strip())
    return out

def sym_epsilon(ctx):
    """SYM_EPSILON = the constant mkstate() compares its parameter with (`else if (sym == SYM_EPSILON) ++numeps`)"""
    f = ctx.flex.fn('mkstate')
    pn = (f.params[0][1] or '') + '.addr'
    cs = set()
    for x in f.ins:
        if x.op == 'icmp' and x.pred in ('eq', 'ne'):
            for a, b in ((x.ops[0], x.ops[1]), (x.ops[1], x.ops[0])):
                if b[0] == 'int' and b[1] > 255 and origin(f, a) == ('local', pn): cs.add(b[1])     # beyond any byte value
    if len(cs) != 1: ctx.rep.broken('cannot derive SYM_EPSILON from mkstate(): constants compared with the parameter: %s' % sorted(cs))
    return cs.pop()

def arg_desc(o):
    if o[0] == 'neg': return '-' + arg_desc(o[1])
    if o[0] == 'const': return "'\\n'" if o[1] == NL else str(o[1])
    if o[0] == 'global': return o[1]
    if o[0] == 'slot': return '$[%d]' % o[2]
    if o[0] == 'local': return o[1]
    return '?'

def rule_flag_stores(fn, blocks):
    """stores rule_has_nl[num_rules] = <non-zero constant> inside `blocks`"""
    out = []
    for b in blocks:
        for x in b.ins:
            if x.op == 'store' and x.ops[0][0] == 'int' and x.ops[0][1] != 0:
                es = elem_store(fn, x)
                if es == (('global', 'rule_has_nl'), ('global', 'num_rules')): out.append(x)
    return out


def _tests_in(f, blocks, kind, src, flag_array='ccl_has_nl'):
    """branches in `blocks` that test `src`: kind 'class' -> flag_array[src] != 0, kind 'char' -> src == nlch.
    Returns [(br, pass_label, skip_label)]"""
    out = []
    for b in blocks:
        br = b.ins[-1]
        if kind == 'class':
            tv = truthy_of(f, br)
            if tv is not None and origin(f, tv[0]) == ('elem', ('global', flag_array), src): out.append((br, tv[1], tv[2]))
        elif kind == 'char':
            bt = branch_test(f, br)
            if bt is None: continue
            oa, ob = origin(f, bt[0]), origin(f, bt[1])
            nl = (('global', 'nlch'), ('const', NL))
            if (oa == src and ob in nl) or (ob == src and oa in nl): out.append((br, bt[2], bt[3]))
    return out

_summ = {}
def mark_summary(prog, H, stores_of):
    """what a helper H guarantees about the flag stores `stores_of(H)`: set of ('always',) | ('char', k) | ('class', k), k = parameter
    index: the flag is stored on every returning path of H (on which parameter k is newline / is a flagged class)"""
    key = (H.name, stores_of.__name__)
    if key in _summ: return _summ[key]
    out = set()
    S = stores_of(H)
    if S and H.blocks:
        cfg = prog.cfg(H, cut=True); first = H.entry.ins[0]
        if not any(x.op == 'ret' for x in cfg.reach(first, avoid=S, include_start=True)): out.add(('always',))
        for k, (t, pn) in enumerate(H.params):
            if pn is None: continue
            po = ('local', pn + '.addr')
            for kind in ('char', 'class'):
                ts = _tests_in(H, H.blocks, kind, po)
                skip = {(br.blk, H.bmap[sk]) for br, ps, sk in ts if ps != sk}
                if skip and not any(x.op == 'ret' for x in cfg.reach(first, avoid=S, include_start=True, edge_filter=lambda b, t: (b, t) not in skip)):
                    out.add((kind, k))
    _summ[key] = out
    return out

def _rule_stores(H): return rule_flag_stores(H, H.blocks)

def helper_marks(prog, f, blocks, need, stores_of=None):
    """calls in `blocks` of helpers that store the rule flag for what `need` asks (one level of inlining)"""
    stores_of = stores_of or _rule_stores
    out = []
    for b in blocks:
        for c in b.ins:
            if c.op != 'call' or not isinstance(c.callee, str) or c.callee == f.name: continue
            H = prog.fn(c.callee)
            if H is None or not H.blocks: continue
            for sm in mark_summary(prog, H, stores_of):
                if sm == ('always',) or (sm[0] == need[0] and sm[1] < len(c.ops) and origin(f, c.ops[sm[1]]) == need[1]):
                    out.append(c); break
    return out

def _excluded_by_construction(prog, g):
    """global class `g` is built as cclinit(); ccladd(g, '\\n'); cclnegate(g) wherever it is assigned, and nowhere
    else negated: its flag ccl_has_nl[g] is false and it cannot match newline.  Returns (ok, text)."""
    n = 0
    for f in set(prog.functions.values()):
        cfg = None
        for st in f.ins:
            if st.op != 'store' or st.ops[1] != ('glob', g): continue
            d = f.def_of(st.ops[0])
            if d is None or d.op != 'call' or d.callee != 'cclinit':
                return False, '%s is assigned something other than cclinit() at %s' % (g, where(st))
            cfg = cfg or prog.cfg(f, cut=False)
            adds = [c for c in f.calls('ccladd') if origin(f, c.ops[0]) == ('global', g)]
            negs = [c for c in f.calls('cclnegate') if origin(f, c.ops[0]) == ('global', g)]
            nl_adds = [c for c in adds if origin(f, c.ops[1]) == ('const', NL)]
            if len(nl_adds) != 1 or len(negs) != 1:
                return False, "%s: expected exactly one ccladd(%s,'\\n') and one cclnegate(%s) next to its cclinit() in %s" % (g, g, g, f.name)
            a, ng = nl_adds[0], negs[0]
            pd = cfg.postdominators()
            def follows(x, y):   # y runs whenever x ran, after it
                if x.blk is y.blk: return x.idx < y.idx
                return cfg.dominates(x.blk, y.blk) and y.blk in pd.get(x.blk, ())
            if not (follows(st, a) and follows(a, ng)):
                return False, "%s: ccladd(%s,'\\n') / cclnegate(%s) do not follow the cclinit() on every path in %s" % (g, g, g, f.name)
            n += 1
    if n == 0: return False, '%s is never constructed' % g
    return True, "built as cclinit(); ccladd(%s,'\\n'); cclnegate(%s) at %d site(s)" % (g, g, n)

def r1(ctx):
    rep = ctx.rep; prog = ctx.flex
    fn = prog.fn('yyparse'); mk = prog.fn('mkstate')
    if fn is None or mk is None: rep.broken('yyparse / mkstate not found in the flex program')
    for g in ('rule_has_nl', 'ccl_has_nl', 'num_rules', 'nlch', 'transchar'):
        if not any(g in m.globals for m in prog.modules): rep.broken('global %s not found' % g)
    EPS = sym_epsilon(ctx)
    names = production_names(ctx)
    sw = max((x for x in fn.ins if x.op == 'switch'), key=lambda x: len(x.cases or ()), default=None)
    if sw is None or len(sw.cases) < 50: rep.broken('the action switch of yyparse was not found')
    dcfg = prog.cfg(fn, cut=False); pcfg = prog.cfg(fn, cut=True)
    case_of = {}
    for c, lab in sw.cases: case_of.setdefault(lab, c)
    case_blocks = [(fn.bmap[lab], c) for lab, c in case_of.items() if lab in fn.bmap]
    mutators = set()
    for f in set(prog.functions.values()):
        for x in f.ins:
            es = elem_store(f, x) if x.op == 'store' else None
            if es and es[0] == ('global', 'ccl_has_nl') and f.params: mutators.add(f.name)
    n_eps = 0; n_sites = 0; seen_desc = {}
    for call in fn.calls('mkstate'):
        ao = origin(fn, call.ops[0])
        if ao == ('const', EPS): n_eps += 1; continue
        owner = [(b, c) for b, c in case_blocks if dcfg.dominates(b, call.blk)]
        if len(owner) != 1: rep.broken('mkstate call at %s is not inside exactly one parser action' % where(call))
        cb, cno = owner[0]
        prod = names.get(cno, 'case%d' % cno)
        lhs, _, rhs = prod.partition(':')
        desc = 'mkstate(%s)' % arg_desc(ao)
        d0 = fn.def_of(strip_int(fn, call.ops[0]))
        if d0 is not None and d0.op == 'call' and isinstance(d0.callee, str): desc = 'mkstate(%s(%s))' % (d0.callee, arg_desc(ao))
        k = (cno, desc); seen_desc[k] = seen_desc.get(k, 0) + 1
        key = 'C09.R1:parse.y:%s:%s:%s' % (lhs.strip(), (rhs.strip() or '%empty').replace(' ', '_'), desc + ('#%d' % seen_desc[k] if seen_desc[k] > 1 else ''))
        n_sites += 1
        A = action_region(dcfg, cb)
        # what has to be tested
        if ao[0] == 'neg':
            cls = ao[1]; need = ('class', cls)
            if cls[0] == 'global' and cls[1] in R1_CLASS_EXCLUDES_NL:
                ok, txt = _excluded_by_construction(prog, cls[1])
                if ok: rep.ok('C09.R1', '%s %s: excepted, %s' % (prod, desc, txt))
                else: rep.fail('C09.R1', key + ':construction', where(call), 'the class %s is excepted because it excludes newline by construction, but %s' % (cls[1], txt))
                continue
        elif ao[0] == 'const':
            if ao[1] != NL:
                rep.ok('C09.R1', '%s %s: constant character other than newline' % (prod, desc)); continue
            if prod in R1_CONST_NL_PRODUCTIONS:
                rep.ok('C09.R1', "%s %s: excepted (trailing newline of `$`, see C09.R4)" % (prod, desc)); continue
            need = ('always',)
        elif ao[0] in ('slot', 'global', 'local'):
            need = ('char', ao)
        else:
            rep.fail('C09.R1', key, where(call), 'cannot tell where the argument of mkstate() comes from (%s); the rule cannot decide whether it may be a newline' % (ao,)); continue
        # tests of the right flag / character inside the action
        tests = _tests_in(fn, A, need[0], need[1]) if need[0] in ('class', 'char') else []      # (br, pass_label, skip_label)
        skip_edges = {(br.blk, fn.bmap[sk]) for br, ps, sk in tests if ps != sk}
        filt = lambda b, t: (b, t) not in skip_edges
        S = rule_flag_stores(fn, A) + helper_marks(prog, fn, A, need)
        first = cb.ins[0]
        before = call not in pcfg.reach(first, avoid=S, include_start=True, edge_filter=lambda b, t: (b, t) not in skip_edges and t in A)
        after = not leaves_region(pcfg, call, A, avoid=S, edge_filter=filt)
        ok = bool(S) and (before or after)
        # the tested value / flag must not change between the test and the end of the action
        stale = None
        if ok and tests:
            src = need[1]
            for br, ps, sk in tests:
                for x in region_reach(pcfg, br, A):
                    if x.op == 'store':
                        if src[0] == 'global' and x.ops[1] == ('glob', src[1]): stale = x
                        if src[0] == 'slot':
                            es = elem_store(fn, x)
                            if es and es[0] == ('local', src[1]) and es[1] == ('const', src[2]): stale = x
                    if need[0] == 'class' and x.op == 'call' and x.callee in mutators and x.ops and origin(fn, x.ops[0]) == src: stale = x
        if ok and stale is None:
            how = ('through %s()' % S[0].callee) if S[0].op == 'call' else 'unconditional' if not tests else ('under ccl_has_nl[%s]' % arg_desc(need[1]) if need[0] == 'class' else 'under %s == nlch' % arg_desc(need[1]))
            rep.ok('C09.R1', '%s %s: rule_has_nl[num_rules] = true %s @%s' % (prod, desc, how, S[0].line))
        elif stale is not None:
            rep.fail('C09.R1', key, where(call), 'in action `%s` the tested %s is changed after the test (%s), so the flag may be stale when %s runs' % (
                prod, 'class' if need[0] == 'class' else 'character', where(stale), desc))
        else:
            what = {'class': 'ccl_has_nl[%s]' % arg_desc(need[1]) if need[0] == 'class' else '', 'char': '%s == nlch' % arg_desc(need[1]) if need[0] == 'char' else '', 'always': 'true'}[need[0]]
            wit = pcfg.path(first, lambda x: x is call, avoid=S, include_start=True, edge_filter=lambda b, t: (b, t) not in skip_edges and t in A)
            rep.fail('C09.R1', key, where(call),
                     'action `%s` creates the NFA state %s, which can be a newline transition, but no store rule_has_nl[num_rules] = true is passed when %s: '
                     'yy_rule_can_match_eol[] stays 0 for such a rule and the scanner does not count the newlines it matches' % (prod, desc, what),
                     witness=['%s:%s' % (x.blk.name, x.line) for x in wit] if wit else None,
                     replay_input=REPLAY.get(cls_name(need)))
    # everything outside yyparse
    n_other_eps = 0
    for call in prog.callers('mkstate'):
        if call.fn is fn: continue
        ao = origin(call.fn, call.ops[0])
        if ao == ('const', EPS): n_other_eps += 1; continue
        key = 'C09.R1:%s:%s:mkstate(%s)' % (os.path.basename(call.fn.file or '?'), call.fn.name, arg_desc(ao))
        if call.fn.name in R1_COPY_CALLERS and ao[0] == 'elem' and ao[1] == ('global', 'transchar'):
            # the copy is made while the same rule is being parsed: all callers of the copier are NFA operators reached from yyparse
            rep.ok('C09.R1', '%s mkstate(transchar[i]): excepted, copy of an existing state of the same rule' % call.fn.name)
        else:
            rep.fail('C09.R1', key, where(call), '%s() creates a non-epsilon NFA state outside the parser actions; nothing marks the rule as matching newline' % call.fn.name)
    # transchar[] has no other writer
    w = set()
    for f in set(prog.functions.values()):
        for x in f.ins:
            es = elem_store(f, x) if x.op == 'store' else None
            if es and es[0] == ('global', 'transchar'): w.add(f.name)
    if w == {'mkstate'}: rep.ok('C09.R1', 'transchar[] is written only by mkstate()')
    elif not w: rep.broken('no writer of transchar[] found')
    else:
        for f in sorted(w - {'mkstate'}):
            rep.fail('C09.R1', 'C09.R1:nfa.c:%s:transchar-store' % f, fwhere(prog.fn(f)), '%s() writes transchar[] directly: a transition that bypasses the rule_has_nl marking' % f)
    rep.setcount('mkstate_sites_in_actions', n_sites)
    rep.setcount('mkstate_epsilon_sites', n_eps + n_other_eps)
    rep.note('C09.R1: %d non-epsilon and %d epsilon mkstate() call sites in parser actions; %d epsilon call sites elsewhere' % (n_sites, n_eps, n_other_eps))
    if n_eps + n_other_eps < 10: rep.broken('only %d epsilon mkstate() call sites recognised (SYM_EPSILON=%d)' % (n_eps + n_other_eps, EPS))

def cls_name(need):
    if need[0] == 'class' and need[1][0] == 'global': return need[1][1]
    return None

REPLAY = {
    'cclany': "%option yylineno noyywrap\n%%\n(?s:.)  { }\n%%\nint main(void){ yylex(); printf(\"%d\\n\", yylineno); return 0; }\n"
              "# input `a\\nb\\nc` prints 1, expected 3 (yy_rule_can_match_eol[1] is 0)",
    'pat': "%option yylineno noyywrap\n%%\na  { }\n%%\nint main(void){ yylex(); printf(\"%d\\n\", yylineno); return 0; }\n"
           "# input `a\\nb\\nc`: the newlines are matched by the default rule; prints 1, expected 3",
}

# ================================================================== R2

def r2(ctx):
    rep = ctx.rep; prog = ctx.flex
    fns = sorted(set(prog.functions.values()), key=lambda f: f.name)
    # (a) negation flag and newline flag move together
    n = 0
    for f in fns:
        ng = [x for x in f.ins if x.op == 'store' and (elem_store(f, x) or (None,))[0] == ('global', 'cclng')]
        if not ng: continue
        cfg = prog.cfg(f, cut=True)
        for st in ng:
            n += 1
            idx = elem_store(f, st)[1]
            key = 'C09.R2:ccl.c:%s:cclng-store' % f.name
            hs = [x for x in f.ins if x.op == 'store' and elem_store(f, x) == (('global', 'ccl_has_nl'), idx)]
            v = st.ops[0]
            good = []
            for h in hs:
                if v == ('int', 0):
                    if h.ops[0] == ('int', 0): good.append(h)          # fresh, empty, un-negated class: flag cleared
                else:
                    if _is_negation_of(f, h.ops[0], ('elem', ('global', 'ccl_has_nl'), idx)): good.append(h)
            always = [h for h in good if cfg.ins_dominates(h, st) or cfg.postdominated_by(st, [h])]
            if always:
                rep.ok('C09.R2', '%s: cclng[%s] = %s with ccl_has_nl[%s] %s @%s' % (f.name, arg_desc(idx), 'negated' if v != ('int', 0) else '0', arg_desc(idx),
                                                                                    'complemented' if v != ('int', 0) else 'cleared', always[0].line))
            else:
                rep.fail('C09.R2', key, where(st), '%s() %s the class but does not %s ccl_has_nl[] of the same class on every path: a negated class that now contains '
                         'newline (e.g. [^a]) is not flagged, the rules using it are not counted' % (f.name, 'negates' if v != ('int', 0) else 'creates',
                                                                                                   'complement' if v != ('int', 0) else 'clear'))
    if n == 0: rep.broken('no store to cclng[] found')
    # (b) members are added only with the flag maintained
    n = 0
    for f in fns:
        tb = [x for x in f.ins if x.op == 'store' and (elem_store(f, x) or (None,))[0] == ('global', 'ccltbl')]
        if not tb: continue
        n += 1
        key = 'C09.R2:%s:%s:ccltbl-store' % (os.path.basename(f.file or 'ccl.c'), f.name)
        if f.name in R2_CCLTBL_WRITERS:
            rep.ok('C09.R2', '%s writes ccltbl[]: excepted (%s)' % (f.name, R2_CCLTBL_WRITERS[f.name].split(';')[0])); continue
        cfg = prog.cfg(f, cut=True)
        # the class being extended: the index of the ccllen[] store
        lens = [elem_store(f, x)[1] for x in f.ins if x.op == 'store' and (elem_store(f, x) or (None,))[0] == ('global', 'ccllen')]
        if len(set(lens)) != 1:
            rep.fail('C09.R2', key, fwhere(f), '%s() writes ccltbl[] but the class it extends cannot be identified (ccllen[] stores: %d)' % (f.name, len(lens))); continue
        cls = lens[0]
        S = [x for x in f.ins if x.op == 'store' and x.ops[0][0] == 'int' and x.ops[0][1] != 0 and elem_store(f, x) == (('global', 'ccl_has_nl'), cls)]
        chs = {origin(f, x.ops[0]) for x in tb}
        via = _ccl_helper_calls(prog, f, cls, chs.pop() if len(chs) == 1 else None)
        S = S + via
        skip = set()
        for b in f.blocks:
            bt = branch_test(f, b.ins[-1])
            if bt is None: continue
            oa, ob = origin(f, bt[0]), origin(f, bt[1])
            for ch, other in ((oa, ob), (ob, oa)):
                if other in (('global', 'nlch'), ('const', NL)) and ch[0] == 'local' and any(ch[1] == (p or '') + '.addr' for _, p in f.params):
                    # the character compared must be the one stored into ccltbl[]
                    if all(origin(f, x.ops[0]) == ch for x in tb) and bt[2] != bt[3]: skip.add((b, f.bmap[bt[3]]))
        bad = [x for x in tb if x in cfg.reach(f.entry.ins[0], avoid=S, include_start=True, edge_filter=lambda b, t: (b, t) not in skip)]
        if S and (skip or via) and not bad:
            rep.ok('C09.R2', '%s: ccltbl[] store @%s only after ccl_has_nl[%s] = true under ch == nlch @%s' % (f.name, tb[0].line, arg_desc(cls), S[0].line))
        else:
            rep.fail('C09.R2', key, where((bad or tb)[0]), '%s() adds a character to a class without setting ccl_has_nl[] of that class when the character is '
                     'nlch: a class such as [a\\n] is not flagged and rules using it are not counted' % f.name)
    if n == 0: rep.broken('no store to ccltbl[] found')
    # (c) pointers into ccltbl[] handed to other functions
    for f in fns:
        res = ir.Resolver(f)
        for c in f.ins:
            if c.op != 'call' or not isinstance(c.callee, str): continue
            for k, a in enumerate(c.ops):
                if a[0] != 'reg' or c.argtys is None or c.argtys[k].k != 'ptr': continue
                l = res.loc(flow.strip_casts(f, a))
                if not (l and l[0] == 'elem' and ir.root_of(l) == ('global', 'ccltbl')): continue
                key = 'C09.R2:%s:%s:ccltbl-escapes-to-%s' % (os.path.basename(f.file or '?'), f.name, c.callee)
                if c.callee not in R2_CCLTBL_ESCAPES:
                    rep.fail('C09.R2', key, where(c), 'a pointer into ccltbl[] is passed to %s(), which is not known to leave class membership alone' % c.callee); continue
                g = prog.fn(c.callee)
                if g is not None:
                    pname = g.params[k][1]
                    gres = ir.Resolver(g)
                    wr = [x for x in g.ins if x.op == 'store' and ir.root_of(gres.loc(x.ops[1])) == ('local', '%s.addr' % pname) and gres.loc(x.ops[1])[0] != 'local']
                    if wr:
                        rep.fail('C09.R2', key, where(wr[0]), '%s() writes through its class-member parameter' % c.callee); continue
                rep.ok('C09.R2', '%s passes class members to %s: excepted (%s)' % (f.name, c.callee, R2_CCLTBL_ESCAPES[c.callee].split(';')[0]))
    # (d) nlch is '\n' and constant
    g = None
    for m in prog.modules:
        if 'nlch' in m.globals and not m.globals['nlch'].external: g = m.globals['nlch']
    if g is None: rep.broken('definition of nlch not found')
    st = flow.stores_to(prog, flow.is_global('nlch'))
    if g.init == ('int', NL) and not st:
        rep.ok('C09.R2', "nlch is initialised to '\\n' and never written (the scanner compares with the literal '\\n')")
    else:
        rep.fail('C09.R2', 'C09.R2:main.c:nlch:not-newline', where(st[0]) if st else 'main.c (nlch)', "nlch is not the constant '\\n': the generator would flag a different byte "
                 "than the one the scanner counts")
    # (e) all stores to the flag arrays are 0/1 constants or complements (R5 relies on it)
    for arr in ('rule_has_nl', 'ccl_has_nl'):
        odd = []
        for f in fns:
            for x in f.ins:
                if x.op == 'store' and (elem_store(f, x) or (None,))[0] == ('global', arr):
                    if x.ops[0] in (('int', 0), ('int', 1)): continue
                    if _is_negation_of(f, x.ops[0], ('elem', ('global', arr), elem_store(f, x)[1])): continue
                    odd.append(x)
        if odd: rep.fail('C09.R2', 'C09.R2:flexdef.h:%s:non-boolean-store' % arr, where(odd[0]), '%s[] receives a value that is not 0/1' % arr)
        else: rep.ok('C09.R2', '%s[] only ever receives 0, 1 or its own complement' % arr)

def _ccl_helper_calls(prog, f, cls, ch):
    """calls in f of a helper H(.., class, .., ch, ..) that sets ccl_has_nl[class] on every returning path on which ch == nlch"""
    out = []
    if ch is None: return out
    for c in f.ins:
        if c.op != 'call' or not isinstance(c.callee, str) or c.callee == f.name: continue
        H = prog.fn(c.callee)
        if H is None or not H.blocks: continue
        for i, (t, pi) in enumerate(H.params):
            if pi is None or i >= len(c.ops) or origin(f, c.ops[i]) != cls: continue
            def stores_i(H, pi=pi):
                return [x for x in H.ins if x.op == 'store' and x.ops[0][0] == 'int' and x.ops[0][1] != 0
                        and elem_store(H, x) == (('global', 'ccl_has_nl'), ('local', pi + '.addr'))]
            stores_i.__name__ = 'ccl_has_nl[%s]' % pi
            for sm in mark_summary(prog, H, stores_i):
                if sm[0] == 'char' and sm[1] < len(c.ops) and origin(f, c.ops[sm[1]]) == ch: out.append(c)
    return out

def _is_negation_of(f, v, src):
    """v == !load(src) (through zext/trunc/sext, icmp eq 0 or xor 1)"""
    v = strip_int(f, v)
    d = f.def_of(v)
    n = 0; neg = False
    while d is not None and n < 10:
        n += 1
        if d.op == 'xor' and ('int', 1) in d.ops:
            neg = not neg; o = d.ops[0] if d.ops[1] == ('int', 1) else d.ops[1]
        elif d.op == 'icmp' and d.pred == 'eq' and ('int', 0) in d.ops:
            neg = not neg; o = d.ops[0] if d.ops[1] == ('int', 0) else d.ops[1]
        elif d.op == 'icmp' and d.pred == 'ne' and ('int', 0) in d.ops:
            o = d.ops[0] if d.ops[1] == ('int', 0) else d.ops[1]
        elif d.op == 'load':
            return neg and origin(f, ('reg', d.res)) == src
        else: return False
        o = strip_int(f, o); d = f.def_of(o)
    return False

# ================================================================== R4

HOOK_RE = re.compile(r'M4_HOOK_(CHAR|LINE)_(FORWARD|REWIND)\(%d\)')

def r4(ctx):
    rep = ctx.rep; prog = ctx.flex
    f = prog.fn('finish_rule')
    if f is None: rep.broken('finish_rule not found')
    cfg = prog.cfg(f, cut=True)
    emis = []      # (kind, dir, snprintf call, add_action call, argument origin)
    for c in f.ins:
        if c.op != 'call' or c.callee not in ('snprintf', 'sprintf', '__snprintf_chk', '__sprintf_chk'): continue
        fmt = None; fi = None
        for k, a in enumerate(c.ops):
            s = flow.const_arg(f, a)
            if isinstance(s, str) and HOOK_RE.search(s): fmt = s; fi = k
        if fmt is None: continue
        m = HOOK_RE.search(fmt)
        buf = ir.Resolver(f).loc(flow.strip_casts(f, c.ops[0]))
        # the add_action(buffer) that emits it
        aa = None
        for x in cfg.reach(c):
            if x.op == 'call' and x.callee == 'add_action' and ir.root_of(ir.Resolver(f).loc(flow.strip_casts(f, x.ops[0]))) == ir.root_of(buf):
                if cfg.ins_dominates(c, x) and (aa is None or cfg.ins_dominates(x, aa)): aa = x
        if aa is None:
            rep.fail('C09.R4', 'C09.R4:nfa.c:finish_rule:%s_%s:not-emitted' % (m.group(1), m.group(2)), where(c), 'the formatted M4_HOOK_%s_%s text is never passed to add_action()' % (m.group(1), m.group(2)))
            continue
        emis.append((m.group(1), m.group(2), c, aa, origin(f, c.ops[fi + 1]) if fi + 1 < len(c.ops) else None))
    chars = [e for e in emis if e[0] == 'CHAR']
    if len(chars) < 2: rep.broken('finish_rule: fewer than two M4_HOOK_CHAR_* emissions found (%d)' % len(chars))
    # tests of rule_has_nl[num_rules]
    skip = set(); tests = []
    for b in f.blocks:
        tv = truthy_of(f, b.ins[-1])
        if tv is None: continue
        if origin(f, tv[0]) == ('elem', ('global', 'rule_has_nl'), ('global', 'num_rules')) and tv[1] != tv[2]:
            skip.add((b, f.bmap[tv[2]])); tests.append(b.ins[-1])
    dcfg = prog.cfg(f, cut=False)
    for kind, d, c, aa, arg in chars:
        key = 'C09.R4:nfa.c:finish_rule:M4_HOOK_LINE_%s' % d
        lines = [e for e in emis if e[0] == 'LINE' and e[1] == d and e[4] == arg]
        if not lines:
            other = [e for e in emis if e[0] == 'LINE' and e[1] == d]
            rep.fail('C09.R4', key, where(c), 'finish_rule() emits M4_HOOK_CHAR_%s(%s) but no M4_HOOK_LINE_%s with the same argument%s: a rule with fixed trailing context that '
                     'matches newlines keeps the lines of the part it gives back' % (d, arg_desc(arg) if arg else '?', d, ' (argument differs)' if other else ''))
            continue
        AL = [e[3] for e in lines]
        # with the flag set, every path to the CHAR emission passes the LINE emission first
        unguarded = aa in cfg.reach(f.entry.ins[0], avoid=AL, include_start=True, edge_filter=lambda b, t: (b, t) not in skip)
        # and the LINE emission is not made when the flag is clear (it would rewind lines that were never counted)
        spurious = [a for a in AL if not any(br in tests and t is f.bmap[truthy_of(f, br)[1]] for br, t in dcfg.control_deps_closure(a.blk))]
        if unguarded:
            rep.fail('C09.R4', key, where(aa), 'M4_HOOK_CHAR_%s(%s) can be emitted for a rule with rule_has_nl set without M4_HOOK_LINE_%s before it' % (d, arg_desc(arg), d))
        elif spurious:
            rep.fail('C09.R4', key + ':unguarded', where(spurious[0]), 'M4_HOOK_LINE_%s is emitted without testing rule_has_nl[num_rules]: lines that were never counted are rewound' % d)
        else:
            rep.ok('C09.R4', 'finish_rule: M4_HOOK_LINE_%s(%s)@%s under rule_has_nl[num_rules] precedes M4_HOOK_CHAR_%s(%s)@%s' % (d, arg_desc(arg), AL[0].line, d, arg_desc(arg), aa.line))

# ================================================================== R5

def _table_signature(prog, f):
    """how function f turns rule_has_nl[] into table entries"""
    sig = {}
    loads = []
    for x in f.ins:
        if x.op == 'load':
            o = origin(f, ('reg', x.res))
            if o[0] == 'elem' and o[1] == ('global', 'rule_has_nl'): loads.append((x, o[2]))
    if len(loads) != 1: return None, 'expected exactly one read of rule_has_nl[] (found %d)' % len(loads)
    L, io = loads[0]
    if io[0] != 'local': return None, 'rule_has_nl[] is not indexed by a loop variable'
    sig['index'] = 'i'
    ivar = ('reg', io[1])
    st = [x for x in f.ins if x.op == 'store' and x.ops[1] == ivar]
    inits = [x.ops[0][1] for x in st if x.ops[0][0] == 'int']
    steps = []
    for x in st:
        d = f.def_of(x.ops[0])
        if d is not None and d.op == 'add' and ('int', 1) in d.ops and origin(f, d.ops[0] if d.ops[1] == ('int', 1) else d.ops[1]) == io: steps.append(1)
        elif x.ops[0][0] != 'int': steps.append('?')
    sig['first'] = inits[0] if len(inits) == 1 else tuple(inits)
    sig['step'] = steps[0] if len(steps) == 1 else tuple(steps)
    # loop bound controlling the read
    cfg = prog.cfg(f, cut=False)
    bound = None
    for br, t in cfg.control_deps_closure(L.blk):
        d = f.def_of(br.ops[0]) if br.ops else None
        if d is None or d.op != 'icmp': continue
        a, b = origin(f, d.ops[0]), origin(f, d.ops[1])
        if a == io and t is f.bmap[br.targets[0]]:
            if d.pred == 'sle' and b == ('global', 'num_rules'): bound = 'num_rules'
            else: bound = '%s %s' % (d.pred, arg_desc(b))
    sig['last'] = bound
    # what is emitted
    uses = f.uses(); sinks = []
    work = [(L.res, 'raw')]; seen = set()
    while work:
        r, stt = work.pop()
        if (r, stt) in seen: continue
        seen.add((r, stt))
        for u in uses.get(r, []):
            if u.op in ('sext', 'zext', 'trunc'):
                work.append((u.res, 'norm' if (stt == 'bool' and u.op == 'zext') else ('inv' if (stt == 'nbool' and u.op == 'zext') else stt)))
            elif u.op == 'icmp' and ('int', 0) in u.ops and u.pred in ('ne', 'eq') and stt == 'raw':
                work.append((u.res, 'bool' if u.pred == 'ne' else 'nbool'))
            elif u.op == 'select' and u.ops[0] == ('reg', r) and stt in ('bool', 'nbool'):
                a, b = u.ops[1], u.ops[2]
                pos = (a, b) == (('int', 1), ('int', 0)); negv = (a, b) == (('int', 0), ('int', 1))
                if stt == 'nbool': pos, negv = negv, pos
                work.append((u.res, 'norm' if pos else 'inv' if negv else '?'))
            elif u.op in ('call', 'invoke'):
                if any(a == ('reg', r) for a in u.ops): sinks.append(('call', u, stt))
            elif u.op == 'store' and u.ops[0] == ('reg', r):
                sinks.append(('store', u, stt))
            elif u.op == 'br': sinks.append(('br', u, stt))
    sinks = [s for s in sinks if s[2] not in ('bool', 'nbool') or s[0] != 'br']
    if len(sinks) != 1: return None, 'the value read from rule_has_nl[] has %d consumers' % len(sinks)
    kind, u, stt = sinks[0]
    sig['value'] = {'raw': '0/1', 'norm': '0/1'}.get(stt, stt)
    if kind == 'call':
        sig['sink'] = 'call:' + str(u.callee)
    else:
        es = elem_store(f, u)
        sig['sink'] = 'table[%s]' % ('i' if es and es[1] == io else '?')
    return sig, None

def r5(ctx):
    rep = ctx.rep; prog = ctx.flex
    g = prog.fn('geneoltbl'); m = prog.fn('mkeoltbl')
    if g is None or m is None: rep.broken('geneoltbl / mkeoltbl not found')
    sg, eg = _table_signature(prog, g); sm, em = _table_signature(prog, m)
    want = {'index': 'i', 'first': 1, 'step': 1, 'last': 'num_rules', 'value': '0/1'}
    for f, s, e, sink in ((g, sg, eg, 'call:out_dec'), (m, sm, em, 'table[i]')):
        key = 'C09.R5:gen.c:%s:table-body' % f.name
        if s is None:
            rep.fail('C09.R5', key, fwhere(f), '%s(): %s' % (f.name, e)); continue
        diff = {k: (s.get(k), v) for k, v in dict(want, sink=sink).items() if s.get(k) != v}
        if diff:
            rep.fail('C09.R5', key, fwhere(f), '%s() does not emit rule_has_nl[i] ? 1 : 0 for i = 1..num_rules: %s' % (
                f.name, ', '.join('%s is %s, expected %s' % (k, a, b) for k, (a, b) in sorted(diff.items()))))
        else:
            rep.ok('C09.R5', '%s: rule_has_nl[i] -> 0/1 for i = 1..num_rules, sink %s' % (f.name, s['sink']))
    if sg and sm:
        a = {k: sg[k] for k in want}; b = {k: sm[k] for k in want}
        if a == b: rep.ok('C09.R5', 'geneoltbl and mkeoltbl agree on index range and value')
        else: rep.fail('C09.R5', 'C09.R5:gen.c:geneoltbl~mkeoltbl:disagree', fwhere(m), 'the in-code and the serialized rule_can_match_eol tables differ: %s vs %s' % (a, b))
    # table length num_rules + 1 on both sides
    def is_nr1(f, v):
        d = f.def_of(strip_int(f, v))
        return d is not None and d.op == 'add' and ('int', 1) in d.ops and origin(f, d.ops[0] if d.ops[1] == ('int', 1) else d.ops[1]) == ('global', 'num_rules')
    lg = [c for c in g.ins if c.op == 'call' and c.ops and 'M4_HOOK_EOLTABLE_SIZE' in str(flow.const_arg(g, c.ops[0]) or '')]
    res = ir.Resolver(m)
    lm = [x for x in m.ins if x.op == 'store' and ir.field_of(res.loc(x.ops[1])) and ir.field_of(res.loc(x.ops[1]))[1] == 'td_lolen']
    if lg and len(lg[0].ops) > 1 and is_nr1(g, lg[0].ops[1]) and lm and is_nr1(m, lm[0].ops[0]):
        rep.ok('C09.R5', 'both tables have num_rules + 1 entries (M4_HOOK_EOLTABLE_SIZE, td_lolen)')
    else:
        rep.fail('C09.R5', 'C09.R5:gen.c:geneoltbl~mkeoltbl:length', fwhere(g), 'the two tables do not both have num_rules + 1 entries')
    # both are produced under the same option, and the serialized one is written
    for f in (g, m):
        cs = prog.callers(f.name)
        if not cs: rep.fail('C09.R5', 'C09.R5:gen.c:%s:never-called' % f.name, fwhere(f), '%s() is never called' % f.name); continue
        for c in cs:
            locs = flow.controlling_locs(prog, c)
            if ('field', 'ctrl_bundle_t', 'do_yylineno') in locs:
                rep.ok('C09.R5', '%s called from %s under ctrl.do_yylineno' % (f.name, c.fn.name))
            else:
                rep.fail('C09.R5', 'C09.R5:gen.c:%s:not-under-do_yylineno' % f.name, where(c), 'the call of %s() does not depend on ctrl.do_yylineno' % f.name)
            if f is m:
                hold = [x for x in c.fn.ins if x.op == 'store' and x.ops[0] == ('reg', c.res)]
                def loads_hold(a):
                    d = c.fn.def_of(a)
                    return d is not None and d.op == 'load' and d.ops[0] == hold[0].ops[1]
                wr = [w for w in c.fn.calls('yytbl_data_fwrite') if hold and any(loads_hold(a) for a in w.ops)]
                if wr and wr[0] in prog.cfg(c.fn).reach(c): rep.ok('C09.R5', 'the table made by mkeoltbl is written with yytbl_data_fwrite@%s' % wr[0].line)
                else: rep.fail('C09.R5', 'C09.R5:gen.c:mkeoltbl:not-written', where(c), 'the table made by mkeoltbl() is not passed to yytbl_data_fwrite()')

# ================================================================== R3 (scanner side)

class LinenoVariant(variants.Variant):
    """own probe: every construct that has to adjust the line count, with rules that can match newline"""
    def __init__(s, backend, bol):
        name = 'c09_%s_%s' % (backend, 'bol' if bol else 'nobol')
        super().__init__(name, backend, ('yyless', 'unput', 'input', 'fixtrail') + (('bol',) if bol else ()), ['yylineno'])
        s.bol = bol
        inp = 'yyinput(yyscanner)' if backend == 'r' else 'yyinput()'
        L = []
        L.append({'nr': '', 'r': '%option reentrant', 'cxx': '%option c++', 'c99': '%option emit="c99"', 'go': '%option emit="go"'}[backend])
        L.append('%option yylineno')
        L.append('%{'); L.append('extern void c09_mark(int);    /* names the action arm in the IR; never defined, nothing is linked or run */'); L.append('%}')
        L.append('%%')
        s.rule = {}; s.rule_text = {}
        def rule(tag, text):
            k = len(s.rule) + 1
            L.append(text.replace('{ ', '{ c09_mark(%d); ' % (100 + k), 1)); s.rule[tag] = (k, 100 + k); s.rule_text[tag] = text.split('{')[0].strip()
        if bol: rule('bol', '^foo          { return 1; }')
        rule('fwd', '"ab\\ncd"/e+   { return 2; }')          # fixed head with newline, variable trail: M4_HOOK_LINE_FORWARD(5)
        rule('rew', 'x+/"\\ny"      { return 3; }')          # variable head, fixed trail with newline: M4_HOOK_LINE_REWIND(2)
        rule('less', '"less\\n"      { yyless(1); }')
        rule('unput', '"u"           { yyunput(\'\\n\'); }')
        rule('input', '"i"           { int c = %s; (void)c; }' % inp)
        rule('any', '.|\\n          { }')
        L.append('%%')
        s.less3 = None
        if backend == 'nr':
            L.append('void c09_less3(void) { yyless(0); }'); s.less3 = 'c09_less3'
        elif backend == 'r':
            L.append('void c09_less3(yyscan_t yyscanner) { struct yyguts_t *yyg = (struct yyguts_t*)yyscanner; yyless(0); }'); s.less3 = 'c09_less3'
        elif backend in ('c99', 'go'):
            s.less3 = 'yyless'
        s._spec = '\n'.join(L) + '\n'
    def spec(s): return s._spec

def own_variants(ctx):
    vs = [LinenoVariant(b, bol) for b in variants.BACKENDS for bol in (True, False)]
    variants.instantiate(ctx.art, vs, 'c09')
    for v in vs:
        if v.ll is None:
            ctx.rep.broken('own yylineno probe %s did not instantiate/compile: %s' % (v.name, (v.stderr or getattr(v, 'll_err', ''))[-300:]))
    return vs

def has_lineno_mode(v):
    try:
        with open(v.src, errors='replace') as f: head = f.read(20000)
    except Exception:
        return None
    return '/* M4_MODE_YYLINENO */' in head

class Scanner:
    """line-counter effects of one variant"""
    def __init__(s, v, mod, prog):
        s.v = v; s.mod = mod; s.prog = prog
        s.res = {}
        s.direct = {}        # fn -> [(ins, kind)]
        for f in mod.functions.values():
            e = s._direct(f)
            if e: s.direct[f] = e
        # helpers: functions whose only effect is one unconditional increment
        s.bump = set()
        for f, e in s.direct.items():
            if len(e) == 1 and e[0][1] == 'inc':
                cfg = prog.cfg(f, cut=False)
                b = e[0][0].blk
                if b is f.entry or b in cfg.postdominators().get(f.entry, ()): s.bump.add(f.name)
    def resolver(s, f):
        if f not in s.res: s.res[f] = ir.Resolver(f)
        return s.res[f]
    def is_line(s, loc):
        c = ir.loc_class(loc)
        if not c: return False
        if c[0] == 'global': return norm(c[1]) in LINE_NAMES
        if c[0] == 'field': return c[2] in LINE_NAMES
        return False
    def _direct(s, f):
        out = []; res = s.resolver(f)
        for x in f.ins:
            if x.op != 'store': continue
            l = res.loc(x.ops[1])
            if not s.is_line(l): continue
            kind = 'set'
            d = f.def_of(x.ops[0])
            if d is not None and d.op in ('add', 'sub') and d.ops[1][0] == 'int':
                ld = f.def_of(d.ops[0])
                if ld is not None and ld.op == 'load' and ir.loc_class(res.loc(ld.ops[0])) == ir.loc_class(l):
                    k = d.ops[1][1] if d.op == 'add' else -d.ops[1][1]
                    kind = 'inc' if k == 1 else 'dec' if k == -1 else 'set'
            out.append((x, kind))
        return out
    def sites(s, f, kinds=('inc', 'dec')):
        """effect sites in f: direct stores and calls of bump helpers"""
        out = [(x, k) for x, k in s.direct.get(f, []) if k in kinds]
        if 'inc' in kinds:
            for c in f.ins:
                if c.op in ('call', 'invoke') and isinstance(c.callee, str) and c.callee in s.bump and c.callee != f.name: out.append((c, 'inc'))
        return out
    def fn_by_base(s, *names):
        return [f for f in s.mod.functions.values() if base(f.name) in names]
    # ---- guards
    def guards(s, f, site, region=None):
        """newline-related branch edges that decide whether `site` runs: list of (kind, info, br)"""
        cfg = s.prog.cfg(f, cut=False); res = s.resolver(f)
        out = []
        for br, succ in cfg.control_deps_closure(site.blk):
            if region is not None and br.blk not in region: continue
            bt = branch_test(f, br)
            if bt is None: continue
            a, b, eq, ne = bt
            for x, y in ((a, b), (b, a)):
                if y == ('int', NL) and succ is f.bmap.get(eq) and eq != ne:
                    out.append(('nlcmp', (x, load_loc(f, res, x)), br))
            tv = truthy_of(f, br)
            if tv is not None and succ is f.bmap.get(tv[1]) and tv[1] != tv[2]:
                l = load_loc(f, res, tv[0])
                if l is not None and mentions(l, EOLTBL_NAMES):
                    d = f.def_of(strip_int(f, tv[0])); ad = f.def_of(d.ops[0])
                    io = origin(f, ad.ops[-1]) if ad is not None and ad.op == 'getelementptr' else None
                    out.append(('eolflag', io, br))
                elif l is not None and mentions(l, ATBOL_NAMES):
                    # every store to the flag in this function holds (byte == '\n')
                    sts = [x for x in f.ins if x.op == 'store' and mentions(res.loc(x.ops[1]), ATBOL_NAMES)]
                    src = []
                    for x in sts:
                        d = f.def_of(strip_int(f, x.ops[0]))
                        if d is not None and d.op == 'icmp' and d.pred == 'eq' and ('int', NL) in d.ops:
                            o = d.ops[0] if d.ops[1] == ('int', NL) else d.ops[1]
                            src.append((o, load_loc(f, res, o)))
                        else: src = None; break
                    cfgc = s.prog.cfg(f, cut=False)
                    if src and all(cfgc.ins_dominates(x, br) for x in sts):
                        out.append(('atbol', src[0], br))
        return out
    def in_loop(s, f, site, region=None):
        cfg = s.prog.cfg(f, cut=False)
        r = region_reach(cfg, site, region) if region is not None else cfg.reach(site)
        return site in r
    def dec_loop_helper(s, g):
        """g's body is a loop that decrements the counter under a comparison with '\\n' (yy_less_lineno, yy_lineno_rewind_to)"""
        st = s.sites(g, ('dec',))
        return bool(st) and all(s.in_loop(g, x) and any(k == 'nlcmp' for k, _, _ in s.guards(g, x)) for x, _ in st) and not s.sites(g, ('inc',))

def r3_variant(ctx, v, mod, prog, own):
    rep = ctx.rep; sk = skel(v); tag = v.name
    sc = Scanner(v, mod, prog)
    nfound = 0
    def fail(con, fnname, wh, msg):
        rep.fail('C09.R3', 'C09.R3:%s:%s:%s' % (sk, fnname, con), wh, msg + ' [variant %s]' % v.name, variant=v.describe())
    # ---- every increment / decrement anywhere is guarded by a newline comparison
    for f in mod.functions.values():
        if f.name in sc.bump: continue
        for x, k in sc.sites(f):
            g = sc.guards(f, x)
            if any(kind in ('nlcmp', 'atbol') for kind, _, _ in g):
                rep.ok('C09.R3', '%s %s: line counter %s@%s under a comparison with newline' % (tag, base(f.name), k, x.line)); nfound += 1
            else:
                via = (' through %s()' % base(x.callee)) if x.op in ('call', 'invoke') else ''
                fail('unguarded-%s%s' % (k, ('-via-' + base(x.callee)) if via else ''), base(f.name), where(x),
                     '%s() changes the line counter (%s)%s without comparing a byte with newline' % (base(f.name), k, via))
    # ---- (a) yylex counts after the match under yy_rule_can_match_eol[yy_act]
    yl = sc.fn_by_base('yylex')
    if not yl: rep.broken('no yylex in variant %s' % v.name)
    yl = yl[0]
    sw = max((x for x in yl.ins if x.op == 'switch'), key=lambda x: len(x.cases or ()), default=None)
    if sw is None: rep.broken('no action switch in yylex of %s' % v.name)
    act = origin(yl, sw.ops[0])
    okc = None; why = 'no increment of the line counter in yylex'
    for x, k in sc.sites(yl, ('inc',)):
        g = sc.guards(yl, x)
        fl = [i for kind, i, _ in g if kind == 'eolflag']
        nl = [i for kind, i, _ in g if kind == 'nlcmp']
        if not fl: why = 'the increment is not under yy_rule_can_match_eol[]'; continue
        if act not in fl: why = 'yy_rule_can_match_eol[] is not indexed by the action number'; continue
        if not any(l is not None and mentions(l, YYTEXT_NAMES) for _, l in nl): why = 'the increment is not under a comparison of a yytext byte with newline'; continue
        if not sc.in_loop(yl, x): why = 'the increment is not inside a loop over the token'; continue
        okc = x; break
    if okc is not None: rep.ok('C09.R3', '%s yylex: increment@%s in a loop under yy_rule_can_match_eol[yy_act] and yytext[i] == newline' % (tag, okc.line))
    else: fail('post-match-count', 'yylex', fwhere(yl), 'yylex does not count the newlines of the matched text: %s' % why)
    # ---- (b) yyunput
    for f in sc.fn_by_base('yyunput_r', 'yyunput'):
        cfg = prog.cfg(f, cut=True)
        decs = []; skip = set()
        pnames = {(p or '') + '.addr' for t, p in f.params if t.k == 'int'}
        for x, k in sc.sites(f, ('dec',)):
            for kind, info, br in sc.guards(f, x):
                if kind == 'nlcmp' and info[1] is not None and info[1][0] == 'local' and info[1][1] in pnames:
                    decs.append(x); bt = branch_test(f, br); skip.add((br.blk, f.bmap[bt[3]]))
        if decs and not any(x.op == 'ret' for x in cfg.reach(f.entry.ins[0], avoid=decs, include_start=True, edge_filter=lambda b, t: (b, t) not in skip)):
            rep.ok('C09.R3', '%s %s: decrement@%s on every returning path when the pushed-back byte is newline' % (tag, base(f.name), decs[0].line))
        else:
            fail('unput-newline', base(f.name), fwhere(f), '%s() does not decrement the line counter when the byte pushed back is a newline: the newline is counted again when it is rescanned' % base(f.name))
    # ---- (c) yyinput
    for f in sc.fn_by_base('yyinput'):
        cfg = prog.cfg(f, cut=True); res = sc.resolver(f)
        incs = []; skip = set()
        # the local that is returned
        retlocals = set()
        for x in f.ins:
            if (x.op == 'store' and x.ops[1] == ('reg', 'retval')) or x.op == 'ret':
                if x.ops:
                    l = load_loc(f, res, x.ops[0])
                    if l is not None and l[0] == 'local' and l[1] != 'retval': retlocals.add(l[1])
        for x, k in sc.sites(f, ('inc',)):
            for kind, info, br in sc.guards(f, x):
                if kind in ('nlcmp', 'atbol') and info[1] is not None and info[1][0] == 'local' and info[1][1] in retlocals:
                    incs.append(x)
                    tv = truthy_of(f, br) if kind == 'atbol' else None
                    bt = branch_test(f, br)
                    skip.add((br.blk, f.bmap[tv[2] if tv else bt[3]]))
        holds = [x for x in f.ins if x.op == 'store' and mentions(res.loc(x.ops[1]), HOLD_NAMES)]
        if not holds: rep.broken('yyinput of %s does not store yy_hold_char' % v.name)
        ok = bool(incs) and not any(any(y.op == 'ret' for y in cfg.reach(h, avoid=incs, edge_filter=lambda b, t: (b, t) not in skip)) for h in holds)
        if ok: rep.ok('C09.R3', '%s yyinput: increment@%s on every path from the consumed byte to the return when it is newline' % (tag, incs[0].line))
        else: fail('input-newline', 'yyinput', fwhere(f), 'yyinput() does not increment the line counter when the byte it consumes is a newline')
    # ---- (d)/(e) own probes: yyless expansions and fixed trailing context prologues
    if own:
        dcfg = prog.cfg(yl, cut=False)
        case_blk = {}
        for c, lab in sw.cases: case_blk.setdefault(c, yl.bmap.get(lab))
        res = sc.resolver(yl)
        def rewind_sites(f, region):
            """decrement loops in region: direct, or through a helper whose body is such a loop"""
            out = []
            for b in (region if region is not None else f.blocks):
                for x in b.ins:
                    if x.op == 'store' and any(x is y for y, k in sc.direct.get(f, []) if k == 'dec'):
                        if sc.in_loop(f, x, region) and any(k == 'nlcmp' for k, _, _ in sc.guards(f, x, region)): out.append(x)
                    if x.op in ('call', 'invoke') and isinstance(x.callee, str) and x.callee in mod.functions and x.callee != f.name and sc.dec_loop_helper(mod.functions[x.callee]):
                        out.append(x)
            return out
        def writers(f, region, names):
            """instructions in region that write a location named in `names`, directly or one call deep"""
            out = []; r = sc.resolver(f)
            for b in (region if region is not None else f.blocks):
                for x in b.ins:
                    if x.op == 'store' and mentions(r.loc(x.ops[1]), names): out.append(x)
                    if x.op in ('call', 'invoke') and isinstance(x.callee, str) and x.callee in mod.functions and x.callee != f.name:
                        g = mod.functions[x.callee]; gr = sc.resolver(g)
                        if any(y.op == 'store' and mentions(gr.loc(y.ops[1]), names) for y in g.ins): out.append(x)
            return out
        def check_region(con, fnname, f, region, names, what, anchor):
            cf = prog.cfg(f, cut=False)
            rs = rewind_sites(f, region)
            ws = writers(f, region, names)
            if not ws: rep.broken('%s: %s of %s writes none of %s' % (v.name, what, fnname, sorted(names)))
            if not rs:
                fail(con, fnname, anchor, '%s gives text back to the input but does not rewind the line counter over it (no loop that decrements under a comparison with newline)' % what); return
            late = [x for x in rs if any(x in (region_reach(cf, w, region) if region is not None else cf.reach(w)) for w in ws)]
            if len(late) == len(rs):
                fail(con + ':order', fnname, where(late[0]), '%s rewinds the line counter only after %s has been changed, so it scans the wrong bytes' % (what, '/'.join(sorted(names)))); return
            rep.ok('C09.R3', '%s %s: %s rewinds lines@%s before %s changes' % (tag, fnname, what, rs[0].line, '/'.join(sorted(names))))
        flags = eol_flags(mod)
        for rt, con, names, what in (('less', 'yyless-in-action', YYLENG_NAMES, 'the yyless() expansion in an action'),
                                     ('fwd', 'trail-LINE_FORWARD', CBUFP_NAMES, 'the fixed-head trailing context prologue'),
                                     ('rew', 'trail-LINE_REWIND', CBUFP_NAMES, 'the fixed-trail trailing context prologue')):
            k, mark = v.rule[rt]
            if rt != 'less' and flags is not None and k < len(flags) and not flags[k]:
                # the hooks are emitted only for flagged rules: the generator did not flag a probe rule whose pattern contains "\n"
                rep.fail('C09.R3', 'C09.R3:probe:%s-rule:not-flagged-by-generator' % rt, os.path.basename(v.src),
                         'yy_rule_can_match_eol[%d] is 0 for the probe rule %s, whose pattern contains a literal newline (generator side, see C09.R1/R2); '
                         'the trailing-context line hooks are not instantiated and cannot be inspected [variant %s]' % (k, v.rule_text[rt], v.name), variant=v.describe())
                continue
            cb = case_blk.get(k)
            if cb is None: rep.broken('%s: no case %d in the action switch' % (v.name, k))
            region = action_region(dcfg, cb)
            if not any(x.op in ('call', 'invoke') and isinstance(x.callee, str) and 'c09_mark' in x.callee and x.ops and x.ops[-1] == ('int', mark) for b in region for x in b.ins):
                rep.broken('%s: case %d of the action switch is not the action of rule %d of the probe (marker %d not found)' % (v.name, k, k, mark))
            check_region(con, 'yylex', yl, region, names, what, where(cb.ins[0]))
        if v.less3:
            fs = [f for f in mod.functions.values() if norm(f.name) == v.less3]
            if not fs: rep.broken('%s: function %s not found' % (v.name, v.less3))
            check_region('yyless-section3', 'yyless', fs[0], None, YYLENG_NAMES, 'the section-3 yyless()', fwhere(fs[0]))
    return nfound

def r3_without(ctx, v, mod, prog, control=False):
    """no scanner function other than initialisation / the setter writes the line counter; returns writers found"""
    rep = ctx.rep; sk = skel(v) if v is not None else 'selftest'
    sc = Scanner(v, mod, prog)
    found = []
    for f, eff in sc.direct.items():
        for x, k in eff:
            if k in ('inc', 'dec'):
                found.append((f, x, k))
            elif base(f.name) not in R3_SETTERS:
                found.append((f, x, k))
    if control: return found
    if mentions_global(mod, EOLTBL_NAMES):
        rep.fail('C09.R3', 'C09.R3:%s:yy_rule_can_match_eol:without-mode' % sk, os.path.basename(v.src), 'the eol table is present although M4_MODE_YYLINENO is not [variant %s]' % v.name, variant=v.describe())
    for f, x, k in found:
        rep.fail('C09.R3', 'C09.R3:%s:%s:writes-lineno-without-option' % (sk, base(f.name)), where(x),
                 '%s() writes the line counter (%s) in a scanner generated without %%option yylineno [variant %s]' % (base(f.name), k, v.name), variant=v.describe())
    if not found:
        n = sum(len(e) for e in sc.direct.values())
        rep.ok('C09.R3', '%s: without M4_MODE_YYLINENO the counter is written only by %s (%d stores)' % (v.name, '/'.join(sorted({base(f.name) for f in sc.direct})) or 'nobody', n))
    return found

def eol_flags(mod):
    """the instantiated yy_rule_can_match_eol[] (in-code table), or None"""
    for n, g in mod.globals.items():
        if norm(n) in EOLTBL_NAMES and g.init is not None:
            if g.init[0] == 'agg': return [int(x) for x in re.findall(r'\bi\d+ (-?\d+)', g.init[1])]
            if g.init[0] == 'cstr': return list(ir.decode_cstr(g.init[1]).encode('latin-1')) + [0]
            if g.init == ('other', 'zeroinitializer') and g.ty is not None and g.ty.k == 'arr': return [0] * g.ty.a
    return None

def mentions_global(mod, names):
    return any(norm(g) in names for g in mod.globals)

def positive_control(ctx):
    p = os.path.join(VERIF, 'selftest', 'c09_writers.ll')
    if not os.path.exists(p): ctx.rep.broken('positive control %s is missing' % p)
    mod = ir.load_module(p); prog = ir.Program([mod])
    found = r3_without(ctx, None, mod, prog, control=True)
    got = {(base(f.name), k) for f, x, k in found}
    want = {('stray_inc', 'inc'), ('stray_dec', 'dec'), ('stray_set', 'set'), ('stray_field', 'inc')}
    if not want <= got:
        ctx.rep.broken('positive control for the who-writes rule failed: expected %s, detector found %s' % (sorted(want), sorted(got)))
    if any(b in ('yyset_lineno', 'yy_init_buffer') for b, k in got):
        ctx.rep.broken('positive control: permitted setters were reported as writers')

def r3(ctx):
    rep = ctx.rep
    positive_control(ctx)
    core = ctx.variants()
    rep.require(len(core) >= 60, 'only %d scanner variants compiled to IR' % len(core))
    own = own_variants(ctx)
    n_with = n_without = 0; fnc = 0
    backs_with = set(); backs_without = set()
    for v, is_own in [(v, False) for v in core] + [(v, True) for v in own]:
        mode = has_lineno_mode(v)
        if mode is None: rep.broken('cannot read %s' % v.src)
        wants = any(o in ('yylineno', 'lex-compat') for o in v.options)
        mod = variants.module(v); prog = variants.program(v)
        fnc += len(mod.functions)
        if wants and not mode:
            rep.fail('C09.R3', 'C09.R3:%s:M4_MODE_YYLINENO:not-set' % skel(v), os.path.basename(v.src), '%%option yylineno does not turn M4_MODE_YYLINENO on [variant %s]' % v.name, variant=v.describe()); continue
        if mode:
            r3_variant(ctx, v, mod, prog, v if is_own else None)
            n_with += 1; backs_with.add(v.backend)
        else:
            r3_without(ctx, v, mod, prog)
            n_without += 1; backs_without.add(v.backend)
    if backs_with != set(variants.BACKENDS) or backs_without != set(variants.BACKENDS):
        rep.broken('back ends covered: with yylineno %s, without %s' % (sorted(backs_with), sorted(backs_without)))
    rep.setcount('variants_with_yylineno', n_with)
    rep.setcount('variants_without_yylineno', n_without)
    rep.setcount('scanner_functions_analysed', fnc)
    return n_with, n_without

# ================================================================== R7 (yymore: where the post-match newline loop starts)

import scanner_ids as SID

def more_variants(ctx):
    """own probes: %array + yymore + yylineno in the back ends where the core list has no such variant (C++ refuses %array)"""
    vs = [variants.Variant('c09_more_%s_array' % b, b, variants.NOREJ, ['array', 'yylineno']) for b in ('r', 'c99', 'go')]
    variants.instantiate(ctx.art, vs, 'c09')
    for v in vs:
        if v.ll is None:
            ctx.rep.broken('own %%array/yymore/yylineno probe %s did not instantiate/compile: %s' % (v.name, (v.stderr or getattr(v, 'll_err', ''))[-300:]))
    return vs

class OffsetFlow:
    """Which cells hold "the offset of the new piece of the token text" at a program point of one scanner variant.

    Anchor (no yymore register is named): an *offset load* is a load of an integer scanner register other than the token length
    whose value flows, through registers, into (i) a value stored to the text pointer (yytext_ptr -= off) or (ii) the index of an
    address into the text array (&yytext[off], the destination of the copy).  At such a load the register holds the offset by
    definition.  From there: a store of a (cast of a) load that holds the offset into another cell makes that cell hold it; any
    other store to a cell, and any call of a function that may store it, ends that; a call of a function at whose every return a
    cell holds the offset (summary) makes it hold it in the caller."""
    def __init__(s, sc):
        s.sc = sc; s._res = {}; s._o = {}; s._src = {}; s._exit = {}; s._may = {}; s._busy = set()
        s.cg = sc.callgraph()
    def res(s, f):
        if f not in s._res: s._res[f] = ir.Resolver(f)
        return s._res[f]
    def cell(s, f, ptr, locals_too=True):
        """cell designated by address `ptr` when it is a scalar local or a scalar scanner register, else None"""
        l = s.res(f).loc(ptr)
        if l is None: return None
        if l[0] == 'local': return ('local', f.name, l[1]) if locals_too else None
        if l[0] == 'global' and s.sc.backend == 'nr': return ('global', SID.unprefix(l[1]))
        if l[0] == 'field' and (l[1] == 'yyguts_t' or re.fullmatch(r'((yy|foo|bar)?FlexLexer)(\.base)?', l[1])): return ('field', l[2])
        return None
    def is_text_ptr(s, f, ptr):
        l = s.res(f).loc(ptr)
        return s.sc.is_var(l, 'yytext') or s.sc.is_var(l, 'yytext_ptr')
    def offset_loads(s, f):
        """{load instruction: cell} of the offset loads of f"""
        if f in s._o: return s._o[f]
        out = {}
        for x in f.ins:
            roots = []
            if x.op == 'store' and x.ops[0][0] == 'reg' and s.is_text_ptr(f, x.ops[1]): roots = [x.ops[0]]
            elif x.op == 'getelementptr' and s.sc.is_var(s.res(f).loc(x.ops[0]), 'yytext'): roots = list(x.ops[1:])       # the text array itself
            for r in roots:
                for y in flow.value_slice(f, r):
                    if y.op != 'load' or y.ty is None or y.ty.k != 'int': continue
                    c = s.cell(f, y.ops[0], locals_too=False)
                    if c is None or s.sc.is_var(s.res(f).loc(y.ops[0]), 'yyleng'): continue
                    out[y] = c
        s._o[f] = out
        return out
    def may_store(s, f):
        """register cells f may store, directly or through the functions of the scanner it calls"""
        if f.name in s._may: return s._may[f.name]
        seen = {f.name}; work = [f.name]; out = set()
        while work:
            g = s.sc.mod.functions.get(work.pop())
            if g is None: continue
            for x in g.ins:
                if x.op == 'store':
                    c = s.cell(g, x.ops[1], locals_too=False)
                    if c is not None: out.add(c)
            for n in s.cg.get(g.name, ()):
                if n not in seen: seen.add(n); work.append(n)
        s._may[f.name] = out
        return out
    def callees(s, c):
        n = s.sc.callee(c)
        return s.sc.fns(n) if n else []
    def exit_valued(s, g):
        """register cells that hold the offset at every return of g"""
        if g.name in s._exit: return s._exit[g.name]
        if ('exit', g.name) in s._busy or not g.blocks: return set()
        s._busy.add(('exit', g.name))
        cand = set(s.offset_loads(g).values())
        for x in g.ins:
            if x.op == 'store':
                c = s.cell(g, x.ops[1], locals_too=False)
                if c is not None: cand.add(c)
            elif x.op in ('call', 'invoke'):
                for h in s.callees(x):
                    if h is not g: cand |= s.exit_valued(h)
        rets = [x for x in g.ins if x.op == 'ret']
        out = {c for c in cand if rets and all(s.valued(g, c, r) for r in rets)}
        s._busy.discard(('exit', g.name))
        s._exit[g.name] = out
        return out
    def copied_load(s, f, v):
        """v is (an integer cast of) a load of a cell: (load, cell) or None"""
        d = f.def_of(strip_int(f, v))
        if d is None or d.op != 'load': return None
        c = s.cell(f, d.ops[0])
        return (d, c) if c is not None else None
    def sources_kills(s, f, c):
        k = (f.name, c)
        if k in s._src: return s._src[k]
        S = [o for o, oc in s.offset_loads(f).items() if oc == c]; K = []
        for x in f.ins:
            if x.op == 'store' and s.cell(f, x.ops[1]) == c:
                cl = s.copied_load(f, x.ops[0])
                if cl is not None and cl[1] != c and (k, cl[0]) not in s._busy:
                    s._busy.add((k, cl[0]))
                    good = s.valued(f, cl[1], cl[0])
                    s._busy.discard((k, cl[0]))
                    if good: S.append(x); continue
                K.append(x)
            elif x.op in ('call', 'invoke') and c[0] != 'local':
                hs = [h for h in s.callees(x) if h is not f]
                if hs and all(c in s.exit_valued(h) for h in hs): S.append(x)
                elif any(c in s.may_store(h) for h in hs): K.append(x)
        s._src[k] = (S, K)
        return S, K
    def valued(s, f, c, p):
        """cell c holds the offset when instruction p of f runs (on every path from the function entry)"""
        S, K = s.sources_kills(f, c)
        if p in S and p.op == 'load': return True
        if not S: return False
        cfg = s.sc.prog.cfg(f, cut=True)
        ol = [o for o in S if o.op == 'load']
        if ol and p.op == 'load' and s.cell(f, p.ops[0]) == c:
            # read just before the set-up uses the register: every path from p passes an offset load of c with no other definition in between
            r = cfg.reach(p, avoid=ol)
            if not any(y.op == 'ret' for y in r) and not any(y in r for y in K) and not any(y in r for y in S if y.op != 'load'): return True
        if p in cfg.reach(f.entry.ins[0], avoid=S, include_start=True): return False
        return not any(p in cfg.reach(k_, avoid=S) for k_ in K)
    def why_not(s, f, c, p):
        S, K = s.sources_kills(f, c)
        if not S: return 'nothing in %s gives it the offset the token set-up used' % base(f.name), None
        cfg = s.sc.prog.cfg(f, cut=True)
        for k_ in K:
            if p in cfg.reach(k_, avoid=S):
                return 'it is overwritten at %s after the set-up read it and before the loop' % where(k_), k_
        return 'a path from the entry of %s reaches the loop without passing the token set-up' % base(f.name), None

def cell_str(c):
    return c[-1] if c else '?'

def newline_loops(sc9, yl, kind='inc'):
    """post-match newline loops of yylex: [(increment site, index local (alloca name), [initialising stores])]
    (kind='dec': the loops of any function that rewind the line counter over yytext[i], i < yyleng - yyless)"""
    out = []
    cfg = sc9.prog.cfg(yl, cut=False); res = sc9.resolver(yl)
    for x, k in sc9.sites(yl, (kind,)):
        if not sc9.in_loop(yl, x): continue
        idx = None
        for kind, info, br in sc9.guards(yl, x):
            if kind != 'nlcmp' or info[1] is None or not mentions(info[1], YYTEXT_NAMES): continue
            d = yl.def_of(strip_int(yl, info[0]))
            ad = yl.def_of(d.ops[0]) if d is not None and d.op == 'load' else None
            if ad is None or ad.op != 'getelementptr': continue
            o = origin(yl, ad.ops[-1])
            if o[0] == 'local': idx = o[1]
        if idx is None: continue
        # the loop is bounded by a comparison of the index with the token length
        bounded = False
        for br, succ in cfg.control_deps_closure(x.blk):
            d = yl.def_of(br.ops[0]) if br.op == 'br' and br.ops else None
            if d is None or d.op != 'icmp': continue
            for a, b in ((d.ops[0], d.ops[1]), (d.ops[1], d.ops[0])):
                lb = load_loc(yl, res, b)
                if origin(yl, a) == ('local', idx) and lb is not None and mentions(lb, YYLENG_NAMES): bounded = True
        if not bounded: continue
        inits = []
        for st in yl.ins:
            if st.op != 'store' or st.ops[1] != ('reg', idx): continue
            if any(y.op == 'load' and y.ops[0] == ('reg', idx) for y in flow.value_slice(yl, st.ops[0])): continue      # the step ++i
            inits.append(st)
        out.append((x, idx, inits))
    return out

def r7(ctx):
    rep = ctx.rep
    vs = [v for v in ctx.variants()] + more_variants(ctx)
    n = 0; covered = set(); vac = 0
    for v in vs:
        modes = variants.mode_symbols(v)
        if 'M4_MODE_YYLINENO' not in modes: continue
        if 'M4_MODE_YYMORE_USED' not in modes:
            vac += 1; continue
        arr = 'M4_MODE_YYTEXT_IS_ARRAY' in modes
        sc = SID.scanner(v); mod = sc.mod; prog = sc.prog
        sc9 = Scanner(v, mod, prog)
        yls = [f for f in sc.fns('yylex') if any(x.op == 'switch' and len(x.cases or ()) >= 3 for x in f.ins)]
        if not yls: rep.broken('C09.R7: no yylex in variant %s' % v.name)
        yl = yls[0]
        loops = newline_loops(sc9, yl)
        if not loops:
            rep.note('C09.R7: %s: no post-match newline loop recognised in yylex (reported by C09.R3 post-match-count)' % v.name); continue
        fl = OffsetFlow(sc)
        key = 'C09.R7:%s:yylex:newline-loop-base' % skel(v)
        for x, idx, inits in loops:
            if not inits: rep.broken('C09.R7: %s: the index %s of the newline loop @%s is never initialised' % (v.name, idx, x.line))
            for st in inits:
                n += 1; covered.add((v.backend, 'array' if arr else 'pointer'))
                tail = ': the newlines of text kept by yymore() are counted again for every later piece of the token [variant %s]' % v.name
                val = strip_int(yl, st.ops[0])
                cl = fl.copied_load(yl, val)
                if val[0] == 'int':
                    rep.fail('C09.R7', key, where(st), 'with yymore() in use the post-match newline loop of yylex starts at the constant %d, not at the first '
                             'character of the new piece of the token%s' % (val[1], tail), variant=v.describe(), replay_input=R7_REPLAY)
                elif cl is None:
                    rep.fail('C09.R7', key, where(st), 'the initial index of the post-match newline loop of yylex is not a plain copy of a cell (computed value); it cannot be '
                             'shown to be the offset of the new piece of the token%s' % tail, variant=v.describe(), replay_input=R7_REPLAY)
                elif fl.valued(yl, cl[1], cl[0]):
                    rep.ok('C09.R7', '%s yylex:%s newline loop starts at %s, which holds the offset the token set-up placed the new text at (%s)' % (
                        v.name, st.line, cell_str(cl[1]), '%array' if arr else '%pointer'))
                else:
                    why, at = fl.why_not(yl, cl[1], cl[0])
                    rep.fail('C09.R7', key, where(st), 'the post-match newline loop of yylex starts at %s, which does not hold the offset of the new piece of the token when '
                             'the loop is entered (%s)%s' % (cell_str(cl[1]), why, tail), variant=v.describe(), replay_input=R7_REPLAY)
    need = {(b, 'pointer') for b in variants.BACKENDS} | {(b, 'array') for b in ('nr', 'r', 'c99', 'go')}
    if not need <= covered:
        rep.broken('C09.R7: no newline loop analysed for %s' % sorted(need - covered))
    rep.vacuous.append('C09.R7: %d yylineno variants without yymore(): the loop starts at the constant 0, nothing to decide' % vac)
    rep.note('C09.R7: %d loop initialisations in yylineno+yymore variants; %d yylineno variants without yymore are vacuous' % (n, vac))
    rep.setcount('r7_newline_loop_bases', n)
    return n

R7_REPLAY = ('%option yylineno noyywrap array\n%%\n"a\\n"  { yymore(); }\n"b\\n"  { yymore(); }\n"c"  { }\n.|\\n  { }\n%%\n'
             'int main(void){ yylex(); printf("%d\\n", yylineno); return 0; }\n# input `a\\nb\\nc`: two newlines, must print 3')

# ================================================================== R8 (yyless after yymore: where the line rewind starts)

def more_cells(sc, fl):
    """scanner registers that hold a yymore length/offset, found by value flow: the registers the token set-up reads to place
    the text (OffsetFlow.offset_loads), closed under plain copies between registers (yy_prev_more_offset); never the token length"""
    cells = set()
    for f in sc.mod.functions.values(): cells |= set(fl.offset_loads(f).values())
    changed = True
    while changed:
        changed = False
        for f in sc.mod.functions.values():
            for x in f.ins:
                if x.op != 'store': continue
                dst = fl.cell(f, x.ops[1], locals_too=False)
                cl = fl.copied_load(f, x.ops[0])
                if dst is None or cl is None or cl[1][0] == 'local': continue
                if sc.is_var(fl.res(f).loc(x.ops[1]), 'yyleng') or sc.is_var(fl.res(f).loc(cl[0].ops[0]), 'yyleng'): continue
                if (dst in cells) != (cl[1] in cells): cells |= {dst, cl[1]}; changed = True
    return cells

def start_instances(sc, fl, f, val, site, depth=0):
    """where the value `val` (computed in f, used at `site`) is decided: [(function, site, {register cell: load})].  A value that
    depends on a parameter of f is followed into the matching argument of every call of f in the scanner (the rewind helper
    of the c99/go skeletons and their yyless() function)."""
    res = fl.res(f)
    cells = {}; params = set()
    pnames = [p for t, p in f.params]
    for y in SID.deep_slice(f, val):
        if y.op != 'load': continue
        c = fl.cell(f, y.ops[0], locals_too=False)
        if c is not None: cells.setdefault(c, y); continue
        l = res.loc(y.ops[0])
        if l[0] == 'local' and l[1].endswith('.addr') and l[1][:-5] in pnames: params.add(pnames.index(l[1][:-5]))
    if not params or depth >= 3: return [(f, site, cells)]
    out = []
    me = sc.canon(f)
    for g in sc.mod.functions.values():
        if g is f: continue
        for c in g.ins:
            if c.op in ('call', 'invoke') and sc.callee(c) == me and len(c.ops) >= len(pnames):
                for k in sorted(params):
                    for gg, gsite, gcells in start_instances(sc, fl, g, c.ops[k], c, depth + 1):
                        m = dict(cells); m.update(gcells); out.append((gg, gsite, m))
    return out or [(f, site, cells)]

def r8(ctx):
    """R8: yyless(n) counts n from yytext[0], and after yymore() yytext[0..more_len) is the text kept from the previous
    pieces: the characters given back are yytext[n..yyleng).  The loop that rewinds the line counter for yyless (it walks
    yytext[i] from a start index to yyleng, decrementing under a comparison with newline) must therefore start at the yyless
    argument itself; its start value - followed through locals and, for a helper function, into the arguments of every
    call - must not depend on a yymore length/offset register (the scan-pointer arithmetic next to it does subtract the
    prefix, because it is relative to the start of the new piece)."""
    rep = ctx.rep
    vs = [v for v in ctx.variants()] + more_variants(ctx)
    n = 0; covered = set()
    for v in vs:
        modes = variants.mode_symbols(v)
        if 'M4_MODE_YYLINENO' not in modes or 'M4_MODE_YYMORE_USED' not in modes: continue
        sc = SID.scanner(v); sc9 = Scanner(v, sc.mod, sc.prog); fl = OffsetFlow(sc)
        more = more_cells(sc, fl)
        if not more: rep.broken('C09.R8: no yymore offset register recognised in %s' % v.name)
        arr = 'M4_MODE_YYTEXT_IS_ARRAY' in modes
        found = 0
        for f in sc.mod.functions.values():
            for x, idx, inits in newline_loops(sc9, f, 'dec'):
                for st in inits:
                    for g, site, cells in start_instances(sc, fl, f, st.ops[0], st):
                        found += 1; n += 1
                        gname = sc.canon(g)
                        if gname == 'yylex': covered.add((v.backend, 'array' if arr else 'pointer'))
                        bad = [c for c in cells if c in more]
                        if bad:
                            rep.fail('C09.R8', 'C09.R8:%s:%s:yyless-line-rewind-start' % (skel(v), gname), where(cells[bad[0]]),
                                     'the loop that takes the newlines of the text given back by yyless() off the line counter (%s) starts at an index computed from %s, the '
                                     'length of the text kept by yymore(): yyless(n) counts n from yytext[0], which already includes that text, so the newlines of '
                                     'yytext[n - more .. n) stay consumed but are subtracted as well and yylineno falls behind [variant %s]' % (where(x), cell_str(bad[0]), v.name),
                                     variant=v.describe(), replay_input=R8_REPLAY)
                        else:
                            rep.ok('C09.R8', '%s %s:%s the line rewind of yyless (loop@%s) starts at a value that does not depend on %s' % (
                                v.name, gname, site.line, x.line, '/'.join(sorted(cell_str(c) for c in more))))
        if not found: rep.broken('C09.R8: no line-rewind loop of yyless recognised in %s' % v.name)
    need = {(b, 'pointer') for b in variants.BACKENDS}
    if not need <= covered: rep.broken('C09.R8: no yyless line rewind analysed inside yylex for %s' % sorted(need - covered))
    rep.setcount('r8_yyless_rewind_starts', n)
    return n

R8_REPLAY = ('%option yylineno noyywrap\n%%\n"ab\\ncd\\n"  { yymore(); }\n"EF\\nGH"  { yyless(8); printf("%d\\n", yylineno); }\n.|\\n  { }\n%%\n'
             '# input `ab\\ncd\\nEF\\nGH\\n`: yytext = "ab\\ncd\\nEF\\nGH", yyless(8) keeps "ab\\ncd\\nEF", two newlines consumed, must print 3')

# ================================================================== driver

def run(ctx):
    rep = ctx.rep
    r1(ctx); r2(ctx); r4(ctx); r5(ctx)
    n_with, n_without = r3(ctx)
    rep.floor('C09.R1', 14, '12 non-epsilon mkstate() sites in 7 parser actions + dupmachine + the transchar[] writer census')
    rep.floor('C09.R2', 9, 'cclinit/cclnegate (cclng), ccladd/ccl2ecl (ccltbl), qsort/mkeccl escapes, nlch, two flag arrays')
    rep.floor('C09.R3', 340, 'per yylineno variant: guarded sites + yylex/yyunput/yyinput shapes (+4 regions in own probes); one per variant without')
    rep.floor('C09.R4', 2, 'M4_HOOK_CHAR_FORWARD and M4_HOOK_CHAR_REWIND in finish_rule')
    import c09_tbl
    rep.setcount('eol_table_rules', c09_tbl.run(ctx, rep))
    rep.floor('C09.R6', 20, 'newline-capable rules of the language probes x 2 table representations')
    rep.floor('C09.R5', 7, 'two table bodies, agreement, length, two call sites under do_yylineno, fwrite')
    r7(ctx)
    rep.floor('C09.R7', 18, 'one loop initialisation per yylineno+yymore variant: 16 %pointer (all five back ends) and 4 %array (nr, r, c99, go)')
    r8(ctx)
    rep.floor('C09.R8', 30, 'the in-action and the section-3 yyless of each of >=18 yylineno+yymore variants (C++ has no section-3 form)')
    rep.undecided += ['the numeric value of yylineno for any input or history',
                      'that rule_has_nl[] is exact (it may over-approximate: a flagged rule that never matches newline only costs time)',
                      'that cclnegate() is applied at most once per class (a second call would flip ccl_has_nl[] again)',
                      'yylineno across buffer switches in the non-reentrant C scanner (one global, not per buffer)',
                      'bounds of the rewind loops (that yyless/trailing-context scan exactly the bytes given back)',
                      'variable trailing context and yyreject(): the count relies on yytext/yyleng being final before the post-match loop',
                      'actions that change yytext/yyleng by hand',
                      'C09.R7 takes "the offset of the new piece" from the register the token set-up itself uses to place the text; that yymore() and the '
                      'scan loop compute that register correctly is C08; a set-up that keeps the offset in a local temporary is not followed']
    rep.assumptions += ['clang -O0 IR of flex and of the instantiated skeletons is a faithful rendering of the C/C++ sources',
                        "reverse_case() maps only newline to newline (tolower/toupper in the C locale)",
                        'the generated parse.c names each production in the comment of its case label (used for instance names only)',
                        'the own probes (variants/c09) turn on every skeleton arm that touches the line counter: bol/no-bol yyinput, both yyless forms, LINE_FORWARD, LINE_REWIND']
    return rep.finish('other',
        'Generator side on the LLVM IR of flex (21 TUs): every mkstate() call site is classified by the origin of its argument and, per bison action (case of the '
        'yyparse switch), a path query proves that rule_has_nl[num_rules] = true is stored whenever the class flag / the character comparison says newline; '
        'ccl_has_nl[] maintenance in ccl.c, the LINE/CHAR hook pairing in finish_rule and the agreement of the in-code and serialized eol tables are checked the same way. '
        'Scanner side on the IR of %d instantiated variants with M4_MODE_YYLINENO (all five back ends, incl. 10 own probes whose rules can match newline in trailing context and '
        'yyless) and %d without: control-dependence of every line-counter increment/decrement on a comparison with newline, the post-match loop under '
        'yy_rule_can_match_eol[yy_act], yyunput/yyinput path coverage, rewind loops placed before yyleng/yy_c_buf_p change; who-writes = 0 without the option; '
        'with yymore() the start index of the post-match loop is traced by value flow (copies, overwrites, callee summaries) to the offset the token set-up used.' % (n_with, n_without))
