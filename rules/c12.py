"""C12 - scanner instances are isolated from each other; prefixed scanners do not clash at link time.

R1  no writable shared state: in every reentrant-C, c99, go and C++ variant the module defines no global that is
    not `constant`, and no store / libc memory writer targets memory rooted at a global.  With --tables-file the
    mutable globals are exactly yydmap + the table pointers named in its initialiser, written only by the loader.
R2  every memory access of a scanner function is rooted at a parameter, a local, a constant table, an allowed
    external (stdin/stdout/stderr, C++ cin/cout/cerr, errno) or memory returned by an allocator / another scanner
    function.
R3  no scanner function refers to a libc function that POSIX lists as not thread-safe.
R5  C++: every member that yy_init_globals of the C scanners resets and that a member function reads is initialised on every
    constructor path, so that a lexer built in recycled storage does not inherit another instance's state (see c13.r8).
R6  reentrant C / c99 / go: yylex_init*() zero-fills the whole new instance (length >= size of the instance type in the IR) or
    assigns every member; a short fill leaves the members yy_init_globals() does not assign to the storage's history.
R4  with %option prefix="foo" every strong external definition carries the prefix (C) or belongs to fooFlexLexer
    (C++); scanners with different prefixes have disjoint strong external definitions.
"""
import os, re, subprocess, tempfile
import ir, flow, variants
from common import where, fwhere, VERIF

ISOLATED = ('r', 'c99', 'go', 'cxx')

def skel(v):
    return {'nr': 'cpp-flex.skl', 'r': 'cpp-flex.skl', 'cxx': 'cpp-flex.skl', 'c99': 'c99-flex.skl', 'go': 'go-flex.skl'}[v.backend]

def _ids(s, i):
    """length-prefixed identifiers of an Itanium <name> starting at s[i]; returns (list, index after)"""
    out = []
    nested = False
    while i < len(s) and s[i] in 'NKLrVO':
        if s[i] == 'N': nested = True
        i += 1
    while i < len(s):
        m = re.compile(r'\d+').match(s, i)
        if m:
            n = int(m.group(0)); out.append(s[m.end():m.end() + n]); i = m.end() + n
            if not nested: break
            continue
        if s[i] in 'CD' and i + 1 < len(s) and s[i + 1].isdigit() and out:
            out.append(('~' if s[i] == 'D' else '') + out[-1]); i += 2; continue
        break
    if nested and i < len(s) and s[i] == 'E': i += 1
    return out, i

def norm(name):
    """identifier with the variant's prefix mapped back to yy; Itanium-mangled C++ names are reduced to A::b[::c]"""
    if name.startswith('_ZZ'):
        enc, i = _ids(name, 3)
        j = name.find('E', i)
        loc, _ = _ids(name, j + 1) if j >= 0 else ([], 0)
        parts = enc + loc
    elif name.startswith('_ZT') and len(name) > 3 and name[3] in 'VISTv':
        parts, _ = _ids(name, 4); parts = ['%s-of' % {'V': 'vtable', 'I': 'typeinfo', 'S': 'typename'}.get(name[3], 'T' + name[3])] + parts
    elif name.startswith('_Z'):
        parts, _ = _ids(name, 2)
    else:
        parts = None
    if parts: name = '::'.join(parts)
    return re.sub(r'(?<![A-Za-z0-9_])(foo|bar)(?=[a-zA-Z_])', 'yy', name)

# ---------------------------------------------------------------- value origins (shared with c13)

class Origins:
    """Where can an SSA value come from?  Flow-insensitive inside one function: a load of a C local yields every
    value stored to that local anywhere in the function.  Origins (tuples, last member `off` = pointer arithmetic
    or member selection was applied on the way):
      ('call', callee, ins, off)   result of a call           ('param', name, off)   incoming argument
      ('load', addr_value, ins, off) value read from memory that is not a plain local
      ('global', g, off)  address of global g                 ('alloca', name, off)  address of a local
      ('const', v, off)   null / integer                      ('unknown', what, off)
    """
    def __init__(s, fn):
        s.fn = fn
        s.stores = {}        # alloca -> [store ins writing the whole local]
        s.escaped = set()    # allocas whose address is used other than as the address operand of load/store
        allocas = {x.res for x in fn.ins if x.op == 'alloca'}
        s.allocas = allocas
        for x in fn.ins:
            if x.op == 'store':
                v, p = x.ops
                if p[0] == 'reg' and p[1] in allocas: s.stores.setdefault(p[1], []).append(x)
                if v[0] == 'reg' and v[1] in allocas: s.escaped.add(v[1])
            elif x.op == 'load': pass
            else:
                for o in x.ops:
                    for r in ir.regs_in(o):
                        if r in allocas: s.escaped.add(r)
        s.memo = {}

    def of(s, v):
        key = v if isinstance(v, tuple) and v[0] in ('reg', 'glob') else None
        if key is not None and key in s.memo: return s.memo[key]
        out = set()
        s._walk(v, False, out, set())
        out = frozenset(out)
        if key is not None: s.memo[key] = out
        return out

    def _walk(s, v, off, out, seen):
        k = v[0]
        if k == 'glob': out.add(('global', v[1], off)); return
        if k == 'null': out.add(('const', 0, off)); return
        if k == 'int': out.add(('const', v[1], off)); return
        if k == 'cgep':
            nz = any(not (i[0] == 'int' and i[1] == 0) for i in v[3])
            s._walk(v[2], off or nz, out, seen); return
        if k == 'ccast': s._walk(v[2], off, out, seen); return
        if k == 'cbin':
            s._walk(v[2], True, out, seen); s._walk(v[3], True, out, seen); return
        if k != 'reg': out.add(('unknown', k, off)); return
        if (v[1], off) in seen: return
        seen.add((v[1], off))
        d = s.fn.def_of(v)
        if d is None:
            out.add(('param', v[1], off) if s.fn.is_param(v[1]) else ('unknown', v[1], off)); return
        op = d.op
        if op == 'alloca': out.add(('alloca', d.res, off)); return
        if op in ('bitcast', 'addrspacecast', 'inttoptr', 'ptrtoint', 'sext', 'zext', 'trunc', 'freeze'):
            s._walk(d.ops[0], off, out, seen); return
        if op == 'getelementptr':
            nz = any(not (i[0] == 'int' and i[1] == 0) for i in d.ops[1:])
            s._walk(d.ops[0], off or nz, out, seen); return
        if op in ('phi',):
            for o in d.ops: s._walk(o, off, out, seen)
            return
        if op == 'select':
            for o in d.ops[1:]: s._walk(o, off, out, seen)
            return
        if op in ('add', 'sub', 'mul', 'and', 'or', 'xor', 'shl', 'lshr', 'ashr', 'sdiv', 'udiv', 'srem', 'urem'):
            for o in d.ops: s._walk(o, True, out, seen)
            return
        if op in ('call', 'invoke'):
            out.add(('call', d.callee if isinstance(d.callee, str) else '?', d, off)); return
        if op == 'load':
            a = d.ops[0]
            if a[0] == 'reg' and a[1] in s.allocas:
                st = s.stores.get(a[1], [])
                for x in st: s._walk(x.ops[0], off, out, seen)
                if a[1] in s.escaped or not st:
                    # written behind our back (address passed to a callee) or never written
                    out.add(('load', a, d, off))
                return
            out.add(('load', a, d, off)); return
        if op in ('icmp', 'fcmp'): out.add(('const', 'bool', off)); return
        out.add(('unknown', op, off))

    def roots(s, addr, depth=0):
        """ultimate bases of an address: origins with every ('load', a) replaced by the roots of a"""
        out = set(); seen = set()
        work = [addr]
        while work:
            a = work.pop()
            for o in s.of(a):
                if o[0] == 'load':
                    k = id(o[2])
                    if k in seen: continue
                    seen.add(k); work.append(o[1])
                else:
                    out.add(o[:-1])
        return out

def ret_roots(prog, fn, cache, depth=0):
    """roots of the values a function returns (params of the callee are reported as ('param', name))"""
    if fn.name in cache: return cache[fn.name]
    cache[fn.name] = set()          # recursion guard
    o = Origins(fn); out = set()
    for x in fn.ins:
        if x.op == 'ret' and x.ops:
            for r in o.roots(x.ops[0]):
                if r[0] == 'call' and r[1] in prog.functions and depth < 4:
                    out |= {q for q in ret_roots(prog, prog.functions[r[1]], cache, depth + 1) if q[0] != 'param'}
                else: out.add(r)
    cache[fn.name] = out
    return out

# ---------------------------------------------------------------- R1 / R2

CXX_RUNTIME_GLOBALS = {
    '_ZStL8__ioinit': "libstdc++ iostream initialiser object, written only by the static-init function of <iostream>",
    'llvm.global_ctors': 'static-initialiser table of the translation unit (appending linkage, not data)',
}
CXX_INIT_FUNCS = re.compile(r'^(__cxx_global_var_init(\.\d+)?|_GLOBAL__sub_I_.*)$')
ALLOWED_EXTERNALS = {'stdin', 'stdout', 'stderr', '_ZSt3cin', '_ZSt4cout', '_ZSt4cerr', '__dso_handle'}
LOADER = {'yytbl_data_load', 'yytbl_fload', 'yytables_fload', 'yytables_destroy', 'yytbl_dmap_lookup', 'yytbl_hdr_read'}
# libc entry points that write through a pointer argument: (callee, index of the written argument)
MEM_WRITERS = {'memset': 0, 'memcpy': 0, 'memmove': 0, 'strcpy': 0, 'strncpy': 0, 'strcat': 0, 'strncat': 0, 'sprintf': 0, 'snprintf': 0,
               'fread': 0, 'read': 1, 'fgets': 0, 'llvm.memset.p0i8.i64': 0, 'llvm.memcpy.p0i8.p0i8.i64': 0, 'llvm.memmove.p0i8.p0i8.i64': 0}
# external functions whose pointer result may be dereferenced by scanner code
ALLOC_LIKE = {'malloc', 'calloc', 'realloc', '__errno_location', '_Znam', '_Znwm', '__cxa_begin_catch',
              '_ZNKSt9basic_iosIcSt11char_traitsIcEE5rdbufEv', '_ZNSt9basic_iosIcSt11char_traitsIcEE5rdbufEPSt15basic_streambufIcS1_E',
              '_ZNSi3getERc', '_ZNSo5writeEPKcl', '_ZNSolsEPFRSoS_E', '_ZStlsISt11char_traitsIcEERSt13basic_ostreamIcT_ES5_PKc',
              '_ZSt4endlIcSt11char_traitsIcEERSt13basic_ostreamIT_T0_ES6_'}
R2_EXEMPT = {'yylex_init': 'creates the instance', 'yylex_init_extra': 'creates the instance', 'yyalloc': 'user-replaceable allocator',
             'yyrealloc': 'user-replaceable allocator', 'yyfree': 'user-replaceable allocator', 'main': '%option main driver, not a scanner function'}

def dmap_info(mod):
    """(name of the yydmap global, set of globals named in its initialiser) or (None, set())"""
    for n, g in mod.globals.items():
        if norm(n) == 'yydmap' and not g.external:
            tg = set(ir.globs_in(g.init)) if g.init is not None else set()
            if not tg: tg = {m.strip('"') for m in re.findall(r'@([-\w.$]+)', g.text.split('=', 1)[1])} - {n}
            return n, tg
    return None, set()

def readonly_globals(mod):
    """non-constant global definitions that are nevertheless never written and whose address never leaves a
    load/getelementptr/cast/compare chain (e.g. `static const T *tab[N]`: the array lacks a const of its own)."""
    cand = {n for n, g in mod.globals.items() if not g.external and not g.constant}
    if not cand: return set()
    for n, g in mod.globals.items():           # address taken in another initialiser
        if g.init is not None:
            for r in ir.globs_in(g.init): cand.discard(r) if r != n else None
        elif not g.external:
            for r in re.findall(r'@([-\w.$]+)', g.text.split('=', 1)[1]): cand.discard(r) if r != n else None
    for fn in mod.functions.values():
        if not cand: break
        uses = None
        for x in fn.ins:
            gs = set()
            for o_ in x.ops: gs |= set(ir.globs_in(o_))
            gs &= cand
            if not gs: continue
            if uses is None: uses = fn.uses()
            if not _addr_use_is_read(fn, uses, x, lambda o_: any(g_ in gs for g_ in ir.globs_in(o_)), 0): cand -= gs
    return cand

def _addr_use_is_read(fn, uses, x, is_addr, depth):
    """instruction x uses an address (operand satisfying is_addr): is that use a pure read?"""
    if depth > 12: return False
    if x.op == 'load': return is_addr(x.ops[0])
    if x.op == 'icmp': return True
    if x.op in ('getelementptr', 'bitcast'):
        if not is_addr(x.ops[0]): return False        # used as an index?!
        me = ('reg', x.res)
        return all(_addr_use_is_read(fn, uses, u, lambda o_: o_ == me, depth + 1) for u in uses.get(x.res, []))
    return False

def r1_globals(rep, v, mod, allow, ro=frozenset()):
    """global definitions: every one constant, effectively read-only, or in `allow` {name: reason}"""
    n = 0; bad = []
    for name, g in mod.globals.items():
        if g.external: continue
        n += 1
        if g.constant or name in allow: continue
        if name in ro:
            rep.note('%s: @%s is not const-qualified but is never written and its address does not escape' % (v.name, name)); continue
        bad.append(name)
        rep.fail('C12.R1', 'C12.R1:%s:global:%s' % (skel(v), norm(name)), '%s (global @%s)' % (os.path.basename(v.src), name),
                 'writable global @%s is defined in a %s scanner: state shared by all instances [variant %s]' % (name, v.backend, v.name), variant=v.describe())
    if not bad:
        rep.ok('C12.R1', '%s: %d global definitions, all constant%s' % (v.name, n, (' except ' + ','.join(sorted(allow))) if allow else ''))
    return n

def access_roots(o, x):
    if x.op == 'load': return o.roots(x.ops[0])
    if x.op == 'store': return o.roots(x.ops[1])
    return set()

def r1r2_functions(rep, v, prog, mod, allow_mut, loader_ok, rcache, ro=frozenset()):
    """per function: R1 - no write rooted at a global; R2 - every access rooted at parameter/local/constant/allowed"""
    nf = 0; na = 0
    for fn in mod.functions.values():
        if fn.linkage == 'linkonce' or not fn.blocks: continue     # inline library code (FlexLexer.h base class, libstdc++)
        base = norm(fn.name)
        if v.backend == 'cxx' and CXX_INIT_FUNCS.match(fn.name): continue
        o = Origins(fn)
        nf += 1
        w_bad = 0; a_bad = 0; cnt = 0
        in_loader = base in LOADER and loader_ok
        for x in fn.ins:
            wr = None
            if x.op == 'store': wr = x.ops[1]
            elif x.op in ('call', 'invoke') and x.callee in MEM_WRITERS and len(x.ops) > MEM_WRITERS[x.callee]: wr = x.ops[MEM_WRITERS[x.callee]]
            if wr is not None:
                for r in o.roots(wr):
                    if r[0] == 'global' and not (in_loader and r[1] in allow_mut):
                        w_bad += 1
                        rep.fail('C12.R1', 'C12.R1:%s:%s:write:%s' % (skel(v), base, norm(r[1])), where(x),
                                 '%s writes memory rooted at global @%s [variant %s]' % (fn.name, r[1], v.name), variant=v.describe())
            if x.op not in ('load', 'store'): continue
            cnt += 1
            if base in R2_EXEMPT: continue
            for r in access_roots(o, x):
                why = r2_root_verdict(prog, mod, fn, x, r, allow_mut, in_loader, rcache, ro)
                if why:
                    a_bad += 1
                    rep.fail('C12.R2', 'C12.R2:%s:%s:%s' % (skel(v), base, why[0]), where(x),
                             '%s: %s %s [variant %s]' % (fn.name, x.op, why[1], v.name), variant=v.describe())
        na += cnt
        if not w_bad: rep.ok('C12.R1', '%s %s: no store/libc write rooted at a global' % (v.name, fn.name))
        if base not in R2_EXEMPT and not a_bad:
            rep.ok('C12.R2', '%s %s: %d loads/stores, all rooted at parameters, locals, constants or allowed externals' % (v.name, fn.name, cnt))
    return nf, na

def r2_root_verdict(prog, mod, fn, x, r, allow_mut, in_loader, rcache, ro=frozenset()):
    """None when root r is acceptable for access x, else (key-part, explanation)"""
    k = r[0]
    if k in ('param', 'alloca'): return None
    if k == 'const':
        if r[1] in (0, 'bool'): return None
        return ('absolute:%s' % r[1], 'through the absolute address %s' % r[1])
    if k == 'global':
        g = mod.globals.get(r[1])
        if g is not None and (g.constant or r[1] in ro): return None
        if r[1] in ALLOWED_EXTERNALS: return None
        if r[1] in allow_mut and (x.op == 'load' or in_loader): return None
        if g is None and r[1] in mod.functions or r[1] in mod.declares: return None      # address of a function
        return ('global:%s' % norm(r[1]), 'of memory rooted at non-constant global @%s, which is not reached through the instance' % r[1])
    if k == 'call':
        c = r[1]
        if c in ALLOC_LIKE: return None
        if c in mod.functions:
            for q in ret_roots(prog, mod.functions[c], rcache):
                if q[0] == 'global':
                    w = r2_root_verdict(prog, mod, fn, x, q, allow_mut, in_loader, rcache, ro)
                    if w: return ('via:%s:%s' % (norm(c), w[0]), 'through the result of %s(), i.e. %s' % (c, w[1]))
            return None
        if c == '?':
            return None          # indirect call (C++ virtual): result provenance is the callee's business
        return ('extcall:%s' % c, 'through the pointer returned by external function %s(), which is not a known allocator' % c)
    if k == 'unknown':
        return ('undecided:%s' % r[1], 'whose address provenance the analysis cannot determine (%s)' % (r[1],))
    return None

# ---------------------------------------------------------------- R3

NOT_THREAD_SAFE = set('''asctime basename catgets crypt ctime dbm_clearerr dbm_close dbm_delete dbm_error dbm_fetch dbm_firstkey dbm_nextkey
dbm_open dbm_store dirname dlerror drand48 ecvt encrypt endgrent endpwent endutxent fcvt ftw gcvt getc_unlocked getchar_unlocked getdate getenv
getgrent getgrgid getgrnam gethostbyaddr gethostbyname gethostent getlogin getnetbyaddr getnetbyname getnetent getopt getprotobyname
getprotobynumber getprotoent getpwent getpwnam getpwuid getservbyname getservbyport getservent getutxent getutxid getutxline gmtime hcreate
hdestroy hsearch inet_ntoa l64a lgamma lgammaf lgammal localeconv localtime lrand48 mrand48 nftw nl_langinfo ptsname putc_unlocked
putchar_unlocked putenv pututxline rand random srand srandom readdir setenv setgrent setkey setpwent setutxent strerror strsignal strtok system
tmpnam tempnam mktemp ttyname unsetenv wcstombs wctomb mblen mbtowc setlocale fgetc_unlocked fputc_unlocked fread_unlocked fwrite_unlocked
clearerr_unlocked feof_unlocked ferror_unlocked fileno_unlocked fflush_unlocked fgets_unlocked fputs_unlocked erand48 jrand48 nrand48 seed48
srand48 lcong48 initstate setstate getmntent getpass cuserid ctermid qecvt qfcvt qgcvt sethostent setnetent setprotoent setservent
endhostent endnetent endprotoent endservent getrpcent getrpcbyname getrpcbynumber fcloseall'''.split())

def r3(rep, v, mod):
    n = 0
    used = {}
    for fn in mod.functions.values():
        for x in fn.ins:
            if x.op in ('call', 'invoke') and isinstance(x.callee, str) and x.callee in mod.declares:
                used.setdefault(x.callee, x)
    for name in sorted(mod.declares):
        if name.startswith('llvm.'): continue
        n += 1
        plain = name.lstrip('_')
        if name in NOT_THREAD_SAFE or plain in NOT_THREAD_SAFE:
            x = used.get(name)
            rep.fail('C12.R3', 'C12.R3:%s:%s:%s' % (skel(v), norm(x.fn.name) if x else '*', name), where(x) if x else os.path.basename(v.src),
                     'scanner code refers to %s(), which POSIX does not require to be thread-safe [variant %s]' % (name, v.name), variant=v.describe())
        else:
            rep.ok('C12.R3', '%s: external function %s is not on the not-thread-safe list' % (v.name, name))
    return n

# ---------------------------------------------------------------- R4

R4_EXCEPT = {'main': 'program entry point emitted on request by %option main'}

def strong_externals(mod):
    """names of strong, externally visible definitions of a module (what `nm --extern-only --defined-only` prints
    as T/D/B/R/C); weak / linkonce (inline functions, vtables of header-only classes) are merged by the linker and excluded"""
    out = {}
    for n, f in mod.functions.items():
        if f.linkage == 'external' and f.blocks: out[n] = 'function'
    for n, g in mod.globals.items():
        if g.external or g.internal: continue
        if any(l.startswith(('linkonce', 'weak', 'available_externally', 'appending')) for l in g.linkage): continue
        out[n] = 'object'
    for n, t in mod.aliases.items():
        if not re.search(r'\b(internal|private|linkonce|weak)', t.split('alias', 1)[0] if 'alias' in t else ''): out[n] = 'alias'
    return out

def has_prefix(sym, pfx, cxx):
    if not cxx: return sym.startswith(pfx)
    cls = '%d%sFlexLexer' % (len(pfx) + len('FlexLexer'), pfx)
    if re.match(r'_Z(N|TV|TI|TS|TT|NK|Thn\d+_N|Tv\d+_n\d+_N)' + cls, sym): return True
    m = re.match(r'_Z(\d+)', sym)
    if m:
        k = m.end(); return sym[k:k + int(m.group(1))].startswith(pfx)
    return sym.startswith(pfx)

def variant_prefix(v):
    for o in v.options:
        m = re.match(r'prefix="(\w+)"', o)
        if m: return m.group(1)
    return 'yy'

def r4(ctx, rep, vs, extra):
    n = 0
    ext = {}; reported = set()
    # the go skeleton states that it ignores %option prefix (and go is not one of the documented back ends): not judged
    pv = [v for v in vs if variant_prefix(v) != 'yy' and v.backend != 'go'] + extra
    rep.require(len(pv) >= 4, 'fewer than 4 prefixed scanner variants available for C12.R4')
    for v in pv:
        mod = variants.module(v); pfx = variant_prefix(v)
        ex = strong_externals(mod); ext[v.name] = (v, pfx, ex)
        rep.require(len(ex) >= 15, 'variant %s: only %d strong external definitions found' % (v.name, len(ex)))
        for sym, kind in sorted(ex.items()):
            n += 1
            if sym in R4_EXCEPT: continue
            if has_prefix(sym, pfx, v.backend == 'cxx'):
                rep.ok('C12.R4', '%s: external %s %s carries prefix %s' % (v.name, kind, sym, pfx))
            else:
                f = mod.functions.get(sym); reported.add(sym)
                rep.fail('C12.R4', 'C12.R4:%s:unprefixed:%s' % (skel(v), sym), fwhere(f) if f else '%s (@%s)' % (os.path.basename(v.src), sym),
                         'scanner generated with prefix="%s" defines external %s %s without the prefix: two such scanners clash at link time [variant %s]'
                         % (pfx, kind, sym, v.name), variant=v.describe())
    # pairwise disjointness, including against an unprefixed scanner of the same back end
    base = {}
    for v in vs:
        if variant_prefix(v) == 'yy' and v.name in ('nr_norej', 'r_norej', 'cxx_norej', 'c99_norej'):
            base[v.backend] = (v, 'yy', strong_externals(variants.module(v)))
    allv = list(ext.values()) + list(base.values())
    for i in range(len(allv)):
        for j in range(i + 1, len(allv)):
            (v1, p1, e1), (v2, p2, e2) = allv[i], allv[j]
            if p1 == p2: continue
            n += 1
            common = sorted((set(e1) & set(e2)) - set(R4_EXCEPT))
            if any(s_ in reported for s_ in common):
                rep.note('%s vs %s: %d common externals, all already reported as unprefixed' % (v1.name, v2.name, len([s_ for s_ in common if s_ in reported])))
                common = [s_ for s_ in common if s_ not in reported]
                if not common: continue
            if not common:
                rep.ok('C12.R4', 'disjoint: %s (%s, %d symbols) vs %s (%s, %d symbols)' % (v1.name, p1, len(e1), v2.name, p2, len(e2)))
            for sym in common:
                rep.fail('C12.R4', 'C12.R4:%s+%s:clash:%s' % (skel(v1), skel(v2), sym), '%s + %s' % (os.path.basename(v1.src), os.path.basename(v2.src)),
                         'scanners with prefixes "%s" and "%s" both define external symbol %s [variants %s, %s]' % (p1, p2, sym, v1.name, v2.name),
                         variant=v1.describe() + ' || ' + v2.describe())
    return n

# ---------------------------------------------------------------- R6

INIT_FUNCS = ('yylex_init', 'yylex_init_extra')
MEMSETS = ('memset', 'llvm.memset.p0i8.i64')

def _stored_fields(fn, sname, depth=0, seen=None):
    """names of the members of struct `sname` that fn, or a scanner function it calls, stores"""
    seen = seen if seen is not None else set()
    if fn.name in seen or depth > 2: return set()
    seen.add(fn.name)
    res = ir.Resolver(fn); out = set()
    for x in fn.ins:
        if x.op == 'store':
            c = ir.loc_class(res.loc(x.ops[1]))
            if c and c[0] == 'field' and c[1] == sname: out.add(c[2])
        elif x.op in ('call', 'invoke') and isinstance(x.callee, str) and x.callee in fn.mod.functions and norm(x.callee) not in ('yyalloc', 'yyrealloc', 'yyfree'):
            out |= _stored_fields(fn.mod.functions[x.callee], sname, depth + 1, seen)
    return out

def r6(rep, v, prog, mod):
    """reentrant C / c99 / go: the function that allocates the instance hands it out fully initialised - a zero fill as long as the
    instance structure (size taken from the IR type), or a store to every member before it returns"""
    n = 0
    byname = {}
    for f in mod.functions.values(): byname.setdefault(norm(f.name), f)
    ig = byname.get('yy_init_globals')
    if ig is None: rep.broken('variant %s has no yy_init_globals' % v.name)
    # the instance type: the structure whose members yy_init_globals assigns
    res = ir.Resolver(ig); cnt = {}
    for x in ig.ins:
        if x.op == 'store':
            c = ir.loc_class(res.loc(x.ops[1]))
            if c and c[0] == 'field': cnt[c[1]] = cnt.get(c[1], 0) + 1
    if not cnt: rep.broken('variant %s: yy_init_globals assigns no structure member' % v.name)
    sname = max(cnt, key=cnt.get)
    tname = next((t for t in mod.types if ir.short_struct(t) == sname and mod.types[t] is not None), None)
    if tname is None: rep.broken('variant %s: instance type %s has no definition in the IR' % (v.name, sname))
    ty = ir.Ty('named', tname)
    size = mod.sizeof(ty); names = mod.struct_fields(tname) or []; offs = mod.field_offsets(ty)
    if size < 64 or len(names) != len(offs): rep.broken('variant %s: cannot lay out %s (size %d, %d members)' % (v.name, tname, size, len(names)))
    fns = [byname[k] for k in INIT_FUNCS if k in byname]
    if not fns: rep.broken('variant %s has no yylex_init' % v.name)
    for fn in fns:
        n += 1
        o = Origins(fn); cfg = prog.cfg(fn)
        allocs = [x for x in fn.ins if x.op == 'call' and isinstance(x.callee, str) and norm(x.callee) == 'yyalloc']
        key0 = 'C12.R6:%s:%s' % (skel(v), norm(fn.name))
        if not allocs:
            rep.fail('C12.R6', key0 + ':no-allocation', fwhere(fn), '%s does not allocate the instance [variant %s]' % (fn.name, v.name), variant=v.describe()); continue
        asz = allocs[0].ops[0]
        if asz[0] != 'int' or asz[1] < size:
            rep.fail('C12.R6', key0 + ':instance-allocated-short', where(allocs[0]), '%s allocates %s bytes for an instance of type %s, which is %d bytes long [variant %s]' % (
                fn.name, asz[1] if asz[0] == 'int' else 'a non-constant number of', sname, size, v.name), variant=v.describe()); continue
        # the block: the allocation result, or what was stored through the out-parameter that received it
        def is_block(a):
            for r in o.of(a):
                if r[0] == 'call' and r[2] is allocs[0]: return True
                if r[0] == 'load':
                    for q in o.roots(r[1]):
                        if q[0] == 'param': return True
            return False
        inits = [x for x in fn.ins if x.op == 'call' and isinstance(x.callee, str) and norm(x.callee) == 'yy_init_globals']
        fills = []
        for x in fn.ins:
            if x.op == 'call' and x.callee in MEMSETS and len(x.ops) >= 3 and is_block(x.ops[0]) and x.ops[1] == ('int', 0) and x.ops[2][0] == 'int':
                # the fill counts when no successful return is reachable from the allocation without passing it
                if not any(y.op == 'call' and y in inits for y in cfg.reach(allocs[0], avoid=[x])) or not inits: fills.append(x)
        filled = max([x.ops[2][1] for x in fills], default=0)
        if filled >= size:
            rep.ok('C12.R6', '%s %s: instance of %d bytes (%s) zero-filled over %d bytes before yy_init_globals' % (v.name, fn.name, size, sname, filled)); continue
        stored = _stored_fields(fn, sname)
        left = [names[i] for i in range(len(names)) if names[i] not in stored and (offs[i] + mod.sizeof(mod.types[tname].a[i])) > filled]
        if not left:
            rep.ok('C12.R6', '%s %s: zero fill covers %d of %d bytes; every other member is assigned before return' % (v.name, fn.name, filled, size)); continue
        rep.fail('C12.R6', key0 + ':instance-not-zeroed', where(fills[0]) if fills else fwhere(fn),
                 '%s zero-fills only %d of the %d bytes of the new instance (%s); %d members that yy_init_globals does not assign keep whatever the storage held before: %s%s [variant %s]' % (
                     fn.name, filled, size, sname, len(left), ', '.join(left[:10]), ' ...' if len(left) > 10 else '', v.name), variant=v.describe(),
                 replay_input='reentrant scanner: fill a block with 0xAA, free it, yylex_init(&s) (malloc returns the same block), then yyget_debug(s) / scan with variable trailing context')
    return n

# ---------------------------------------------------------------- positive controls

def compile_control(ctx, name):
    """compile selftest/<name> to IR in a scratch dir; returns ir.Module"""
    src = os.path.join(VERIF, 'selftest', name)
    if not os.path.exists(src): ctx.rep.broken('positive control %s is missing' % src)
    d = tempfile.mkdtemp(prefix='verifctl.')
    try:
        ll = os.path.join(d, 'ctl.ll')
        cc = ['clang++', '-std=gnu++17'] if name.endswith(('.cc', '.cpp')) else ['clang', '-std=gnu11']
        p = subprocess.run(cc + ['-O0', '-g', '-fno-discard-value-names', '-S', '-emit-llvm', '-w', src, '-o', ll], stdout=subprocess.PIPE, stderr=subprocess.STDOUT, timeout=60)
        if p.returncode != 0: ctx.rep.broken('positive control %s does not compile: %s' % (name, p.stdout.decode(errors='replace')[-400:]))
        return ir.Module(ll)
    finally:
        import shutil; shutil.rmtree(d, ignore_errors=True)

class _Probe:
    """reporter stand-in that records failures of a rule run on a positive control"""
    def __init__(s): s.fails = []; s.oks = 0
    def ok(s, *a): s.oks += 1
    def note(s, *a): pass
    def fail(s, rule, key, *a, **k): s.fails.append((rule, key))
    def require(s, c, m):
        if not c: raise AssertionError(m)

class _FakeVariant:
    def __init__(s, name, backend, src, options=()):
        s.name = name; s.backend = backend; s.src = src; s.options = list(options); s.feats = frozenset()
    def describe(s): return s.name

def controls(ctx):
    rep = ctx.rep
    mod = compile_control(ctx, 'c12_control.c')
    prog = ir.Program([mod])
    fv = _FakeVariant('selftest/c12_control.c', 'r', 'c12_control.c', ['prefix="foo"'])
    pr = _Probe()
    ro = readonly_globals(mod)
    if 'yy_ctl_rotab' not in ro or ro & {'yy_ctl_counter', 'yy_ctl_scratch', 'yy_ctl_leak', 'yy_ctl_bump.calls'}:
        rep.broken('positive control: effectively-read-only classification is off: %s' % sorted(ro))
    r1_globals(pr, fv, mod, {}, ro)
    r1r2_functions(pr, fv, prog, mod, set(), False, {}, ro)
    r3(pr, fv, mod)
    keys = {k for _, k in pr.fails}
    want = ['C12.R1:cpp-flex.skl:global:yy_ctl_counter',                 # static int counter
            'C12.R1:cpp-flex.skl:global:yy_ctl_bump.calls',             # function-local static
            'C12.R1:cpp-flex.skl:yy_ctl_bump:write:yy_ctl_counter',     # store to it
            'C12.R1:cpp-flex.skl:yy_ctl_clear:write:yy_ctl_scratch',    # memset on a global array
            'C12.R2:cpp-flex.skl:yy_ctl_peek:global:yy_ctl_shared',     # load of an extern int
            'C12.R2:cpp-flex.skl:yy_ctl_via_ptr:global:yy_ctl_shared_ptr',   # access through an extern pointer held in a local
            'C12.R2:cpp-flex.skl:yy_ctl_time:extcall:localtime',        # deref of libc static storage
            'C12.R3:cpp-flex.skl:yy_ctl_tok:strtok', 'C12.R3:cpp-flex.skl:yy_ctl_time:localtime']
    for k in want:
        if k not in keys: rep.broken('positive control: rule did not fire on selftest/c12_control.c (%s missing; got %s)' % (k, sorted(keys)))
    # the clean function of the control must stay clean (guards against a rule that fires on everything)
    if any(':yy_ctl_clean:' in k for k in keys): rep.broken('positive control: rule fired on the clean function yy_ctl_clean: %s' % sorted(keys))
    # R4 control: one unprefixed external in a module "generated" with prefix foo, and a clash between two modules
    ex = strong_externals(mod)
    bad = sorted(s for s in ex if not has_prefix(s, 'foo', False))
    if 'yy_ctl_peek' not in bad or 'foo_ctl_ok' in bad or 'yy_ctl_hidden' in ex or 'foo_ctl_common' not in ex:
        rep.broken('positive control: C12.R4 external-symbol extraction is off: unprefixed=%s' % bad)
    if not has_prefix('_ZN12fooFlexLexer5yylexEv', 'foo', True) or has_prefix('_ZN11yyFlexLexer5yylexEv', 'foo', True) or \
       not has_prefix('_Z8fooallocm', 'foo', True) or has_prefix('_Z7yyallocm', 'foo', True):
        rep.broken('positive control: C12.R4 C++ name test is off')
    rep.note('positive controls: %d expected reports raised on selftest/c12_control.c, clean function silent' % len(want))
    return len(want)

# ---------------------------------------------------------------- driver

def extra_prefix_variants(ctx):
    """c99 has prefix machinery of its own (c99-flex.skl M4_GEN_PREFIX) but the core list has no prefixed c99 variant"""
    V = [variants.Variant('c99_prefix', 'c99', variants.NOREJ, ['prefix="foo"', 'yylineno']),
         variants.Variant('c99_prefix2', 'c99', variants.NOREJ, ['prefix="bar"', 'yylineno'])]
    variants.instantiate(ctx.art, V, 'c12')
    for v in V:
        if v.ll is None: ctx.rep.broken('extra variant %s did not compile to IR: %s' % (v.name, (getattr(v, 'll_err', '') or v.stderr)[:300]))
    return V

def run(ctx):
    rep = ctx.rep
    nctl = controls(ctx)
    vs = ctx.variants()
    iso = [v for v in vs if v.backend in ISOLATED]
    rep.require(len(iso) >= 45, 'only %d reentrant/c99/go/C++ variants compiled to IR' % len(iso))
    extra = extra_prefix_variants(ctx)
    tot = dict(glob=0, fns=0, acc=0, ext=0)
    ntab = 0
    for v in iso + extra:
        mod = variants.module(v); prog = variants.program(v)
        allow = {}
        allow_mut = set(); loader_ok = False
        if v.backend == 'cxx': allow.update({k: r for k, r in CXX_RUNTIME_GLOBALS.items() if k in mod.globals})
        if v.tables and v.backend not in ('c99', 'go'):      # the c99/go back ends have no loadable tables (the option is silently accepted: C02 D33)
            dm, tg = dmap_info(mod)
            if dm is None: rep.broken('variant %s uses --tables-file but defines no yydmap' % v.name)
            rep.require(len(tg) >= 2, 'variant %s: yydmap initialiser names only %d tables' % (v.name, len(tg)))      # -CF scanners have only yy_transition, yy_start_state_list (+ eol table)
            ntab += 1
            allow[dm] = 'table of (id, address) pairs consumed by the one-time loader'
            for t in tg:
                if t in mod.globals and not mod.globals[t].constant: allow[t] = 'table pointer filled by the one-time loader (named in yydmap)'
            allow_mut = {dm} | tg; loader_ok = True
            # who may mention yydmap / the table pointers by address or store to them
            for fn in mod.functions.values():
                refs = set()
                for x in fn.ins:
                    for o_ in x.ops:
                        for g in ir.globs_in(o_):
                            if g == dm: refs.add(g)
                if refs and norm(fn.name) not in LOADER:
                    rep.fail('C12.R1', 'C12.R1:%s:%s:uses-yydmap' % (skel(v), norm(fn.name)), fwhere(fn),
                             '%s refers to yydmap but is not part of the table loader [variant %s]' % (fn.name, v.name), variant=v.describe())
                elif refs:
                    rep.ok('C12.R1', '%s %s: yydmap user is a loader function' % (v.name, fn.name))
            # R7: the entry points that write the shared tables (load, destroy) are the user's one-time steps; no function of
            # the per-instance API may call them, or destroying/creating one instance changes the tables under every other one
            for fn in mod.functions.values():
                if norm(fn.name) in LOADER: continue
                for c in fn.ins:
                    if c.op in ('call', 'invoke') and isinstance(c.callee, str) and norm(c.callee) in ('yytables_fload', 'yytables_destroy'):
                        rep.fail('C12.R7', 'C12.R7:%s:%s:calls-%s' % (skel(v), norm(fn.name), norm(c.callee)), where(c),
                                 '%s, a function of the per-instance API, calls %s(): the loaded tables are shared by all instances of the scanner, so '
                                 'this frees or replaces them under every other live instance [variant %s]' % (fn.name, norm(c.callee), v.name), variant=v.describe())
                        break
                else:
                    if fn.blocks: rep.ok('C12.R7', '%s %s: does not call the shared-table load/destroy entry points' % (v.name, fn.name))
        ro = readonly_globals(mod) - set(allow)
        tot['glob'] += r1_globals(rep, v, mod, allow, ro)
        a, b = r1r2_functions(rep, v, prog, mod, allow_mut, loader_ok, {}, ro)
        tot['fns'] += a; tot['acc'] += b
        tot['ext'] += r3(rep, v, mod)
        if v.backend in ('r', 'c99', 'go'): tot['init'] = tot.get('init', 0) + r6(rep, v, prog, mod)
    n4 = r4(ctx, rep, vs, extra)
    # R5: a C++ lexer object does not depend on what its storage held before (shared implementation with C13.R8)
    import c13
    cinit = set(); n5 = 0
    for v in iso:
        if v.backend == 'r':
            cinit |= c13.c_init_set(variants.module(v), c13.Flow(variants.program(v), variants.module(v)))
    rep.require(len(cinit) >= 12, 'yy_init_globals of the reentrant C scanners resets only %d objects' % len(cinit))
    for v in iso:
        if v.backend == 'cxx':
            mod = variants.module(v); prog = variants.program(v)
            n5 += c13.r8(rep, v, prog, mod, c13.Flow(prog, mod), cinit, rule='C12.R5')
    rep.setcount('constructor_member_checks', n5)
    rep.setcount('instance_allocators_checked', tot.get('init', 0))
    rep.floor('C12.R7', 100, 'functions of the tables-file variants outside the loader')
    rep.floor('C12.R6', 85, 'yylex_init and yylex_init_extra in every reentrant-C variant, yylex_init in every c99 / go variant')
    rep.floor('C12.R5', 280, 'measured 316 (quick): 10-16 members x 2 constructors in each C++ variant')
    rep.require(ntab >= 2, 'fewer than 2 reentrant --tables-file variants analysed')
    rep.setcount('variants_analysed', len(iso) + len(extra))
    rep.setcount('global_definitions_examined', tot['glob'])
    rep.setcount('functions_examined', tot['fns'])
    rep.setcount('loads_and_stores_examined', tot['acc'])
    rep.setcount('external_function_references_examined', tot['ext'])
    rep.setcount('prefix_symbol_and_pair_checks', n4)
    rep.setcount('positive_control_reports', nctl)
    rep.floor('C12.R1', 2800, 'measured 3093: one per variant (globals) + one per function (writes) in 65 isolated variants of 41-56 functions')
    rep.floor('C12.R2', 2500, 'measured 2749: one per scanner function outside the exempt ones')
    rep.floor('C12.R3', 1000, 'measured 1161: 14-30 external functions referenced in each of 65 variants')
    rep.floor('C12.R4', 270, 'measured 306: 30-52 strong externals in each of 7 prefixed variants + pairwise disjointness')
    rep.undecided += ['token streams under real interleavings (no scanner is run)', 'thread safety of libc beyond the POSIX not-thread-safe list',
                      'user actions, user-supplied yyalloc/yyread and YY_USER_* hooks',
                      'go back end prefix handling (go-flex.skl documents that prefix does not rename symbols)']
    rep.assumptions += ['clang -O0 IR of the instantiated skeleton is a faithful rendering of the generated C/C++ source',
                        'stdin/stdout/stderr, std::cin/cout/cerr and errno are the only process-wide objects a scanner may touch; libc synchronises them',
                        'loading tables (yytables_fload/yytables_destroy) is a one-time step outside concurrent scanning, as documented',
                        'weak/linkonce definitions (inline members of FlexLexer.h) are identical in every scanner and merged by the linker']
    return rep.finish('other',
        'Whole-module inspection of the LLVM IR of %d instantiated reentrant-C, c99, go and C++ scanner variants: every global definition must be '
        'constant (tables-file: exactly yydmap and the pointers it names, used only by the loader); every store and libc memory write, and every '
        'load, is traced back (through locals, casts, member selection and loads) to its root object, which must be a parameter, a local, a '
        'constant, an allowed process-wide object or allocator memory; no reference to a POSIX not-thread-safe function; strong external '
        'definitions of prefixed scanners all carry the prefix and are pairwise disjoint.' % (len(iso) + len(extra)))
