"""C15 - serialized tables: the writer in flex and the loader in the generated scanner agree on the
documented file format.

Writer  : src/tables.c, tables_shared.c, gen.c, dfa.c, main.c as compiled into flex (ctx.flex).
Reader  : yytbl_read8/16/32, yytbl_hdr_read, yytbl_data_load, yytbl_fload, yytables_destroy and the
          yydmap initialiser of every tables-file / tables-verify variant that compiled to IR.
Document: doc/flex.texi, node "Tables File Format" (read from the repository when present; the
          built-in copy DOC_* below is the same text and is cross-checked against it).

R1  field-by-field agreement: ordered (width, field) sequence of the fixed header and table fields on the
    writer side, on the reader side and in the manual; the constant 14 (=4+4+4+2) on both sides; the data
    arms (bytes per element chosen from td_flags -> primitive of that width); pad-to-8 modulus on both
    sides; byte accounting of every primitive (total_written / bread advance by the bytes moved); the
    back-patch of th_ssize goes to the position at which th_ssize was written.
R2  byte order: every multi-byte primitive converts with a byte swap of its own width (htonl/htons,
    ntohl/ntohs, __bswap_NN, llvm.bswap.iNN - whatever the platform headers expand to).
R3  every table flex writes can be found by the loader: ids given to yytbl_data_init for tables that
    reach yytbl_data_fwrite are all present in some variant's yydmap, and for every variant the ids
    written under that variant's mode switches are in that variant's yydmap (and the other way round:
    every yydmap entry of the variant is written, otherwise the table pointer stays null).
R4  element sizes: dm_sz of every yydmap entry equals the size of the element type of the table it points
    to (for the struct table: the size of each member of struct yy_trans_info).
R5  documented constants: magic number written == magic number tested == 0xF13C57B1; enum yytbl_id and
    enum yytbl_flags as compiled into flex and into every variant equal the values in the manual; the
    td_flags -> bytes decoding is the same on both sides.
R8  the per-set byte counter (bread) is reset to 0 on every path to every yytbl_hdr_read call (first set and every
    further set of a concatenated file), with nothing read in between.
R6  release: yytables_destroy walks yydmap from its first entry to the terminator, frees *dm_arr of every
    entry and resets it.
"""
import os, re
import ir, flow, variants, common
from ir import Resolver, loc_class, field_of
from common import where, fwhere

SKEL = 'cpp-flex.skl'

# ---------------------------------------------------------------- the documented format (flex.texi)
DOC_MAGIC = 0xF13C57B1
DOC_HEADER = [('th_magic', 32), ('th_hsize', 32), ('th_ssize', 32), ('th_flags', 16)]       # then th_version[], th_name[], th_pad64[]
DOC_TABLE = [('td_id', 16), ('td_flags', 16), ('td_hilen', 32), ('td_lolen', 32)]           # then td_data[], td_pad64[]
DOC_PAD = 8                                                                                  # "padded to 64-bit boundaries"
DOC_IDS = {'YYTD_ID_ACCEPT': 1, 'YYTD_ID_BASE': 2, 'YYTD_ID_CHK': 3, 'YYTD_ID_DEF': 4, 'YYTD_ID_EC': 5, 'YYTD_ID_META': 6,
           'YYTD_ID_NUL_TRANS': 7, 'YYTD_ID_NXT': 8, 'YYTD_ID_RULE_CAN_MATCH_EOL': 9, 'YYTD_ID_START_STATE_LIST': 10,
           'YYTD_ID_TRANSITION': 11, 'YYTD_ID_ACCLIST': 12}
DOC_FLAGS = {'YYTD_DATA8': 1, 'YYTD_DATA16': 2, 'YYTD_DATA32': 4, 'YYTD_PTRANS': 8, 'YYTD_STRUCT': 16}
DOC_DATA_BYTES = {'YYTD_DATA8': 1, 'YYTD_DATA16': 2, 'YYTD_DATA32': 4}

def doc_from_texi():
    """the same tables parsed from doc/flex.texi (None when the manual is not in the tree)"""
    p = os.path.join(common.REPO, 'doc', 'flex.texi')
    if not os.path.exists(p): return None
    t = open(p, errors='replace').read()
    k = t.find('@section Tables File Format')
    if k < 0: return None
    t = t[k:]
    w = {'uint8': 8, 'uint16': 16, 'uint32': 32}
    hdr = [(m.group(2), w[m.group(1)]) for m in re.finditer(r'\|\s*(uint\d+)\s+(th_\w+);', t)]
    tbl = [(m.group(2), w[m.group(1)]) for m in re.finditer(r'\|\s*(uint\d+)\s+(td_\w+);', t)]
    ids = {m.group(1): int(m.group(2), 16) for m in re.finditer(r'@item (YYTD_ID_\w+)\s*\((0x[0-9A-Fa-f]+)\)', t)}
    fl = {m.group(1): int(m.group(2), 16) for m in re.finditer(r'@item (YYTD_(?:DATA\d+|PTRANS|STRUCT))\s*\((0x[0-9A-Fa-f]+)\)', t)}
    m = re.search(r'@item th_magic\s+Magic number, always (0x[0-9A-Fa-f]+)', t)
    return {'header': hdr, 'table': tbl, 'ids': ids, 'flags': fl, 'magic': int(m.group(1), 16) if m else None}

# ---------------------------------------------------------------- small IR helpers

def fail(rep, rule, key, where_, msg, **kw):
    """rep.fail, but an instance that fails under a key already reported (the same construct in another variant)
    still counts as an evaluated instance, so that a defect present in every variant cannot push a rule below
    its floor and turn a violation into exit 2"""
    if key in rep.vkeys:
        rep.obl.setdefault(rule, [0, 0])[0] += 1
        return
    rep.fail(rule, key, where_, msg, **kw)


def norm(name):
    return re.sub(r'^(foo|bar)(?=[a-z_])', 'yy', name) if isinstance(name, str) else name

def vfn(mod, base):
    """function of a variant by its yy-normalised name"""
    for n, f in mod.functions.items():
        if norm(n) == base: return f
    return None

def const_of(fn, v, depth=0):
    """integer constant a value evaluates to: through int casts and through a local that is stored exactly once"""
    if depth > 8 or not isinstance(v, tuple): return None
    if v[0] == 'int': return v[1]
    d = fn.def_of(v)
    if d is None: return None
    if d.op in ('sext', 'zext', 'trunc'): return const_of(fn, d.ops[0], depth + 1)
    if d.op == 'load':
        a = fn.def_of(d.ops[0])
        if a is not None and a.op == 'alloca':
            st = [x for x in fn.ins if x.op == 'store' and x.ops[1] == d.ops[0]]
            if len(st) == 1: return const_of(fn, st[0].ops[0], depth + 1)
    return None

def reaching_stores(fn, cfg, ld):
    """stores to the local loaded by `ld` that can be the last one before it"""
    sts = [x for x in fn.ins if x.op == 'store' and x.ops[1] == ld.ops[0]]
    return [x for x in sts if ld in cfg.reach(x, avoid=[y for y in sts if y is not x])]

def param_slot(fn, index):
    """alloca that receives parameter #index at function entry (clang -O0: %x.addr)"""
    if index >= len(fn.params): return None
    pn = fn.params[index][1]
    for x in fn.entry.ins:
        if x.op == 'store' and x.ops[0] == ('reg', pn):
            return x.ops[1]
    return None

def deep_slice(fn, v, seen=None, depth=0):
    """instructions that compute v, following the address operand of loads as well (flow.value_slice stops at
    loads); memory is not followed"""
    if seen is None: seen = {}
    if not isinstance(v, tuple) or depth > 60: return seen
    if v[0] in ('cgep', 'ccast'):
        for r in ir.regs_in(v): deep_slice(fn, ('reg', r), seen, depth + 1)
        return seen
    if v[0] != 'reg': return seen
    d = fn.def_of(v)
    if d is None or id(d) in seen: return seen
    seen[id(d)] = d
    if d.op == 'alloca': return seen
    for o in d.ops: deep_slice(fn, o, seen, depth + 1)
    return seen

def derives_from_slot(fn, v, slot):
    """value v is computed from a load of the local `slot` (directly, or as the address it is loaded through)"""
    return slot is not None and any(d.op == 'load' and d.ops[0] == slot for d in deep_slice(fn, v).values())

def field_in_slice(fn, res, v, structs):
    """first (struct, field) loaded while computing v, restricted to the named structs"""
    for d in flow.value_slice(fn, v):
        if d.op == 'load':
            f = field_of(res.loc(d.ops[0]))
            if f and f[0] in structs: return f
    return None

def field_addressed(fn, res, v, structs):
    f = field_of(res.loc(flow.strip_casts(fn, v)))
    return f if f and f[0] in structs else None

def unsigned(n, bits=32):
    return n & ((1 << bits) - 1)

def dom_sorted(cfg, calls):
    """calls sorted so that each dominates the following ones; None if they are not totally ordered"""
    out = sorted(calls, key=lambda c: -sum(1 for d in calls if cfg.ins_dominates(c, d)))
    for i, a in enumerate(out):
        for b in out[i + 1:]:
            if not cfg.ins_dominates(a, b): return None
    return out

def in_cycle(cfg, ins):
    return ins in cfg.reach(ins)

# ---------------------------------------------------------------- byte swaps (R2)

SWAP_WIDTH = {'htonl': 32, 'ntohl': 32, 'htons': 16, 'ntohs': 16,
              '__bswap_32': 32, '__bswap_16': 16, '__builtin_bswap32': 32, '__builtin_bswap16': 16,
              'llvm.bswap.i32': 32, 'llvm.bswap.i16': 16, '__uint32_identity': 0, '__uint16_identity': 0}

def swap_width(prog, ins, depth=0):
    """width (16/32) of the byte swap performed by call `ins` on its first argument, else None.  Looks through
    one or two levels of locally defined helpers (glibc's static inline __bswap_32, or an extracted helper)."""
    if ins is None or ins.op not in ('call', 'invoke') or not isinstance(ins.callee, str): return None
    w = SWAP_WIDTH.get(ins.callee)
    if w: return w
    if depth >= 2: return None
    g = prog.fn(ins.callee) if ins.callee not in SWAP_WIDTH else None
    if g is None:
        for m in prog.modules:
            if ins.callee in m.functions: g = m.functions[ins.callee]
    if g is None or not g.blocks or len(g.params) != 1: return None
    slot = param_slot(g, 0)
    ws = set()
    for r in g.ins:
        if r.op != 'ret' or not r.ops: continue
        found = None
        for d in flow.value_slice(g, r.ops[0]):
            w = swap_width(prog, d, depth + 1) if d.op in ('call', 'invoke') else None
            if w and (derives_from_slot(g, d.ops[0], slot) or d.ops[0] == ('reg', g.params[0][1])): found = w
        # a value returned through %retval
        ws.add(found)
    if len(ws) == 1 and None not in ws: return ws.pop()
    # -O0 returns through a retval slot only when there are several returns; single-expression helpers return directly
    return None

def swap_calls_in_slice(prog, fn, v):
    out = []
    for d in flow.value_slice(fn, v):
        if d.op in ('call', 'invoke'):
            w = swap_width(prog, d)
            if w: out.append((d, w))
    return out

# ---------------------------------------------------------------- primitives: width, accounting, byte order

class Prim:
    """one yytbl_write{8,16,32} / yytbl_read{8,16,32} / yytbl_writen function"""
    def __init__(s, fn, kind, width):
        s.fn = fn; s.kind = kind; s.width = width   # width in bits, None for writen

def io_bytes(fn, call):
    """constant number of bytes moved by an fread/fwrite call (size*nmemb), or None"""
    a = const_of(fn, call.ops[1]); b = const_of(fn, call.ops[2])
    return a * b if a is not None and b is not None else None

def counter_adds(fn, res, struct, field):
    """stores `S.field = S.field + X` in fn: list of (store, X value)"""
    out = []
    for x in fn.ins:
        if x.op != 'store': continue
        if field_of(res.loc(x.ops[1])) != (struct, field): continue
        d = fn.def_of(x.ops[0])
        if d is None or d.op != 'add': continue
        for me, other in ((d.ops[0], d.ops[1]), (d.ops[1], d.ops[0])):
            ld = fn.def_of(flow.int_origin(fn, me)) if me[0] == 'reg' else None
            if ld is not None and ld.op == 'load' and field_of(res.loc(ld.ops[0])) == (struct, field):
                out.append((x, other)); break
    return out

def check_primitive(rep, prog, fn, side, width, file, tag):
    """side 'w' (fwrite, total_written) or 'r' (fread, bread).  R1: bytes moved and bytes accounted equal width/8;
    R2: a byte swap of this width sits between the caller's value and the file."""
    res = Resolver(fn); cfg = prog.cfg(fn)
    io = 'fwrite' if side == 'w' else 'fread'
    base = norm(fn.name)
    key0 = '%s:%s' % (file, base)
    calls = fn.calls(io)
    if len(calls) != 1:
        rep.broken('%s: expected exactly one %s call in %s, found %d' % (tag, io, fn.name, len(calls)))
    c = calls[0]
    nb = io_bytes(fn, c)
    if nb is None:
        rep.broken('%s: %s size in %s is not a constant' % (tag, io, fn.name))
    if nb * 8 != width:
        fail(rep, 'C15.R1', 'C15.R1:%s:%s-size' % (key0, io), where(c), '%s moves %d byte(s) per call, its name and its callers promise %d [%s]' % (fn.name, nb, width // 8, tag))
    else:
        rep.ok('C15.R1', '%s %s: %s of %d byte(s)' % (tag, fn.name, io, nb))
    # accounting
    st, fld = ('yytbl_writer', 'total_written') if side == 'w' else ('yytbl_reader', 'bread')
    adds = [(x, const_of(fn, o)) for x, o in counter_adds(fn, res, st, fld) if x in cfg.reach(c)]
    if not adds:
        fail(rep, 'C15.R1', 'C15.R1:%s:%s' % (key0, fld), where(c), '%s does not advance %s after its %s; padding is computed from that counter [%s]' % (fn.name, fld, io, tag))
    elif any(k != nb for _, k in adds):
        x, k = [a for a in adds if a[1] != nb][0]
        fail(rep, 'C15.R1', 'C15.R1:%s:%s' % (key0, fld), where(x), '%s advances %s by %s but moves %d byte(s) [%s]' % (fn.name, fld, k, nb, tag))
    else:
        rep.ok('C15.R1', '%s %s: %s += %d after %s' % (tag, fn.name, fld, nb, io))
    if width == 8: return
    # byte order
    key = 'C15.R2:%s:swap' % key0
    if side == 'w':
        vslot = param_slot(fn, 1)
        buf = flow.strip_casts(fn, c.ops[0])
        bd = fn.def_of(buf)
        if bd is None or bd.op != 'alloca':
            rep.broken('%s: cannot identify the buffer handed to fwrite in %s' % (tag, fn.name))
        if buf == vslot:
            fail(rep, 'C15.R2', key, where(c), '%s writes its argument as it is in memory (host byte order); the format is network byte order [%s]' % (fn.name, tag)); return
        sts = [x for x in fn.ins if x.op == 'store' and x.ops[1] == buf]
        live = [x for x in sts if c in cfg.reach(x, avoid=[y for y in sts if y is not x])]
        if not live:
            rep.broken('%s: no store to the fwrite buffer reaches the fwrite in %s' % (tag, fn.name))
        for x in live:
            sw = [(d, w) for d, w in swap_calls_in_slice(prog, fn, x.ops[0]) if derives_from_slot(fn, d.ops[0], vslot)]
            if not sw:
                fail(rep, 'C15.R2', key, where(x), '%s stores its argument to the output buffer without htonl/htons (no byte swap of the value reaches fwrite) [%s]' % (fn.name, tag)); return
            if any(w != width for _, w in sw):
                fail(rep, 'C15.R2', key, where(sw[0][0]), '%s converts with a %d-bit byte swap (%s) but writes a %d-bit field [%s]' % (fn.name, sw[0][1], sw[0][0].callee, width, tag)); return
        rep.ok('C15.R2', '%s %s: value -> %s -> fwrite' % (tag, fn.name, sw[0][0].callee))
    else:
        vslot = param_slot(fn, 0)
        if not derives_from_slot(fn, c.ops[0], vslot):
            rep.broken('%s: fread in %s does not read into its first parameter' % (tag, fn.name))
        # stores through the parameter whose value is swap(load through the parameter)
        good = []; bad = None
        for x in fn.ins:
            if x.op != 'store' or x is None: continue
            if not (x.ops[1][0] == 'reg' and derives_from_slot(fn, x.ops[1], vslot)) or x.ops[1] == vslot: continue
            if x not in cfg.reach(c): continue
            sw = [(d, w) for d, w in swap_calls_in_slice(prog, fn, x.ops[0]) if derives_from_slot(fn, d.ops[0], vslot)]
            if sw and all(w == width for _, w in sw): good.append((x, sw[0][0]))
            elif sw: bad = (x, sw[0])
        if bad and not good:
            fail(rep, 'C15.R2', key, where(bad[0]), '%s converts with a %d-bit byte swap (%s) but reads a %d-bit field [%s]' % (fn.name, bad[1][1], bad[1][0].callee, width, tag)); return
        if not good:
            fail(rep, 'C15.R2', key, where(c), '%s hands the bytes read to its caller without ntohl/ntohs (no byte swap between fread and *v) [%s]' % (fn.name, tag)); return
        # the conversion is on every successful return path
        succ = [x for x in fn.ins if x.op == 'store' and x.ops[1] == ('reg', 'retval') and x.ops[0] == ('int', 0)] + \
               [x for x in fn.ins if x.op == 'ret' and x.ops and x.ops[0] == ('int', 0)]
        esc = cfg.reach(c, avoid=[g for g, _ in good])
        if any(x in esc for x in succ):
            fail(rep, 'C15.R2', key, where(c), '%s can return success without converting the value read (a path from fread to `return 0` avoids the byte swap) [%s]' % (fn.name, tag)); return
        rep.ok('C15.R2', '%s %s: fread -> %s -> *v' % (tag, fn.name, good[0][1].callee))

# ---------------------------------------------------------------- field chains

def prim_calls(fn, names):
    return [c for c in fn.ins if c.op in ('call', 'invoke') and isinstance(c.callee, str) and norm(c.callee) in names]

WPRIM = {'yytbl_write8': 8, 'yytbl_write16': 16, 'yytbl_write32': 32}
RPRIM = {'yytbl_read8': 8, 'yytbl_read16': 16, 'yytbl_read32': 32}

def compare_chain(rep, tag, file, fname, what, doc, got, anchor, peer=None):
    """got: list of (width, field, ins).  One instance per documented field: the width is the documented one, the field
    is the documented one (a field the manual does not know - a renamed member - is accepted when it is not another
    documented field and, on the reader side, is the member the writer emits at that position)."""
    docnames = {n for n, _ in doc}
    for i, (dname, dw) in enumerate(doc):
        key = 'C15.R1:%s:%s:field#%d' % (file, fname, i + 1)
        if i >= len(got):
            fail(rep, 'C15.R1', key, fwhere(anchor), '%s: %s field #%d (%s, %d bits in the manual) is not %s [%s]' % (fname, what, i + 1, dname, dw, 'written' if file.endswith('.c') else 'read', tag))
            continue
        w, f, ins = got[i]
        pf = peer[i][1] if peer is not None and i < len(peer) else None
        wrong_field = f != dname and (f is None or f in docnames or (pf is not None and pf != f))
        if w != dw or wrong_field:
            fail(rep, 'C15.R1', key, where(ins), '%s: %s field #%d is %s as %d bits; the manual has %s as %d bits%s [%s]' %
                 (fname, what, i + 1, f or '?', w, dname, dw, (', flex writes %s there' % pf) if pf is not None else '', tag))
        else:
            if f != dname: rep.note('%s: %s field #%d is called %s in the code, %s in the manual' % (fname, what, i + 1, f, dname))
            rep.ok('C15.R1', '%s %s field #%d %s: %d bits' % (tag, fname, i + 1, f, w))
    for j in range(len(doc), len(got)):
        w, f, ins = got[j]
        fail(rep, 'C15.R1', 'C15.R1:%s:%s:field#%d' % (file, fname, j + 1), where(ins), '%s: extra fixed %s field %s (%d bits) that the manual does not have [%s]' % (fname, what, f or '?', w, tag))

# ---------------------------------------------------------------- td_flags -> bytes decoding

def mask_of(fn, res, c, structs=('yytbl_data',)):
    """condition value `(X.td_flags & M) != 0` -> M"""
    d = fn.def_of(c)
    n = 0
    while d is not None and d.op in ('zext', 'sext', 'trunc') and n < 5:
        d = fn.def_of(d.ops[0]); n += 1
    if d is None or d.op != 'icmp' or d.pred != 'ne' or ('int', 0) not in d.ops: return None
    a = d.ops[0] if d.ops[1] == ('int', 0) else d.ops[1]
    ad = fn.def_of(a)
    if ad is None or ad.op != 'and': return None
    for x, y in ((ad.ops[0], ad.ops[1]), (ad.ops[1], ad.ops[0])):
        if y[0] == 'int' and field_in_slice(fn, res, x, structs) and field_in_slice(fn, res, x, structs)[1] == 'td_flags':
            return y[1]
    return None

def decode_bytes(fn, res, v, depth=0):
    """decision list [(mask|None, bytes)] for an expression of the YYTDFLAGS2BYTES shape"""
    if depth > 8: return None
    if v[0] == 'int': return [(None, v[1])]
    d = fn.def_of(v)
    if d is None: return None
    if d.op in ('zext', 'sext', 'trunc'): return decode_bytes(fn, res, d.ops[0], depth + 1)
    if d.op == 'select':
        m = mask_of(fn, res, d.ops[0])
        a = decode_bytes(fn, res, d.ops[1], depth + 1); b = decode_bytes(fn, res, d.ops[2], depth + 1)
        if m is None or a is None or b is None or len(a) != 1: return None
        return [(m, a[0][1])] + b
    if d.op == 'phi':
        first = []; rest = None
        for val, lab in zip(d.ops, d.cases):
            if val[0] == 'int':
                b = fn.bmap.get(lab)
                # the edge is taken when the branch that enters `lab` is true
                if b is None or len(b.pred) != 1: return None
                br = b.pred[0].ins[-1]
                if br.op != 'br' or not br.ops or br.targets[0] != lab: return None
                m = mask_of(fn, res, br.ops[0])
                if m is None: return None
                first.append((m, val[1]))
            else:
                r = decode_bytes(fn, res, val, depth + 1)
                if r is None or rest is not None: return None
                rest = r
        return first + (rest or [])
    return None

def data_switch(fn, res, cfg, prims):
    """the switch on bytes-per-element whose arms call the width primitives: (switch, decode list, {case: [calls]})"""
    best = None
    for sw in fn.ins:
        if sw.op != 'switch' or not sw.cases: continue
        arms = {}
        for k, lab in sw.cases:
            b = fn.bmap.get(lab)
            if b is None: continue
            cs = [c for c in prim_calls(fn, prims) if cfg.dominates(b, c.blk)]
            if cs: arms[k] = cs
        if arms and (best is None or len(arms) > len(best[2])):
            best = (sw, decode_bytes(fn, res, sw.ops[0]), arms)
    return best

def check_data_arms(rep, tag, file, fn, res, cfg, prims):
    base = norm(fn.name)
    ds = data_switch(fn, res, cfg, prims)
    if ds is None:
        rep.broken('%s: no switch over the element size with %s arms found in %s' % (tag, '/'.join(sorted(prims)), fn.name))
    sw, dec, arms = ds
    for k in (1, 2, 4):
        key = 'C15.R1:%s:%s:data-arm-%d' % (file, base, k)
        cs = arms.get(k)
        if not cs:
            fail(rep, 'C15.R1', key, where(sw), '%s: no %d-byte arm in the element-size switch [%s]' % (base, k, tag)); continue
        ws = {prims[norm(c.callee)] for c in cs}
        if ws != {8 * k}:
            fail(rep, 'C15.R1', key, where(cs[0]), '%s: the %d-byte arm moves %s bits per element (%s) [%s]' % (base, k, '/'.join(map(str, sorted(ws))), cs[0].callee, tag))
        else:
            rep.ok('C15.R1', '%s %s data arm %d byte(s): %s' % (tag, base, k, cs[0].callee))
    return sw, dec, arms

# ---------------------------------------------------------------- padding

def pad_info(prog, fn, struct, field, prims, depth=0):
    """(modulus, urem instruction, primitive calls controlled by the test) for `while (S.field % M > 0) prim8()` in fn
    or in a function it calls (depth 1)"""
    res = Resolver(fn); cfg = prog.cfg(fn, cut=False)
    for x in fn.ins:
        m = None
        if x.op in ('urem', 'srem') and x.ops[1][0] == 'int': m = x.ops[1][1]
        elif x.op == 'and' and x.ops[1][0] == 'int' and (x.ops[1][1] & (x.ops[1][1] + 1)) == 0 and x.ops[1][1] > 0: m = x.ops[1][1] + 1
        if m is None: continue
        if field_in_slice(fn, res, x.ops[0], (struct,)) != (struct, field): continue
        # the branch that uses it
        brs = [b.ins[-1] for b in fn.blocks if b.ins and b.ins[-1].op == 'br' and b.ins[-1].ops and x in flow.value_slice(fn, b.ins[-1].ops[0])]
        if not brs: continue
        ctl = []
        for c in prim_calls(fn, prims):
            if any(br is b for b, _ in cfg.control_deps_closure(c.blk) for br in brs): ctl.append(c)
        return (m, x, ctl, fn)
    if depth == 0:
        for c in fn.ins:
            if c.op == 'call' and isinstance(c.callee, str):
                g = prog.fn(c.callee)
                if g is not None and g.blocks and g is not fn and norm(g.name) not in prims:
                    r = pad_info(prog, g, struct, field, prims, 1)
                    if r: return r + (c,)
    return None

# ---------------------------------------------------------------- writer model

def writer_checks(ctx, doc):
    rep = ctx.rep; prog = ctx.flex
    F = {}
    for n in ('yytbl_write8', 'yytbl_write16', 'yytbl_write32', 'yytbl_writen', 'yytbl_hdr_fwrite', 'yytbl_data_fwrite', 'yytbl_hdr_init',
              'yytbl_data_init', 'yytbl_data_compress', 'yytbl_calc_total_len', 'make_tables', 'ntod'):
        f = prog.fn(n)
        if f is None or not f.blocks: rep.broken('writer anchor %s() not found in flex' % n)
        F[n] = f
    tag = 'flex'
    for n, w in WPRIM.items():
        check_primitive(rep, prog, F[n], 'w', w, 'tables.c', tag)
    # yytbl_writen: fwrite(v, 1, len) and total_written += len
    wn = F['yytbl_writen']; res = Resolver(wn); cfg = prog.cfg(wn)
    fw = wn.calls('fwrite')
    if len(fw) != 1: rep.broken('expected one fwrite in yytbl_writen')
    lslot = param_slot(wn, 2)
    unit = const_of(wn, fw[0].ops[1])
    if unit == 1 and derives_from_slot(wn, fw[0].ops[2], lslot): rep.ok('C15.R1', 'flex yytbl_writen: fwrite of len byte(s)')
    else: fail(rep, 'C15.R1', 'C15.R1:tables.c:yytbl_writen:fwrite-size', where(fw[0]), 'yytbl_writen does not write exactly `len` bytes (size %s)' % unit)
    adds = [(x, o) for x, o in counter_adds(wn, res, 'yytbl_writer', 'total_written') if x in cfg.reach(fw[0])]
    if adds and all(derives_from_slot(wn, o, lslot) for _, o in adds): rep.ok('C15.R1', 'flex yytbl_writen: total_written += len')
    else: fail(rep, 'C15.R1', 'C15.R1:tables.c:yytbl_writen:total_written', where(fw[0]), 'yytbl_writen does not advance total_written by `len`; padding is computed from that counter')

    W = {}
    # ---- header chain
    hf = F['yytbl_hdr_fwrite']; res = Resolver(hf); cfg = prog.cfg(hf)
    names = dict(WPRIM); names['yytbl_writen'] = None
    pi = pad_info(prog, hf, 'yytbl_writer', 'total_written', WPRIM)
    if pi is None: rep.broken('no pad-to-boundary loop on total_written reachable from yytbl_hdr_fwrite')
    calls = prim_calls(hf, names) + ([pi[4]] if len(pi) > 4 else [])
    chain = dom_sorted(cfg, calls)
    if chain is None: rep.broken('the write calls of yytbl_hdr_fwrite are not totally ordered by dominance')
    fixed = []; k = 0
    while k < len(chain) and norm(chain[k].callee) in WPRIM:
        c = chain[k]; f = field_in_slice(hf, res, c.ops[1], ('yytbl_hdr',))
        fixed.append((WPRIM[norm(c.callee)], f[1] if f else None, c)); k += 1
    compare_chain(rep, tag, 'tables.c', 'yytbl_hdr_fwrite', 'header', doc['header'], fixed, hf)
    tail = chain[k:]
    strs = [c for c in tail if norm(c.callee) == 'yytbl_writen']
    sf = [field_in_slice(hf, res, c.ops[1], ('yytbl_hdr',)) for c in strs]
    sn = [f[1] if f else None for f in sf]
    docn = {n for n, _ in doc['header']}
    strings_ok = sn == ['th_version', 'th_name'] or (len(sn) == 2 and None not in sn and sn[0] != sn[1] and not (set(sn) & (docn | {'th_version', 'th_name'})))
    if strings_ok and tail[len(strs):] == ([pi[4]] if len(pi) > 4 else []) and (len(pi) > 4 or pi[2]):
        rep.ok('C15.R1', 'flex yytbl_hdr_fwrite: then th_version[], th_name[], pad')
    else:
        fail(rep, 'C15.R1', 'C15.R1:tables.c:yytbl_hdr_fwrite:strings-pad', fwhere(hf), 'yytbl_hdr_fwrite: after the fixed fields the manual has th_version[], th_name[], th_pad64[]; found %s' %
                 [norm(c.callee) + ':' + str((field_in_slice(hf, res, c.ops[1], ('yytbl_hdr',)) or ('', ''))[1]) if c.ops[1:] else norm(c.callee) for c in tail])
    W['hdr_fixed_bytes'] = sum(w for w, _, _ in fixed) // 8
    W['hdr_fixed'] = fixed
    # ---- position of th_ssize (fgetpos before it, fsetpos + write32(total_written) at the end of every table)
    gp = [c for c in hf.calls('fgetpos') if field_addressed(hf, res, c.ops[1], ('yytbl_writer',)) == ('yytbl_writer', 'th_ssize_pos')]
    ss = [c for _, f, c in fixed if f == 'th_ssize']
    if gp and ss:
        between = [c for _, _, c in fixed if cfg.ins_dominates(gp[0], c)]
        if between and between[0] is ss[0] and all(cfg.ins_dominates(c, gp[0]) for _, _, c in fixed if c not in between):
            rep.ok('C15.R1', 'flex yytbl_hdr_fwrite: th_ssize_pos taken immediately before th_ssize is written')
        else:
            fail(rep, 'C15.R1', 'C15.R1:tables.c:yytbl_hdr_fwrite:th_ssize_pos', where(gp[0]), 'the position remembered in th_ssize_pos is not the position of th_ssize (first field written after fgetpos: %s)' % (between[0].callee if between else None))
    else:
        fail(rep, 'C15.R1', 'C15.R1:tables.c:yytbl_hdr_fwrite:th_ssize_pos', fwhere(hf), 'yytbl_hdr_fwrite does not remember the position of th_ssize (fgetpos into th_ssize_pos), so the set size can never be patched in')

    # ---- table chain
    df = F['yytbl_data_fwrite']; res = Resolver(df); cfg = prog.cfg(df)
    sw, dec, arms = check_data_arms(rep, tag, 'tables.c', df, res, cfg, WPRIM)
    armcalls = [c for cs in arms.values() for c in cs]
    allp = prim_calls(df, WPRIM)
    prefix = [c for c in allp if c not in armcalls and all(cfg.ins_dominates(c, a) for a in armcalls)]
    prefix = dom_sorted(cfg, prefix)
    if prefix is None: rep.broken('the fixed-field writes of yytbl_data_fwrite are not ordered by dominance')
    fixed = []
    for c in prefix:
        f = field_in_slice(df, res, c.ops[1], ('yytbl_data',))
        fixed.append((WPRIM[norm(c.callee)], f[1] if f else None, c))
    compare_chain(rep, tag, 'tables.c', 'yytbl_data_fwrite', 'table', doc['table'], fixed, df)
    W['tbl_fixed'] = fixed
    pi = pad_info(prog, df, 'yytbl_writer', 'total_written', WPRIM)
    if pi is None: rep.broken('no pad-to-boundary loop on total_written reachable from yytbl_data_fwrite')
    W['pad'] = pi
    padsite = pi[4] if len(pi) > 4 else (pi[2][0] if pi[2] else None)
    after = cfg.reach(padsite) if padsite is not None else set()
    if padsite is not None and all(cfg.ins_dominates(p, padsite) for p in prefix) and not any(a in after for a in armcalls) and any(padsite in cfg.reach(a) for a in armcalls):
        rep.ok('C15.R1', 'flex yytbl_data_fwrite: pad after the data loop')
    else:
        fail(rep, 'C15.R1', 'C15.R1:tables.c:yytbl_data_fwrite:pad-order', where(padsite) if padsite is not None else fwhere(df), 'yytbl_data_fwrite: the padding is not written after the element loop')
    # back-patch
    sp = [c for c in df.calls('fsetpos') if field_addressed(df, res, c.ops[1], ('yytbl_writer',)) == ('yytbl_writer', 'th_ssize_pos')]
    patch = [c for c in allp if c not in armcalls and c not in prefix and field_in_slice(df, res, c.ops[1], ('yytbl_writer',)) == ('yytbl_writer', 'total_written')]
    okp = sp and patch and WPRIM[norm(patch[0].callee)] == 32 and cfg.ins_dominates(sp[0], patch[0]) and padsite is not None and cfg.ins_dominates(padsite, patch[0])
    if okp: rep.ok('C15.R1', 'flex yytbl_data_fwrite: th_ssize patched with write32(total_written) at th_ssize_pos after the padding')
    else: fail(rep, 'C15.R1', 'C15.R1:tables.c:yytbl_data_fwrite:th_ssize-patch', fwhere(df), 'yytbl_data_fwrite does not patch th_ssize (32 bits, total_written, at th_ssize_pos, after the padding)')
    # the patch is not counted: total_written -= 4 afterwards
    if patch:
        subs = [(x, const_of(df, o)) for x, o in counter_adds(df, res, 'yytbl_writer', 'total_written') if x in cfg.reach(patch[0])]
        if len(subs) == 1 and subs[0][1] == -4: rep.ok('C15.R1', 'flex yytbl_data_fwrite: the 4 patched bytes are taken out of total_written again')
        else:
            # `x - 4` is `add x, -4` at -O0; accept a sub as well
            sub_ok = False
            for x in df.ins:
                if x.op == 'store' and field_of(res.loc(x.ops[1])) == ('yytbl_writer', 'total_written') and x in cfg.reach(patch[0]):
                    d = df.def_of(x.ops[0])
                    if d is not None and d.op == 'sub' and const_of(df, d.ops[1]) == 4: sub_ok = True
            if sub_ok: rep.ok('C15.R1', 'flex yytbl_data_fwrite: the 4 patched bytes are taken out of total_written again')
            else: fail(rep, 'C15.R1', 'C15.R1:tables.c:yytbl_data_fwrite:th_ssize-uncount', where(patch[0]), 'after patching th_ssize, total_written is not reduced by the 4 bytes of the patch: every later padding and th_ssize is off by 4')
    W['decode'] = dec
    W['tbl_fixed_bytes'] = sum(w for w, _, _ in fixed) // 8

    # ---- th_hsize computed by yytbl_hdr_init
    hi = F['yytbl_hdr_init']; res = Resolver(hi)
    hs = [x for x in hi.ins if x.op == 'store' and field_of(res.loc(x.ops[1])) == ('yytbl_hdr', 'th_hsize')]
    if not hs: rep.broken('yytbl_hdr_init does not store th_hsize')
    consts = 0; strl = 0; mods = set()
    seen = set()
    for x in hs:
        for d in flow.value_slice(hi, x.ops[0]):
            if id(d) in seen: continue
            seen.add(id(d))
            if d.op == 'add':
                for o in d.ops:
                    if o[0] == 'int': consts += o[1]
            if d.op == 'call' and d.callee == 'strlen': strl += 1
            if d.op in ('urem', 'srem') and d.ops[1][0] == 'int': mods.add(d.ops[1][1])
    W['hsize_fixed'] = consts - strl
    W['hsize_mods'] = mods
    key = 'C15.R1:tables.c:yytbl_hdr_init:fixed-size'
    if strl != 2: rep.broken('yytbl_hdr_init: expected two strlen() terms in th_hsize, found %d' % strl)
    if W['hsize_fixed'] != W['hdr_fixed_bytes']:
        fail(rep, 'C15.R1', key, where(hs[0]), 'yytbl_hdr_init counts %d bytes of fixed header fields in th_hsize, yytbl_hdr_fwrite writes %d' % (W['hsize_fixed'], W['hdr_fixed_bytes']))
    else:
        rep.ok('C15.R1', 'flex yytbl_hdr_init: th_hsize = %d + strings, fixed fields written = %d bytes' % (W['hsize_fixed'], W['hdr_fixed_bytes']))
    key = 'C15.R1:tables.c:yytbl_hdr_init:pad-modulus'
    if mods != {doc_pad(doc)}:
        fail(rep, 'C15.R1', key, where(hs[-1]), 'yytbl_hdr_init rounds th_hsize with modulus %s; the format pads to %d bytes' % (sorted(mods), doc_pad(doc)))
    else:
        rep.ok('C15.R1', 'flex yytbl_hdr_init: th_hsize rounded up to a multiple of %d' % doc_pad(doc))
    key = 'C15.R1:tables.c:yytbl_write_pad64:modulus'
    if pi[0] != doc_pad(doc) or not pi[2] or {WPRIM[norm(c.callee)] for c in pi[2]} != {8}:
        fail(rep, 'C15.R1', key, where(pi[1]), 'the writer pads to a multiple of %d with %s; the format pads to %d bytes with single NUL bytes' % (pi[0], [c.callee for c in pi[2]], doc_pad(doc)))
    else:
        rep.ok('C15.R1', 'flex %s: while (total_written %% %d) write8(0)' % (pi[3].name, pi[0]))

    # ---- magic
    ms = [x for x in hi.ins if x.op == 'store' and field_of(res.loc(x.ops[1])) == ('yytbl_hdr', 'th_magic') and x.ops[0][0] == 'int']
    if not ms: rep.broken('yytbl_hdr_init does not store a constant th_magic')
    W['magic'] = unsigned(ms[-1].ops[0][1])
    if W['magic'] != doc['magic']:
        fail(rep, 'C15.R5', 'C15.R5:tables.c:yytbl_hdr_init:magic', where(ms[-1]), 'flex writes magic number 0x%08X; the manual says 0x%08X' % (W['magic'], doc['magic']))
    else:
        rep.ok('C15.R5', 'flex yytbl_hdr_init: th_magic = 0x%08X' % W['magic'])
    # ---- name of the table set: snprintf(name, n, "%s<suffix>", ctrl.prefix) handed to yytbl_hdr_init
    W['name_suffix'] = None
    for hc in prog.callers('yytbl_hdr_init'):
        f = hc.fn; r2 = Resolver(f)
        nl = f.def_of(flow.strip_casts(f, hc.ops[2]))
        nloc = r2.loc(nl.ops[0]) if nl is not None and nl.op == 'load' else None
        for sc in f.ins:
            if sc.op != 'call' or sc.callee not in ('snprintf', 'sprintf', '__snprintf_chk'): continue
            dl_ = f.def_of(flow.strip_casts(f, sc.ops[0]))
            if dl_ is None or dl_.op != 'load' or r2.loc(dl_.ops[0]) != nloc: continue
            fmts = [flow.const_arg(f, a) for a in sc.ops[1:]]
            fmts = [x for x in fmts if isinstance(x, str) and '%s' in x]
            pf = [a for a in sc.ops if field_in_slice(f, r2, a, ('ctrl_bundle_t',)) == ('ctrl_bundle_t', 'prefix')]
            if len(fmts) == 1 and fmts[0].startswith('%s') and fmts[0].count('%') == 1 and pf:
                W['name_suffix'] = fmts[0][2:]; W['name_site'] = sc
    if W['name_suffix'] is None: rep.broken('cannot find how flex names the table set (snprintf("%s...", ctrl.prefix) handed to yytbl_hdr_init)')
    W['F'] = F
    return W

def doc_pad(doc):
    return DOC_PAD

# ---------------------------------------------------------------- reader model (per variant)

def reader_checks(ctx, v, W, doc):
    rep = ctx.rep
    mod = variants.module(v); prog = variants.program(v)
    tag = v.name
    R = {}
    F = {}
    for n in ('yytbl_read8', 'yytbl_read16', 'yytbl_read32', 'yytbl_hdr_read', 'yytbl_data_load', 'yytbl_fload', 'yytables_fload',
              'yytables_destroy', 'yytbl_dmap_lookup', 'yytbl_calc_total_len'):
        f = vfn(mod, n)
        if f is None: rep.broken('loader anchor %s() not found in variant %s' % (n, v.name))
        F[n] = f
    for n, w in RPRIM.items():
        check_primitive(rep, prog, F[n], 'r', w, SKEL, tag)
    # ---- header
    hr = F['yytbl_hdr_read']; res = Resolver(hr); cfg = prog.cfg(hr)
    fr = hr.calls('fread')
    if len(fr) != 1: rep.broken('expected one fread in yytbl_hdr_read [%s]' % tag)
    calls = prim_calls(hr, RPRIM)
    chain = dom_sorted(cfg, calls + fr)
    if chain is None: rep.broken('the read calls of yytbl_hdr_read are not totally ordered by dominance [%s]' % tag)
    fixed = []
    k = 0
    while k < len(chain) and chain[k] is not fr[0]:
        c = chain[k]; f = field_addressed(hr, res, c.ops[0], ('yytbl_hdr',))
        fixed.append((RPRIM[norm(c.callee)], f[1] if f else None, c)); k += 1
    extra = chain[k + 1:]
    compare_chain(rep, tag, SKEL, 'yytbl_hdr_read', 'header', doc['header'], fixed, hr, W['hdr_fixed'])
    if extra:
        fail(rep, 'C15.R1', 'C15.R1:%s:yytbl_hdr_read:after-strings' % SKEL, where(extra[0]), 'yytbl_hdr_read reads further fields after the strings/padding block; the writer emits none [%s]' % tag)
    fixed_bytes = sum(w for w, _, _ in fixed) // 8
    # the rest of the header: th_hsize - K bytes
    nb = None
    unit = const_of(hr, fr[0].ops[1]); cnt = fr[0].ops[2]
    if unit != 1: unit, cnt = const_of(hr, fr[0].ops[2]), fr[0].ops[1]
    K = None; from_hsize = False
    # follow the count through locals (only the stores that reach the use)
    work = [cnt]; seen = set(); steps = 0; Ks = set()
    while work and steps < 50:
        steps += 1
        x = work.pop()
        for d in flow.value_slice(hr, x):
            if id(d) in seen: continue
            seen.add(id(d))
            if d.op == 'sub' and d.ops[1][0] == 'int': Ks.add(d.ops[1][1])
            if d.op == 'add' and d.ops[1][0] == 'int': Ks.add(-d.ops[1][1])
            if d.op == 'load':
                if field_of(res.loc(d.ops[0])) == ('yytbl_hdr', 'th_hsize'): from_hsize = True
                a = hr.def_of(d.ops[0])
                if a is not None and a.op == 'alloca':
                    for s_ in reaching_stores(hr, cfg, d): work.append(s_.ops[0])
    if len(Ks) == 1: K = Ks.pop()
    key = 'C15.R1:%s:yytbl_hdr_read:fixed-size' % SKEL
    if unit != 1 or not from_hsize or K is None:
        rep.broken('cannot recognise `fread(.., 1, th_hsize - K, ..)` in yytbl_hdr_read [%s]' % tag)
    if K != fixed_bytes or K != W['hsize_fixed']:
        fail(rep, 'C15.R1', key, where(fr[0]), 'yytbl_hdr_read consumes th_hsize - %d bytes after reading %d bytes of fixed fields; flex counts %d fixed bytes in th_hsize and writes %d [%s]' %
                 (K, fixed_bytes, W['hsize_fixed'], W['hdr_fixed_bytes'], tag))
    else:
        rep.ok('C15.R1', '%s yytbl_hdr_read: fread of th_hsize - %d after %d bytes of fixed fields (writer: %d)' % (tag, K, fixed_bytes, W['hsize_fixed']))
    adds = [(x, o) for x, o in counter_adds(hr, res, 'yytbl_reader', 'bread') if x in cfg.reach(fr[0])]
    if adds and all(any(d.op == 'load' and d.ops[0] in [w_.ops[0] for w_ in flow.value_slice(hr, cnt) if w_.op == 'load'] for d in flow.value_slice(hr, o)) or o == cnt for _, o in adds):
        rep.ok('C15.R1', '%s yytbl_hdr_read: bread += bytes consumed by the strings block' % tag)
    else:
        fail(rep, 'C15.R1', 'C15.R1:%s:yytbl_hdr_read:bread' % SKEL, where(fr[0]), 'yytbl_hdr_read does not advance bread by the size of the strings/padding block; table padding is computed from bread [%s]' % tag)
    # ---- magic
    mg = None
    for x in hr.ins:
        if x.op == 'icmp' and x.pred in ('eq', 'ne'):
            for a, b in ((x.ops[0], x.ops[1]), (x.ops[1], x.ops[0])):
                if b[0] == 'int' and field_in_slice(hr, res, a, ('yytbl_hdr',)) == ('yytbl_hdr', 'th_magic'):
                    mg = (x, unsigned(b[1]))
    if mg is None:
        fail(rep, 'C15.R5', 'C15.R5:%s:yytbl_hdr_read:magic' % SKEL, fwhere(hr), 'yytbl_hdr_read does not compare th_magic with a constant [%s]' % tag)
    elif mg[1] != W['magic'] or mg[1] != doc['magic']:
        fail(rep, 'C15.R5', 'C15.R5:%s:yytbl_hdr_read:magic' % SKEL, where(mg[0]), 'the loader expects magic number 0x%08X, flex writes 0x%08X, the manual says 0x%08X [%s]' % (mg[1], W['magic'], doc['magic'], tag))
    else:
        rep.ok('C15.R5', '%s yytbl_hdr_read: th_magic tested against 0x%08X' % (tag, mg[1]))

    # ---- table
    dl = F['yytbl_data_load']; res = Resolver(dl); cfg = prog.cfg(dl)
    sw, dec, arms = check_data_arms(rep, tag, SKEL, dl, res, cfg, RPRIM)
    armcalls = [c for cs in arms.values() for c in cs]
    allp = prim_calls(dl, RPRIM)
    prefix = [c for c in allp if c not in armcalls and all(cfg.ins_dominates(c, a) for a in armcalls)]
    prefix = dom_sorted(cfg, prefix)
    if prefix is None: rep.broken('the fixed-field reads of yytbl_data_load are not ordered by dominance [%s]' % tag)
    fixed = []
    for c in prefix:
        f = field_addressed(dl, res, c.ops[0], ('yytbl_data',))
        fixed.append((RPRIM[norm(c.callee)], f[1] if f else None, c))
    compare_chain(rep, tag, SKEL, 'yytbl_data_load', 'table', doc['table'], fixed, dl, W['tbl_fixed'])
    pi = pad_info(prog, dl, 'yytbl_reader', 'bread', RPRIM)
    key = 'C15.R1:%s:yytbl_data_load:pad-modulus' % SKEL
    if pi is None:
        fail(rep, 'C15.R1', key, fwhere(dl), 'yytbl_data_load has no loop that consumes padding up to a boundary of bread [%s]' % tag)
    else:
        padcalls = [c for c in pi[2] if c not in armcalls]
        if pi[0] != W['pad'][0] or pi[0] != doc_pad(doc) or not padcalls or {RPRIM[norm(c.callee)] for c in padcalls} != {8}:
            fail(rep, 'C15.R1', key, where(pi[1]), 'the loader skips padding up to a multiple of %d with %s; flex pads to a multiple of %d, the manual to %d bytes [%s]' %
                     (pi[0], [c.callee for c in padcalls], W['pad'][0], doc_pad(doc), tag))
        else:
            rep.ok('C15.R1', '%s yytbl_data_load: while (bread %% %d) read8' % (tag, pi[0]))
        if padcalls:
            # the padding loop may sit in a helper the loader calls: its position in the loader is the call site of the helper
            anchor = pi[4] if len(pi) > 4 else padcalls[0]
            after = cfg.reach(anchor)
            if all(cfg.ins_dominates(p, anchor) for p in prefix) and not any(a in after for a in armcalls) and any(anchor in cfg.reach(a) for a in armcalls):
                rep.ok('C15.R1', '%s yytbl_data_load: padding consumed after the element loop' % tag)
            else:
                fail(rep, 'C15.R1', 'C15.R1:%s:yytbl_data_load:pad-order' % SKEL, where(anchor), 'yytbl_data_load does not consume the padding after the element loop [%s]' % tag)
    # ---- td_flags decoding agrees
    key = 'C15.R5:%s:yytbl_data_load:flags-decode' % SKEL
    if dec is None or W['decode'] is None:
        rep.broken('cannot decode the td_flags -> element size expression (%s) [%s]' % ('loader' if dec is None else 'flex', tag))
    want = [(doc['flags']['YYTD_DATA8'], 1), (doc['flags']['YYTD_DATA16'], 2), (None, 4)]
    if dec != W['decode']:
        fail(rep, 'C15.R5', key, where(sw), 'element size from td_flags: loader %s, flex %s [%s]' % (dec, W['decode'], tag))
    elif sorted(dec, key=str) != sorted(want, key=str):
        fail(rep, 'C15.R5', key, where(sw), 'element size from td_flags is %s on both sides; the manual says YYTD_DATA8 -> 1, YYTD_DATA16 -> 2, otherwise (YYTD_DATA32) 4 [%s]' % (dec, tag))
    else:
        rep.ok('C15.R5', '%s td_flags -> bytes %s on both sides' % (tag, dec))
    # ---- the loader is driven by yydmap from its first entry
    fl = F['yytbl_fload']
    dcalls = [c for c in fl.ins if c.op == 'call' and norm(c.callee) == 'yytbl_data_load']
    key = 'C15.R3:%s:yytbl_fload:yydmap' % SKEL
    if not dcalls: rep.broken('yytbl_fload does not call yytbl_data_load [%s]' % tag)
    a0 = dcalls[0].ops[0]
    if first_elem_of(a0, 'yydmap'): rep.ok('C15.R3', '%s yytbl_fload: yytbl_data_load(yydmap, ...)' % tag)
    else: fail(rep, 'C15.R3', key, where(dcalls[0]), 'yytbl_fload does not pass the first entry of yydmap to yytbl_data_load [%s]' % tag)
    # ---- R8: the per-set byte counter starts at 0 for every header that is read
    r8_counter_reset(rep, prog, fl, tag)
    # ---- the name the loader looks for is the name flex gives the set
    tf = F['yytables_fload']
    kc = [c for c in tf.ins if c.op == 'call' and norm(c.callee) == 'yytbl_fload']
    if not kc: rep.broken('yytables_fload does not call yytbl_fload [%s]' % tag)
    keystr = flow.const_arg(tf, kc[0].ops[1])
    m = re.search(r'^/\* M4_MODE_PREFIX = (\S+) \*/$', open(v.src, errors='replace').read(), re.M)
    if m is None: rep.broken('variant %s does not list M4_MODE_PREFIX' % tag)
    want = m.group(1) + W['name_suffix']
    key = 'C15.R3:%s:yytables_fload:set-name' % SKEL
    if keystr == want: rep.ok('C15.R3', '%s yytables_fload looks for set "%s", flex names it "%%s%s" %% prefix' % (tag, keystr, W['name_suffix']))
    else: fail(rep, 'C15.R3', key, where(kc[0]), 'yytables_fload looks for the table set "%s"; flex (prefix %s) names it "%s" (%s): the set is never found [%s]' % (keystr, m.group(1), want, where(W['name_site']), tag))
    res = Resolver(fl); plain = prog.cfg(fl, cut=False)
    BR = ('field', 'yytbl_reader', 'bread'); SS = ('field', 'yytbl_hdr', 'th_ssize'); HS = ('field', 'yytbl_hdr', 'th_hsize')
    guard = None
    for br, succ in plain.control_deps_closure(dcalls[0].blk):
        d = fl.def_of(br.ops[0]) if br.op == 'br' and br.ops else None
        if d is None or d.op != 'icmp': continue
        l0 = linear(fl, res, d.ops[0]); l1 = linear(fl, res, d.ops[1])
        if l0 is None or l1 is None: continue
        if BR in l0 or BR in l1: guard = (br, succ, d, l0, l1)
    key = 'C15.R1:%s:yytbl_fload:set-size' % SKEL
    if guard is None:
        fail(rep, 'C15.R1', key, where(dcalls[0]), 'yytbl_fload does not bound the loading of tables by bread against th_ssize [%s]' % tag)
    else:
        br, succ, d, l0, l1 = guard
        taken = succ.name == br.targets[0]
        lt = (l0 == {BR: 1} and l1 == {SS: 1} and ((d.pred in ('ult', 'slt')) == taken) and d.pred in ('ult', 'slt', 'uge', 'sge')) or \
             (l1 == {BR: 1} and l0 == {SS: 1} and ((d.pred in ('ugt', 'sgt')) == taken) and d.pred in ('ugt', 'sgt', 'ule', 'sle'))
        if lt: rep.ok('C15.R1', '%s yytbl_fload: tables are loaded while bread < th_ssize' % tag)
        else: fail(rep, 'C15.R1', key, where(d), 'yytbl_fload loads tables while `%s %s %s`; the writer stores the size of the whole set (header included) in th_ssize and the reader counts bread from the start of the header [%s]' % (lin_str(l0), d.pred, lin_str(l1), tag))
    fs = fl.calls('fseek')
    key = 'C15.R1:%s:yytbl_fload:skip' % SKEL
    if not fs:
        fail(rep, 'C15.R1', key, fwhere(fl), 'yytbl_fload cannot skip a table set with another name (no fseek) [%s]' % tag)
    else:
        lf = linear(fl, res, fs[0].ops[1]); wh = const_of(fl, fs[0].ops[2])
        if lf == {SS: 1, HS: -1} and wh == 1: rep.ok('C15.R1', '%s yytbl_fload: a set with another name is skipped by th_ssize - th_hsize from the end of its header' % tag)
        else: fail(rep, 'C15.R1', key, where(fs[0]), 'yytbl_fload skips a foreign table set by `%s` (whence %s) after consuming th_hsize bytes of header; the next set starts th_ssize bytes after the start of this one [%s]' % (lin_str(lf) if lf else '?', wh, tag))
    R['F'] = F
    return R

READ_CALLS = ('yytbl_read8', 'yytbl_read16', 'yytbl_read32', 'yytbl_hdr_read', 'yytbl_data_load', 'fread')

def r9_sign(ctx, v):
    """R9: narrow table elements are widened with their sign.  The writer truncates signed 32-bit table values to the
    on-disk width (full and fast tables hold negative entries); in yytbl_data_load every value read through
    yytbl_read8 / yytbl_read16 into a temporary and then widened must be sign-extended (sext), never zero-extended:
    a zero-extended -1 arrives as 65535 in a 32-bit in-memory table (-Ca) and the scanner indexes outside it."""
    rep = ctx.rep
    mod = variants.module(v)
    f = vfn(mod, 'yytbl_data_load')
    if f is None: return 0
    res = Resolver(f); n = 0
    for c in f.ins:
        if c.op != 'call' or norm(c.callee or '') not in ('yytbl_read8', 'yytbl_read16'): continue
        tmp = res.loc(c.ops[0])
        if tmp[0] != 'local': continue
        width = 8 if norm(c.callee).endswith('8') else 16
        # widenings of loads of the temporary
        for x in f.ins:
            if x.op not in ('sext', 'zext'): continue
            d = f.def_of(x.ops[0])
            if d is None or d.op != 'load' or res.loc(d.ops[0]) != tmp: continue
            n += 1
            key = 'C15.R9:%s:yytbl_data_load:widen%d' % (SKEL, width)
            if x.op == 'sext':
                rep.ok('C15.R9', '%s yytbl_data_load: the %d-bit temporary %s is sign-extended@%s' % (v.name, width, tmp[1], x.line))
            else:
                fail(rep, 'C15.R9', key, where(x), 'yytbl_data_load widens the %d-bit value read by %s with zero extension (the temporary %s is unsigned): negative table entries, '
                     'which full and fast tables contain, arrive as large positive numbers in a 32-bit in-memory table [variant %s]' % (width, c.callee, tmp[1], v.name), variant=v.describe())
    return n

def r8_counter_reset(rep, prog, fn, tag):
    """bread counts the bytes of the current table set (the load loop compares it with th_ssize, padding is computed
    from it): every yytbl_hdr_read call - the first one and each later one in the search for the wanted set - must
    be reached only through a reset of bread to 0 with nothing read in between."""
    res = Resolver(fn); cfg = prog.cfg(fn)
    base = norm(fn.name)
    Z = []
    for x in fn.ins:
        if x.op == 'store' and x.ops[0] == ('int', 0) and field_of(res.loc(x.ops[1])) == ('yytbl_reader', 'bread'): Z.append(x)
        elif x.op == 'call' and isinstance(x.callee, str) and x.callee.startswith('llvm.memset') and x.ops[1] == ('int', 0):
            l = res.loc(flow.strip_casts(fn, x.ops[0]))
            a = fn.def_of(('reg', l[1])) if l[0] == 'local' else None
            if a is not None and a.ty is not None and a.ty.k == 'named' and ir.short_struct(a.ty.a) == 'yytbl_reader': Z.append(x)
    H = [c for c in fn.ins if c.op in ('call', 'invoke') and norm(c.callee) == 'yytbl_hdr_read']
    if not H: rep.broken('%s does not call yytbl_hdr_read [%s]' % (fn.name, tag))
    reads = [c for c in fn.ins if c.op in ('call', 'invoke') and norm(c.callee) in READ_CALLS]
    first = fn.entry.ins[0]
    for n, h in enumerate(H):
        key = 'C15.R8:%s:%s:bread-reset%s' % (SKEL, base, '' if len(H) == 1 else '#%d' % n)
        if first is h or h in cfg.reach(first, avoid=Z, include_start=True):
            wit = cfg.path(first, lambda x: x is h, avoid=Z, include_start=True)
            fail(rep, 'C15.R8', key, where(h), '%s reads a set header without having set rd->bread to 0 on a path from the function entry: the byte count of the set starts from garbage [%s]' % (base, tag),
                 witness=['%s:%s' % (x.blk.name, x.line) for x in wit] if wit else None); continue
        again = [g for g in H if h in cfg.reach(g, avoid=Z)]
        if again:
            wit = cfg.path(again[0], lambda x: x is h, avoid=Z)
            fail(rep, 'C15.R8', key, where(h), '%s reads the header of a further table set without resetting rd->bread (path from the previous yytbl_hdr_read at line %s avoids every `bread = 0`): '
                 'the byte count of the selected set then includes the skipped sets, `while (bread < th_ssize)` stops early and the last tables stay unloaded while yytables_fload returns 0 [%s]' % (base, again[0].line, tag),
                 witness=['%s:%s' % (x.blk.name, x.line) for x in wit] if wit else None,
                 replay_input='cat other.tables wanted.tables > all.tables (wanted set not first); yytables_fload(all.tables) returns 0 with the last table pointer NULL'); continue
        dirty = None
        for z in Z:
            mid = cfg.reach(z, avoid=[y for y in Z if y is not z] + [h])
            for r in reads:
                if r is not h and r in mid and h in cfg.reach(r, avoid=Z): dirty = (z, r)
        if dirty:
            fail(rep, 'C15.R8', key, where(dirty[1]), '%s: %s consumes bytes between the reset of rd->bread (line %s) and yytbl_hdr_read [%s]' % (base, dirty[1].callee, dirty[0].line, tag)); continue
        rep.ok('C15.R8', '%s %s: yytbl_hdr_read@%s reached only through bread = 0 (%s)' % (tag, base, h.line, ','.join(str(z.line) for z in Z)))

def first_elem_of(v, gname):
    if v == ('glob', gname): return True
    if v[0] == 'ccast': return first_elem_of(v[2], gname)
    if v[0] == 'cgep' and v[2] == ('glob', gname) and all(i == ('int', 0) for i in v[3]): return True
    return False

# ---------------------------------------------------------------- enumerators (R5)

def enumerators(mod):
    out = {}
    for t in mod.meta.values():
        if t.startswith('!DIEnumerator('):
            m = re.search(r'name: "(YYTD_\w+)", value: (-?\d+)', t)
            if m: out[m.group(1)] = int(m.group(2))
    return out

def check_enums(rep, tag, file, en, doc):
    for group, table in (('yytbl_id', doc['ids']), ('yytbl_flags', doc['flags'])):
        for name, val in sorted(table.items()):
            key = 'C15.R5:%s:%s:%s' % (file, group, name)
            if name not in en:
                fail(rep, 'C15.R5', key, file, 'enum %s as compiled has no %s; the manual defines it as 0x%02X [%s]' % (group, name, val, tag))
            elif en[name] != val:
                fail(rep, 'C15.R5', key, file, '%s is 0x%02X as compiled; the manual (and files written by other versions) use 0x%02X [%s]' % (name, en[name], val, tag))
            else:
                rep.ok('C15.R5', '%s %s = 0x%02X' % (tag, name, val))
    for name in sorted(set(en) - set(doc['ids']) - set(doc['flags'])):
        fail(rep, 'C15.R5', 'C15.R5:%s:enum:%s' % (file, name), file, 'table constant %s = %d exists in the code but not in the manual\'s file format [%s]' % (name, en[name], tag))

# ---------------------------------------------------------------- R3: which tables are written, under which conditions

ROOTS = ('flex_main', 'main')

def decode_bool(fn, res, v, depth=0):
    """truth value `v` -> (atom, polarity); atom = ('nz', locclass) or ('eq', locclass, k)"""
    if depth > 8: return None
    d = fn.def_of(v)
    if d is None: return None
    if d.op == 'xor' and (('int', 1) in d.ops or ('int', -1) in d.ops):
        o = d.ops[0] if d.ops[1][0] == 'int' else d.ops[1]
        r = decode_bool(fn, res, o, depth + 1)
        return (r[0], not r[1]) if r else None
    if d.op in ('trunc', 'zext', 'sext'): return decode_bool(fn, res, d.ops[0], depth + 1)
    if d.op == 'icmp' and d.pred in ('eq', 'ne'):
        a, b = d.ops
        if a[0] in ('int', 'null'): a, b = b, a
        if b == ('null',) or b == ('int', 0):
            r = decode_bool(fn, res, a, depth + 1)
            return (r[0], r[1] if d.pred == 'ne' else not r[1]) if r else None
        if b[0] == 'int':
            ld = fn.def_of(flow.int_origin(fn, a))
            if ld is not None and ld.op == 'load':
                return (('eq', loc_class(res.loc(ld.ops[0])), b[1]), d.pred == 'eq')
        return None
    if d.op == 'load':
        return (('nz', loc_class(res.loc(d.ops[0]))), True)
    return None

class FlexConds:
    def __init__(s, prog):
        s.prog = prog; s._callers = None; s._memo = {}
    def callers(s, name):
        if s._callers is None:
            s._callers = {}
            for f in set(s.prog.functions.values()):
                for i in f.ins:
                    if i.op in ('call', 'invoke') and isinstance(i.callee, str): s._callers.setdefault(i.callee, []).append(i)
        return s._callers.get(name, [])
    def local(s, ins):
        """(literals, complete): decoded branch conditions inside its function under which `ins` executes"""
        fn = ins.fn
        k = (id(fn), ins.blk.name)
        if k in s._memo: return s._memo[k]
        cfg = s.prog.cfg(fn, cut=False); res = Resolver(fn)
        lits = []; ok = True
        for br, succ in cfg.control_deps_closure(ins.blk):
            if br.op != 'br' or not br.ops or len(br.targets) != 2: ok = False; continue
            r = decode_bool(fn, res, br.ops[0])
            if r is None: ok = False; continue
            atom, pol = r
            if succ.name != br.targets[0]: pol = not pol
            if atom[1] and atom[1][0] in ('local', 'param'):
                if fn.name in ROOTS: continue
                ok = False; continue
            if (atom, pol) not in lits: lits.append((atom, pol))
        s._memo[k] = (lits, ok)
        return lits, ok
    def chain(s, fn, depth=0):
        """conditions under which fn is called at all (followed while there is a single call site)"""
        if fn.name in ROOTS or depth >= 6: return [], True
        cs = s.callers(fn.name)
        if not cs: return [], True
        if len(cs) > 1: return [], False
        return s.of(cs[0], depth + 1)
    def of(s, ins, depth=0):
        """(literals, complete) - the conjunction of decoded branch conditions under which `ins` executes"""
        l1, ok1 = s.local(ins)
        l2, ok2 = s.chain(ins.fn, depth)
        return l1 + [l for l in l2 if l not in l1], ok1 and ok2

def atom_str(a):
    c = a[1]
    n = c[1] if c[0] == 'global' else ('%s.%s' % (c[1], c[2]) if c[0] == 'field' else str(c))
    return n if a[0] == 'nz' else '%s==%s' % (n, a[2])

def lit_str(l):
    return ('' if l[1] else '!') + atom_str(l[0])

def symbol_map(prog, fc):
    """m4 symbols whose definition is controlled by exactly one decoded condition: atom -> (pos syms, neg syms)"""
    out = {}
    n = 0
    for callee in ('visible_define', 'visible_define_str', 'visible_define_int', 'out_m4_define'):
        for c in fc.callers(callee):
            if c.fn.name in ('visible_define', 'visible_define_str', 'visible_define_int'): continue
            sym = flow.const_arg(c.fn, c.ops[0]) if c.ops else None
            if not isinstance(sym, str) or not sym.startswith('M4_'): continue
            lits, ok = fc.of(c)
            n += 1
            if ok and len(lits) == 1:
                atom, pol = lits[0]
                out.setdefault(atom, (set(), set()))[0 if pol else 1].add(sym)
    return out, n

def variant_symbols(v):
    """m4 mode symbols flex lists as comments in the generated file"""
    t = open(v.src, errors='replace').read()
    s = set(re.findall(r'^/\* (M4_[A-Z0-9_.]+)(?: = [^*]*)? \*/$', t, re.M))
    if 'M4_MODE_TABLESEXT' not in s or 'M4_YY_TABLES_VERIFY' not in s:
        raise common.AnalysisBroken('cannot read the m4 mode symbols of variant %s from its generated file (M4_MODE_TABLESEXT / M4_YY_TABLES_VERIFY not listed)' % v.name)
    return s

def eval_atom(symmap, syms, atom):
    pn = symmap.get(atom)
    if not pn: return None
    pos, neg = pn
    p = bool(pos & syms); q = bool(neg & syms)
    if p and q: return None
    if p: return True
    if q: return False
    return False if pos else True

def written_tables(ctx, W, fc):
    """every yytbl_data_fwrite call in flex: (call, ids, literals, complete).  A call inside a helper that receives the
    table as a parameter yields one entry per call site of the helper."""
    rep = ctx.rep; prog = ctx.flex
    init = 'yytbl_data_init'
    def ids_made_by(g):
        return sorted({c.ops[1][1] for c in g.calls(init) if c.ops[1][0] == 'int'})
    def origins(c, argi, depth=0):
        """[(ids, context call or None)] for the table passed as argument #argi of call c"""
        fn = c.fn; cfg = prog.cfg(fn, cut=False); res = Resolver(fn)
        ld = fn.def_of(flow.strip_casts(fn, c.ops[argi]))
        if ld is None or ld.op != 'load' or res.loc(ld.ops[0])[0] != 'local':
            rep.broken('cannot tell which table is passed to %s at %s' % (c.callee, where(c)))
        slot = ld.ops[0]
        sts = [x for x in fn.ins if x.op == 'store' and x.ops[1] == slot]
        out = []
        for s_ in sts:
            if s_.ops[0] == ('null',): continue
            region = cfg.reach(s_, avoid=[y for y in sts if y is not s_])
            if c not in region: continue
            pidx = [k for k, (_, pn) in enumerate(fn.params) if s_.ops[0] == ('reg', pn)]
            if pidx:
                if depth >= 3: rep.broken('table parameter chain too deep at %s' % where(c))
                ccs = fc.callers(fn.name)
                if not ccs: rep.broken('%s() passes its parameter to %s but is never called' % (fn.name, c.callee))
                for cc in ccs:
                    for ids, ctxc in origins(cc, pidx[0], depth + 1): out.append((ids, ctxc or cc))
                continue
            src = fn.def_of(flow.strip_casts(fn, s_.ops[0]))
            if src is None or src.op != 'call' or not isinstance(src.callee, str):
                rep.broken('table pointer of unknown origin reaches %s at %s' % (c.callee, where(c)))
            g = prog.fn(src.callee)
            if g is not None and g.blocks:
                made = ids_made_by(g)
                if not made: rep.broken('%s() returns a table but gives no constant id to yytbl_data_init' % g.name)
                out.append((made, None))
            else:
                found = [i for i in fn.calls(init) if i in region and c in cfg.reach(i) and derives_from_slot(fn, i.ops[0], slot)]
                if not found or any(i.ops[1][0] != 'int' for i in found):
                    rep.broken('no yytbl_data_init with a constant id between the allocation and %s at %s' % (c.callee, where(c)))
                out.append((sorted({i.ops[1][1] for i in found}), None))
        if not out: rep.broken('no table definition reaches %s at %s' % (c.callee, where(c)))
        return out
    sites = []
    for c in fc.callers('yytbl_data_fwrite'):
        for ids, ctxc in origins(c, 1):
            if ctxc is None:
                lits, ok = fc.of(c)
                sites.append((c, ids, lits, ok))
            else:
                l1, ok1 = fc.local(c); l2, ok2 = fc.of(ctxc)
                sites.append((ctxc, ids, l1 + [l for l in l2 if l not in l1], ok1 and ok2))
    return sites

def parse_dmap(mod):
    """entries of the yydmap initialiser: list of (id, global name, dm_sz) and the terminator flag"""
    g = None
    for n, gv in mod.globals.items():
        if norm(n) == 'yydmap': g = gv
    if g is None or g.init is None or g.init[0] != 'agg': return None
    ents = []
    for m in re.finditer(r'%struct\.yytbl_dmap (zeroinitializer|\{ i32 (-?\d+), i8\*\* (.*?), i64 (\d+) \})(?=, %struct\.yytbl_dmap |\]$)', g.init[1].strip()):
        if m.group(1) == 'zeroinitializer': ents.append((0, None, 0))
        else:
            gm = re.search(r'@("(?:[^"\\]|\\.)*"|[-\w.$]+)', m.group(3))
            ents.append((int(m.group(2)), gm.group(1).strip('"') if gm else None, int(m.group(4))))
    n = g.ty.a if g.ty is not None and g.ty.k == 'arr' else None
    if n is not None and n != len(ents): return None
    return ents

def elem_type(mod, gname):
    g = mod.globals.get(gname)
    if g is None or g.ty is None: return None
    t = g.ty
    if t.k == 'ptr': return t.a
    # an array object; clang may type a partly zero initialiser as a packed literal struct of equal leaves
    def leaves(x):
        if x.k == 'arr': return leaves(x.b)
        if x.k == 'struct': return set().union(*[leaves(f) for f in x.a]) if x.a else set()
        return {x}
    ls = leaves(t)
    return ls.pop() if len(ls) == 1 else None

def r3_r4(ctx, vs, sites, symmap, idname):
    rep = ctx.rep
    seen_ids = set()
    decided = 0
    for v in vs:
        mod = variants.module(v)
        ents = parse_dmap(mod)
        if ents is None: rep.broken('cannot parse the yydmap initialiser of variant %s' % v.name)
        if not ents or ents[-1][0] != 0 or any(e[0] == 0 for e in ents[:-1]):
            fail(rep, 'C15.R3', 'C15.R3:%s:yydmap:terminator' % SKEL, 'yydmap', 'yydmap must end with its only {0,0,0} entry: lookups and yytables_destroy stop at the first zero id [%s: ids %s]' % (v.name, [e[0] for e in ents]), variant=v.describe())
        else:
            rep.ok('C15.R3', '%s yydmap: %d entries + terminator' % (v.name, len(ents) - 1))
        live = []
        for e in ents:
            if e[0] == 0: break
            live.append(e)
        ids = [e[0] for e in live]
        seen_ids |= set(ids)
        dup = {i for i in ids if ids.count(i) > 1}
        for i in sorted(dup):
            fail(rep, 'C15.R3', 'C15.R3:%s:yydmap:duplicate:%s' % (SKEL, idname(i)), 'yydmap', 'yydmap lists %s twice; only the first entry is ever found [%s]' % (idname(i), v.name), variant=v.describe())
        # ---- R4
        for i, gname, sz in [e for e in ents if e[0] != 0]:
            key = 'C15.R4:%s:yydmap:%s' % (SKEL, idname(i))
            et = elem_type(mod, gname) if gname else None
            if et is None: rep.broken('yydmap entry %s of %s points to unknown global %s' % (idname(i), v.name, gname))
            if et.k == 'named' and mod.types.get(et.a) is not None and mod.types[et.a].k == 'struct':
                ms = [mod.sizeof(f) for f in mod.types[et.a].a]
                if len(set(ms)) != 1 or ms[0] != sz:
                    fail(rep, 'C15.R4', key, 'yydmap', 'dm_sz of %s is %d but the members of %s are %s bytes wide: yytbl_data_load stores each member with dm_sz bytes [%s]' % (idname(i), sz, et.a, ms, v.name), variant=v.describe())
                else:
                    rep.ok('C15.R4', '%s %s -> %s: dm_sz %d = member size of %s' % (v.name, idname(i), gname, sz, et.a))
            else:
                es = mod.sizeof(et)
                if es != sz:
                    fail(rep, 'C15.R4', key, 'yydmap', 'dm_sz of %s is %d but %s has elements of %d bytes (%r): yytbl_data_load allocates and strides by dm_sz [%s]' % (idname(i), sz, gname, es, et, v.name), variant=v.describe())
                else:
                    rep.ok('C15.R4', '%s %s -> %s: dm_sz %d = sizeof(%r)' % (v.name, idname(i), gname, sz, et))
        # ---- R3 per variant
        syms = variant_symbols(v)
        written = set(); maybe = set()
        for c, sids, lits, ok in sites:
            vals = [(eval_atom(symmap, syms, a), pol) for a, pol in lits]
            if any(val is not None and val != pol for val, pol in vals): continue          # some condition is false: not written
            if ok and all(val is not None for val, _ in vals): written |= set(sids)
            else: maybe |= set(sids)
        for i in sorted(written):
            decided += 1
            key = 'C15.R3:%s:yydmap:%s' % (SKEL, idname(i))
            if i in ids: rep.ok('C15.R3', '%s: flex writes %s, yydmap has it' % (v.name, idname(i)))
            else:
                c = [s_ for s_ in sites if i in s_[1]][0]
                fail(rep, 'C15.R3', key, where(c[0]), 'with the options of variant %s flex writes table %s (%s) but the scanner\'s yydmap has no entry for it: yytables_fload ends in "table id not found in map" [conditions: %s]' %
                         (v.name, idname(i), where(c[0]), ' && '.join(lit_str(l) for l in c[2])), variant=v.describe())
        for i in ids:
            decided += 1
            key = 'C15.R3:%s:yydmap:unwritten:%s' % (SKEL, idname(i))
            if i in written or i in maybe: rep.ok('C15.R3', '%s: yydmap expects %s, flex writes it' % (v.name, idname(i)))
            else:
                fail(rep, 'C15.R3', key, 'yydmap', 'the scanner of variant %s expects table %s in the file (yydmap entry) but no yytbl_data_fwrite for that id is active under its options: the table pointer stays null after yytables_fload' % (v.name, idname(i)), variant=v.describe())
    return seen_ids, decided

# ---------------------------------------------------------------- R4 generator side: coupled type symbols

# m4 type symbols that the skeleton uses for the same table on the two sides of dm_sz.  Every other yydmap line
# names the very symbol its table is declared with (sizeof(M4_HOOK_X_TYPE) next to `M4_HOOK_X_TYPE *yy_x`), so
# agreement is by construction and R4 confirms it on the instantiated variants.
COUPLED_TYPES = [
    # (symbol used for the declaration, symbol used in dm_sz, table, anchors in cpp-flex.skl)
    ('M4_HOOK_SET_OFFSET_TYPE', 'M4_HOOK_MKCTBL_TYPE', 'yy_transition',
     ('YY_OFFSET_TYPE yy_verify', '&yy_transition, sizeof(M4_HOOK_MKCTBL_TYPE)')),
]

def linear(fn, res, v, depth=0):
    """integer value as a linear form {term: coefficient}; terms are location classes of the globals/fields loaded,
    '1' is the constant term.  None when the value is not linear in loads."""
    if depth > 30 or not isinstance(v, tuple): return None
    if v[0] == 'int': return {'1': v[1]}
    d = fn.def_of(v)
    if d is None: return None
    if d.op in ('sext', 'zext', 'trunc'): return linear(fn, res, d.ops[0], depth + 1)
    if d.op == 'load':
        a = fn.def_of(d.ops[0])
        if a is not None and a.op == 'alloca':
            st = [x for x in fn.ins if x.op == 'store' and x.ops[1] == d.ops[0]]
            return linear(fn, res, st[0].ops[0], depth + 1) if len(st) == 1 else None
        return {loc_class(res.loc(d.ops[0])): 1}
    if d.op in ('add', 'sub'):
        a = linear(fn, res, d.ops[0], depth + 1); b = linear(fn, res, d.ops[1], depth + 1)
        if a is None or b is None: return None
        out = dict(a); sg = 1 if d.op == 'add' else -1
        for k, c in b.items(): out[k] = out.get(k, 0) + sg * c
        return {k: c for k, c in out.items() if c != 0}
    if d.op == 'mul':
        a = linear(fn, res, d.ops[0], depth + 1); b = linear(fn, res, d.ops[1], depth + 1)
        if a is None or b is None: return None
        if set(a) <= {'1'}: a, b = b, a
        if not set(b) <= {'1'}: return None
        k = b.get('1', 0)
        return {t_: c * k for t_, c in a.items() if c * k != 0}
    return None

def lin_str(l):
    def term(k): return k[1] if k[0] == 'global' else ('%s.%s' % (k[1], k[2]) if k[0] == 'field' else str(k))
    parts = ['%s%s' % ('' if c == 1 else '%d*' % c, term(k)) for k, c in sorted(l.items(), key=str) if k != '1']
    if l.get('1'): parts.append(str(l['1']))
    return ' + '.join(parts) or '0'

def call_behind(fn, v, callee, depth=0):
    """the call to `callee` whose result v is computed from, through fields of the result and single-store locals"""
    if depth > 6: return None
    for d in deep_slice(fn, v).values():
        if d.op == 'call' and d.callee == callee: return d
        if d.op == 'load':
            a = fn.def_of(d.ops[0])
            if a is not None and a.op == 'alloca':
                st = [x for x in fn.ins if x.op == 'store' and x.ops[1] == d.ops[0]]
                if len(st) == 1:
                    r = call_behind(fn, st[0].ops[0], callee, depth + 1)
                    if r is not None: return r
    return None

def r4_generator(ctx, fc):
    """the two type symbols of a coupled pair are chosen by optimize_pack() from the same size expression"""
    rep = ctx.rep; prog = ctx.flex
    skel = ctx.art.source(SKEL)
    for decl_sym, dm_sym, table, anchors in COUPLED_TYPES:
        gone = [a for a in anchors if a not in skel]
        if gone:
            # the skeleton no longer builds this table from the two symbols; R4 on the instantiated variants is the authority
            rep.note('cpp-flex.skl no longer couples %s and %s for %s (anchor "%s" not found); generator-side size comparison skipped' % (decl_sym, dm_sym, table, gone[0]))
            continue
        forms = {}
        for sym in (decl_sym, dm_sym):
            for c in fc.callers('out_str'):
                fmt = flow.const_arg(c.fn, c.ops[0])
                if not isinstance(fmt, str) or sym not in fmt: continue
                oc = call_behind(c.fn, c.ops[1], 'optimize_pack')
                if oc is None: rep.broken('%s is not emitted from an optimize_pack() result at %s' % (sym, where(c)))
                lf = linear(c.fn, Resolver(c.fn), oc.ops[0])
                if lf is None: rep.broken('size expression of optimize_pack() for %s at %s is not linear' % (sym, where(oc)))
                forms.setdefault(sym, []).append((c, lf))
        if decl_sym not in forms or dm_sym not in forms: rep.broken('generator does not emit %s / %s through out_str(optimize_pack(..)->name)' % (decl_sym, dm_sym))
        for c, lf in forms[dm_sym]:
            key = 'C15.R4:%s:%s:%s-size' % (c.fn.file or 'gen.c', c.fn.name, dm_sym)
            other = forms[decl_sym][0]
            if all(lf == o[1] for o in forms[decl_sym]):
                rep.ok('C15.R4', 'flex %s and %s: same optimize_pack size %s' % (dm_sym, decl_sym, lin_str(lf)))
            else:
                fail(rep, 'C15.R4', key, where(c), '%s (dm_sz of %s in yydmap) is chosen by optimize_pack(%s) but %s (the type the table is declared with) by optimize_pack(%s) at %s: '
                         'for sizes between the two thresholds the loader stores elements with the wrong width' % (dm_sym, table, lin_str(lf), decl_sym, lin_str(other[1]), where(other[0])),
                         replay_input='%option fast 8bit tables-file="t.tables"; ~2075 keyword rules so that 32510 <= tblend <= 32763, plus (QZ)+ : scanner dies with "no action found" on QZQZ, in-code tables scan it')

# ---------------------------------------------------------------- R6

def r6(ctx, v):
    rep = ctx.rep
    mod = variants.module(v); prog = variants.program(v)
    fn = vfn(mod, 'yytables_destroy')
    key0 = 'C15.R6:%s:yytables_destroy' % SKEL
    syms = variant_symbols(v)
    t = open(v.src, errors='replace').read()
    verify = re.search(r'^/\* M4_YY_TABLES_VERIFY = 1 \*/$', t, re.M) is not None
    if verify:
        # tables are static arrays: nothing was allocated, nothing may be freed
        frees = [c for c in fn.ins if c.op == 'call' and norm(c.callee) == 'yyfree']
        if frees: fail(rep, 'C15.R6', key0 + ':verify-frees', where(frees[0]), 'tables-verify scanner: yytables_destroy frees through yydmap, whose targets are static arrays [%s]' % v.name, variant=v.describe())
        else: rep.ok('C15.R6', '%s yytables_destroy: verify mode, nothing allocated, nothing freed' % v.name)
        return
    cfg = prog.cfg(fn); res = Resolver(fn)
    # the cursor: a local that receives &yydmap[0]
    cur = None
    for x in fn.ins:
        if x.op == 'store' and first_elem_of(x.ops[0], [n for n in mod.globals if norm(n) == 'yydmap'][0]):
            cur = x
    if cur is None:
        fail(rep, 'C15.R6', key0 + ':start', fwhere(fn), 'yytables_destroy does not start its walk at the first entry of yydmap [%s]' % v.name, variant=v.describe()); return
    slot = cur.ops[1]
    frees = [c for c in fn.ins if c.op == 'call' and norm(c.callee) == 'yyfree']
    def via_dm_arr(val):
        """val is loaded through dm_arr of the cursor (possibly via a local copy)"""
        work = [val]; seen = set(); n = 0
        while work and n < 40:
            n += 1
            x = work.pop()
            for d in list(deep_slice(fn, x).values()):
                if id(d) in seen: continue
                seen.add(id(d))
                if d.op == 'load':
                    l = res.loc(d.ops[0])
                    if field_of(l) == ('yytbl_dmap', 'dm_arr') and derives_from_slot(fn, d.ops[0], slot): return True
                    a = fn.def_of(d.ops[0])
                    if a is not None and a.op == 'alloca' and d.ops[0] != slot:
                        for s_ in fn.ins:
                            if s_.op == 'store' and s_.ops[1] == d.ops[0]: work.append(s_.ops[0])
        return False
    good = [c for c in frees if via_dm_arr(c.ops[0]) and fn.def_of(c.ops[0]) is not None and fn.def_of(c.ops[0]).op == 'load']
    if not good:
        fail(rep, 'C15.R6', key0 + ':free', fwhere(fn), 'yytables_destroy does not pass *dm_arr of the entries it walks to yyfree: the loaded tables are never released [%s]' % v.name, variant=v.describe()); return
    fr = good[0]
    # advance: the only other store to the cursor is cursor + 1
    others = [x for x in fn.ins if x.op == 'store' and x.ops[1] == slot and x is not cur and x.ops[0] != ('null',)]
    adv = []
    for x in others:
        d = fn.def_of(x.ops[0])
        if d is not None and d.op == 'getelementptr' and len(d.ops) == 2 and d.ops[1] == ('int', 1) and derives_from_slot(fn, d.ops[0], slot): adv.append(x)
    if len(adv) != len(others) or not adv:
        fail(rep, 'C15.R6', key0 + ':advance', where(others[0]) if others else fwhere(fn), 'yytables_destroy does not advance through yydmap one entry at a time [%s]' % v.name, variant=v.describe()); return
    # after an entry has been handled the walk continues: no return reachable from the loop body without advancing
    plain = prog.cfg(fn, cut=False)
    body_entry = None
    for br, succ in plain.control_deps_closure(fr.blk):
        lds = [d for d in flow.value_slice(fn, br.ops[0]) if d.op == 'load']
        if any(field_of(res.loc(d.ops[0])) == ('yytbl_dmap', 'dm_id') for d in lds): body_entry = succ
    if body_entry is None:
        fail(rep, 'C15.R6', key0 + ':guard', where(fr), 'the walk of yytables_destroy is not controlled by the dm_id of the entry it looks at (no terminator test) [%s]' % v.name, variant=v.describe()); return
    esc = cfg.reach_from_block(body_entry, avoid=adv)
    if any(x.op == 'ret' for x in esc):
        fail(rep, 'C15.R6', key0 + ':early-exit', where(fr), 'yytables_destroy can leave the walk before the terminator (a return is reachable from the loop body without advancing): later tables are not released [%s]' % v.name, variant=v.describe()); return
    # the free is controlled only by: dm_id != 0 of the cursor, and null tests of the very pointers involved
    bad = None; saw_id = False
    for br, succ in plain.control_deps_closure(fr.blk):
        r = decode_bool(fn, res, br.ops[0]) if br.op == 'br' and br.ops else None
        ok = False
        if r is not None:
            lds = [d for d in flow.value_slice(fn, br.ops[0]) if d.op == 'load']
            if any(field_of(res.loc(d.ops[0])) == ('yytbl_dmap', 'dm_id') for d in lds):
                ok = (succ.name == br.targets[0]) == r[1]; saw_id = saw_id or ok
            else:
                cmpi = [d for d in flow.value_slice(fn, br.ops[0]) if d.op == 'icmp']
                isnull = cmpi and ('null',) in cmpi[0].ops
                v0 = [o for o in cmpi[0].ops if o != ('null',)][0] if isnull else None
                # true edge = non-null
                ok = isnull and via_dm_arr(v0) and ((succ.name == br.targets[0]) == (cmpi[0].pred == 'ne'))
        if not ok: bad = br
    if bad is not None or not saw_id:
        fail(rep, 'C15.R6', key0 + ':guard', where(bad) if bad is not None else where(fr), 'the yyfree in yytables_destroy is guarded by a condition other than "entry id non-zero" and "pointer non-null": some loaded tables are not released [%s]' % v.name, variant=v.describe()); return
    # reset: *dm_arr = NULL after the free
    rs = [x for x in cfg.reach(fr, avoid=adv) if x.op == 'store' and x.ops[0] == ('null',) and via_dm_arr(x.ops[1])]
    if not rs:
        fail(rep, 'C15.R6', key0 + ':reset', where(fr), 'yytables_destroy frees *dm_arr but leaves the dangling pointer in place: a second yytables_destroy (or a scanner that tests the pointer) uses freed memory [%s]' % v.name, variant=v.describe()); return
    rep.ok('C15.R6', '%s yytables_destroy: for each entry up to the terminator: yyfree(*dm_arr)@%s, *dm_arr = NULL@%s' % (v.name, fr.line, rs[0].line))

# ---------------------------------------------------------------- more option combinations for R3/R4

_extra = {}
def extra_variants(ctx):
    """tables-file variants beyond the core list: every table representation with and without equivalence classes,
    yylineno, align, 8-bit, verify with -Cf/-CF, and a prefix (set name).  Instantiated by the freshly built flex and
    compiled to IR exactly like the core variants; nothing is run."""
    if ctx.art.dir in _extra: return _extra[ctx.art.dir]
    from variants import Variant, PLAIN, NOREJ, FULL
    TF = 'tables-file="lex.tables"'
    V = [Variant('nr_tables_Cfe', 'nr', PLAIN, [TF, 'full', 'ecs'], tables=True),
         Variant('nr_tables_CFe', 'nr', PLAIN, [TF, 'fast', 'ecs'], tables=True),
         Variant('nr_tables_CF_lineno', 'nr', PLAIN, [TF, 'fast', 'yylineno'], tables=True),
         Variant('nr_tables_Cfa', 'nr', PLAIN, [TF, 'full', 'align'], tables=True),
         Variant('nr_tables_Ca', 'nr', NOREJ, [TF, 'align', 'yylineno'], tables=True),
         Variant('nr_tables_rej_lineno', 'nr', FULL, [TF, 'yylineno'], tables=True),
         Variant('nr_verify_Cf', 'nr', PLAIN, [TF, 'tables-verify', 'full'], tables=True),
         Variant('nr_verify_CF', 'nr', PLAIN, [TF, 'tables-verify', 'fast'], tables=True),
         Variant('r_tables_prefix', 'r', NOREJ, [TF, 'prefix="foo"', 'yylineno'], tables=True),
         Variant('nr_tables_CF8', 'nr', PLAIN, [TF, 'fast', '8bit'], tables=True),
         Variant('nr_tables_Cf8', 'nr', PLAIN, [TF, 'full', '8bit'], tables=True),
         Variant('nr_tables_noecs', 'nr', NOREJ, [TF, 'noecs', 'nometa-ecs'], tables=True),
         Variant('nr_verify_rej', 'nr', FULL, [TF, 'tables-verify', 'yylineno'], tables=True)]
    variants.instantiate(ctx.art, V, 'c15')
    _extra[ctx.art.dir] = V
    return V

# ---------------------------------------------------------------- driver

def run(ctx):
    rep = ctx.rep
    builtin = {'header': DOC_HEADER, 'table': DOC_TABLE, 'ids': DOC_IDS, 'flags': DOC_FLAGS, 'magic': DOC_MAGIC}
    texi = doc_from_texi()
    doc = builtin
    if texi is not None:
        # the manual in the tree is the authority; the built-in copy must be the same text
        same = (texi['header'] == DOC_HEADER + [('th_pad64', 8)] or texi['header'] == DOC_HEADER) and \
               (texi['table'] == DOC_TABLE + [('td_pad64', 8)] or texi['table'] == DOC_TABLE) and texi['ids'] == DOC_IDS and texi['flags'] == DOC_FLAGS and texi['magic'] == DOC_MAGIC
        if not same:
            rep.note('doc/flex.texi "Tables File Format" differs from the copy built into the checker; using the manual in the tree')
            doc = {'header': [f for f in texi['header'] if not f[0].endswith('pad64')], 'table': [f for f in texi['table'] if not f[0].endswith('pad64')],
                   'ids': texi['ids'], 'flags': texi['flags'], 'magic': texi['magic']}
            if not doc['header'] or not doc['table'] or doc['magic'] is None: rep.broken('cannot parse the "Tables File Format" node of doc/flex.texi')
        rep.setcount('manual_parsed', 1)
    else:
        rep.note('doc/flex.texi not present in the analysed tree; using the built-in copy of the documented layout')

    # ---- writer
    W = writer_checks(ctx, doc)
    flex = ctx.flex
    fen = {}
    for m in flex.modules:
        e = enumerators(m)
        if e:
            fen[os.path.basename(m.path)] = e
    if not fen: rep.broken('no yytbl enumerators in the debug info of flex')
    merged = {}
    for tu, e in sorted(fen.items()):
        for n, val in e.items():
            if n in merged and merged[n] != val:
                fail(rep, 'C15.R5', 'C15.R5:tables_shared.h:enum:%s' % n, tu, '%s has different values in different translation units of flex (%d, %d)' % (n, merged[n], val))
            merged[n] = val
    check_enums(rep, 'flex', 'tables_shared.h', merged, doc)
    idn = {val: n for n, val in doc['ids'].items()}
    def idname(i): return idn.get(i, 'id%d' % i)

    # struct-ness: ids the writer flags YYTD_STRUCT == ids whose length yytbl_calc_total_len doubles
    struct_bit = doc['flags']['YYTD_STRUCT']
    ctl = W['F']['yytbl_calc_total_len']; res = Resolver(ctl)
    doubled = set()
    for x in ctl.ins:
        if x.op == 'icmp' and x.pred == 'eq':
            for a, b in ((x.ops[0], x.ops[1]), (x.ops[1], x.ops[0])):
                if b[0] == 'int' and field_in_slice(ctl, res, a, ('yytbl_data',)) == ('yytbl_data', 'td_id'): doubled.add(b[1])
    flagged = set()
    for f in set(flex.functions.values()):
        ic = [c for c in f.calls('yytbl_data_init') if c.ops[1][0] == 'int']
        if not ic: continue
        r2 = Resolver(f)
        for x in f.ins:
            if x.op == 'store' and field_of(r2.loc(x.ops[1])) == ('yytbl_data', 'td_flags') and x.ops[0][0] == 'int' and x.ops[0][1] & struct_bit:
                if len(ic) == 1: flagged.add(ic[0].ops[1][1])
                else: rep.broken('%s() sets YYTD_STRUCT and initialises several tables' % f.name)
    key = 'C15.R1:tables_shared.c:yytbl_calc_total_len:struct-ids'
    if doubled != flagged or not doubled:
        fail(rep, 'C15.R1', key, fwhere(ctl), 'yytbl_calc_total_len doubles the element count for %s, the generator sets YYTD_STRUCT (two integers per element in the loader) on %s' %
                 (sorted(map(idname, doubled)), sorted(map(idname, flagged))))
    else:
        rep.ok('C15.R1', 'flex: YYTD_STRUCT set exactly on %s, whose length yytbl_calc_total_len doubles' % sorted(map(idname, doubled)))
    # yytbl_data_compress keeps the id
    cp = W['F']['yytbl_data_compress']; res = Resolver(cp)
    ic = cp.calls('yytbl_data_init')
    if len(ic) == 1 and field_in_slice(cp, res, ic[0].ops[1], ('yytbl_data',)) == ('yytbl_data', 'td_id') and derives_from_slot(cp, ic[0].ops[1], param_slot(cp, 0)):
        rep.ok('C15.R3', 'flex yytbl_data_compress: the compressed table keeps tbl->td_id')
    else:
        fail(rep, 'C15.R3', 'C15.R3:tables.c:yytbl_data_compress:td_id', fwhere(cp), 'yytbl_data_compress does not carry the id of the table it compresses over to the replacement')

    fc = FlexConds(flex)
    sites = written_tables(ctx, W, fc)
    symmap, nsym = symbol_map(flex, fc)
    r4_generator(ctx, fc)
    all_written = sorted({i for _, ids, _, _ in sites for i in ids})
    for c, ids, lits, ok in sites:
        rep.note('write site %s: %s when %s%s' % (where(c), '/'.join(map(idname, ids)), ' && '.join(lit_str(l) for l in lits) or 'always', '' if ok else ' (+undecoded condition)'))
    rep.setcount('write_sites', len(sites))
    rep.setcount('m4_symbols_with_conditions', nsym)
    rep.setcount('condition_atoms_with_witness_symbol', len(symmap))
    # floor on what is written, not on how many call sites write it: three sites write the same equivalence-class table
    # today and a helper may merge them (neutral diff m3P1); all 12 table ids must still reach yytbl_data_fwrite
    if len(all_written) < 12 or len(sites) < 12:
        rep.broken('only %d table ids (%d yytbl_data_fwrite call sites) found in flex; 12 ids were confirmed by hand' % (len(all_written), len(sites)))
    undec = [s_ for s_ in sites if not s_[3]]
    for s_ in undec: rep.note('conditions of write site %s are only partly decoded' % where(s_[0]))
    if len(undec) > 2: rep.broken('%d write sites with undecodable conditions' % len(undec))
    noatom = sorted({atom_str(a) for _, _, lits, _ in sites for a, _ in lits if a not in symmap})
    if noatom: rep.broken('no m4 mode symbol witnesses the generator condition(s) %s; cannot tell per variant which tables are written' % noatom)

    # ---- readers
    vs = ctx.variants(lambda v: v.tables and v.backend in ('nr', 'r')) + [v for v in extra_variants(ctx) if v.ll is not None]   # the manual: tables are a feature of the default C/C++ back end
    if ctx.variants(lambda v: v.tables and v.backend == 'cxx'):
        rep.note('a C++ tables-file variant compiles on this tree; its loader (mangled names, class members) is not analysed by C15 yet')
    if len(vs) < 6:
        lost = [v for v in ctx.variants(lambda v: v.tables, need_ir=False) + extra_variants(ctx) if v.ll is None and v.backend != 'cxx']
        why = '; '.join('%s: %s' % (v.name, ((v.stderr or '').strip().split('\n') or [''])[-1][:120] if v.refused or v.crashed else 'does not compile') for v in lost[:4])
        if [x for x in rep.viol]:
            # the writer is already known to be wrong and flex's own sanity checks stop it from producing the variants:
            # report what was found instead of hiding it behind exit 2
            rep.note('only %d tables-file variants could be instantiated (%s); reader-side rules not evaluated' % (len(vs), why))
            rep.undecided += ['reader side: the tables-file variants could not be instantiated by this flex (%s)' % why]
            return rep.finish('other', 'writer-side model only: flex refused or failed to instantiate the tables-file variants (%s)' % why)
        rep.broken('only %d tables-file variants compiled to IR (%s)' % (len(vs), why))
    nfn = 0
    for v in vs:
        mod = variants.module(v)
        nfn += len(mod.functions)
        reader_checks(ctx, v, W, doc)
        en = enumerators(mod)
        if not en: rep.broken('no yytbl enumerators in the debug info of variant %s' % v.name)
        check_enums(rep, v.name, SKEL, en, doc)
        r6(ctx, v)
        r9_sign(ctx, v)
    seen_ids, decided = r3_r4(ctx, vs, sites, symmap, idname)
    for i in all_written:
        key = 'C15.R3:%s:yydmap:never:%s' % (SKEL, idname(i))
        if i in seen_ids: rep.ok('C15.R3', 'flex writes %s; some variant\'s yydmap has it' % idname(i))
        else:
            c = [s_ for s_ in sites if i in s_[1]][0]
            fail(rep, 'C15.R3', key, where(c[0]), 'flex writes table %s but no scanner variant has a yydmap entry for it' % idname(i))
    rep.setcount('variants_analysed', len(vs))
    rep.setcount('scanner_functions_analysed', nfn)
    rep.setcount('table_ids_written', len(all_written))
    rep.setcount('variant_table_pairs_decided', decided)

    rep.floor('C15.R1', 25 + 22 * len(vs), 'writer: 3+2 primitives x2, 4+4 fields, 3 arms, strings, pad, patch, hsize; per variant: 6 primitive checks, 8 fields, 3 arms, 14, bread, 2 pad')
    rep.floor('C15.R9', 2 * len(vs), 'the 8- and the 16-bit temporary of yytbl_data_load in every variant')
    rep.floor('C15.R2', 2 + 2 * len(vs), 'write16/32 and read16/32 of every variant')
    rep.floor('C15.R3', 12 + 10 * len(vs), 'ids written, per-variant written/expected pairs, terminators, yydmap hand-over')
    rep.floor('C15.R4', 4 * len(vs), 'yydmap entries of the tables variants (2-8 each; 104 in 20 variants today) (+1: the coupled type symbols in the generator)')
    rep.floor('C15.R5', 17 * (1 + len(vs)), 'magic, 17 enumerators and the flags decoding, flex and every variant')
    rep.floor('C15.R8', len(vs), 'the yytbl_hdr_read call in yytbl_fload of every variant')
    rep.floor('C15.R6', len(vs), 'yytables_destroy of every variant')
    import c15_file
    nfile = c15_file.run(ctx, rep)
    rep.setcount('file_tables_compared', nfile)
    rep.floor('C15.R7', 30, 'tables of the --tables-verify variants decoded from the files flex wrote')
    rep.undecided += ['that a loaded table has the same contents as the in-code table (value level round trip)',
                      'concatenated table sets, truncation at every offset (only "every read is tested": C14.R4)',
                      'that td_hilen/td_lolen computed by the generator describe the data array',
                      'tables of C++ scanners: the cxx tables-file variant does not compile (reported under C02), so its loader is not analysed',
                      'agreement of M4_HOOK_MKCTBL_TYPE (dm_sz of yy_transition) with YY_OFFSET_TYPE for table sizes the probe variants do not reach']
    rep.assumptions += ['clang -O0 IR is a faithful rendering of tables.c and of the instantiated skeleton',
                        'the generator options read by the table-writing code have the value they had when the m4 mode symbols were emitted',
                        'flex_main runs readin, ntod and make_tables on every successful run',
                        'debug-info enumerators reflect the enum constants the code was compiled with']
    return rep.finish('other',
        'Writer model extracted from the LLVM IR of flex (tables.c, tables_shared.c, gen.c, dfa.c, main.c) and reader model extracted from the IR of '
        '%d instantiated tables-file/tables-verify scanner variants, compared with each other and with the layout in the manual: ordered '
        '(width, field) sequences of the header and table records, the 14-byte constant, pad modulus, byte accounting, byte swaps of the right '
        'width, magic number, enum values, td_flags decoding; ids of the %d tables flex can write against the yydmap initialiser of each '
        'variant under the variant\'s mode symbols; dm_sz against the element type of each table; the release walk of yytables_destroy.' % (len(vs), len(all_written)))
