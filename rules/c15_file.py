"""C15.R7 - the serialized tables file that flex wrote at generation time, decoded per the documented format
(doc/flex.texi "Tables File Format"), holds exactly the values of the in-code tables of the same scanner.

Static translation validation: the file is an output of the generator (written while the variant was instantiated); the
in-code tables are constant initialisers in the variant's IR (a --tables-verify scanner carries both).  Nothing is run.
Decides the data half of the round trip for the probe rule sets; the loader's half is C15.R1-R6 and C14.R4."""
import os, struct, re
import variants, tbl
from common import where

MAGIC = 0xF13C57B1
IDS = {1: 'yy_accept', 2: 'yy_base', 3: 'yy_chk', 4: 'yy_def', 5: 'yy_ec', 6: 'yy_meta', 7: 'yy_NUL_trans', 8: 'yy_nxt',
       9: 'yy_rule_can_match_eol', 0x0A: 'yy_start_state_list', 0x0B: 'yy_transition', 0x0C: 'yy_acclist'}
F8, F16, F32, FPTRANS, FSTRUCT = 1, 2, 4, 8, 0x10

class FileError(Exception): pass

def decode(path):
    """[(set name, {id: (flags, hilen, lolen, values)})] for every table set in the file"""
    b = open(path, 'rb').read()
    off = 0; sets = []
    while off < len(b):
        if len(b) - off < 14: raise FileError('trailing %d bytes' % (len(b) - off))
        magic, hsize, ssize, flags = struct.unpack('>IIIH', b[off:off + 14])
        if magic != MAGIC: raise FileError('bad magic %08x at offset %d' % (magic, off))
        if hsize % 8 or ssize % 8: raise FileError('header/set size not padded to 8 (%d, %d)' % (hsize, ssize))
        strs = b[off + 14:off + hsize].split(b'\0')
        version, name = strs[0].decode(), strs[1].decode()
        p = off + hsize; end = off + ssize; tabs = {}
        while p < end:
            tid, tfl, hi, lo = struct.unpack('>HHII', b[p:p + 12]); p += 12
            n = lo * (hi if hi else 1) * (2 if tfl & FSTRUCT else 1)
            w = 1 if tfl & F8 else 2 if tfl & F16 else 4 if tfl & F32 else None
            if w is None: raise FileError('table %d has no width flag (flags %#x)' % (tid, tfl))
            fmt = {1: 'b', 2: 'h', 4: 'i'}[w]
            vals = list(struct.unpack('>%d%s' % (n, fmt), b[p:p + n * w])); p += n * w
            pad = (-(p - off)) % 8
            if b[p:p + pad].strip(b'\0'): raise FileError('non-zero padding after table %d' % tid)
            p += pad
            if tid in tabs: raise FileError('table id %d appears twice in one set' % tid)
            tabs[tid] = (tfl, hi, lo, vals)
        if p != end: raise FileError('set size %d does not match the tables (%d bytes used)' % (ssize, p - off))
        sets.append((name, version, tabs)); off = end
    return sets

def incode(mod, name, v):
    """values of the in-code table `name` in the order the file stores them"""
    pre = 'foo' if any(o.startswith('prefix="foo"') for o in v.options) else None
    g = mod.globals.get(name)
    if g is None: return None
    if name == 'yy_transition':
        t = tbl.TableDFA.__new__(tbl.TableDFA)      # reuse the struct-array reader
        t.mod = mod; t.n_transition = name; t.n_nultrans = None; t.v = v
        vals = []
        if g.init and g.init[0] == 'agg':
            for m in re.finditer(r'%struct\.yy_trans_info (zeroinitializer|\{ i\d+ (-?\d+), i\d+ (-?\d+) \})', g.init[1]):
                vals += [0, 0] if m.group(1) == 'zeroinitializer' else [int(m.group(2)), int(m.group(3))]
        return vals
    if name == 'yy_start_state_list':
        esz = mod.sizeof(mod.globals['yy_transition'].ty.b) if 'yy_transition' in mod.globals else 4
        out = []
        for part in re.split(r',\s*(?=%struct\.yy_trans_info\*)', g.init[1].strip()[1:-1]):
            m1 = re.search(r'@yy_transition to i8\*\), i64 (\d+)\)', part); m2 = re.search(r'@yy_transition, i\d+ 0, i\d+ (\d+)\)', part)
            out.append(int(m1.group(1)) // esz if m1 else int(m2.group(1)) if m2 else 0)
        return out
    return tbl.int_array(mod, name)

def run(ctx, rep):
    vs = [v for v in ctx.variants() if 'tables-verify' in v.options and v.backend in ('nr', 'r')]
    extra = []
    for tn, topts in (('C', ['noecs', 'nometa-ecs']), ('Cf', ['full']), ('CF', ['fast']), ('Cfe', ['full', 'ecs']), ('rej', ['reject'])):
        feats = variants.FULL if tn == 'rej' else variants.PLAIN
        extra.append(variants.Variant('nr_verify_%s' % tn, 'nr', feats, ['tables-file="lex.tables"', 'tables-verify', 'yylineno'] + topts, tables=True))
    # flex's own ~275 patterns (27 start conditions, ^ rules): large tables, all element widths, a long start-state list
    import tbl_probes
    body = tbl_probes.scanl_probe(ctx.art)[0]
    for tn, topts in (('Cem', ['ecs', 'meta-ecs']), ('C', ['noecs', 'nometa-ecs']), ('Cf', ['full']), ('CF', ['fast']), ('CFe', ['fast', 'ecs'])):
        opts = ['noyywrap', '8bit', 'tables-file="lex.tables"', 'tables-verify', 'yylineno'] + topts
        spec = ''.join('%%option %s\n' % o for o in opts) + body
        extra.append(variants.Variant('nr_verify_scanl_%s' % tn, 'nr', (), opts, raw_spec=spec, tables=True))
    variants.instantiate(ctx.art, extra, 'c15file')
    vs += [v for v in extra if v.ll is not None]
    n = 0
    for v in vs:
        path = os.path.join(v.dir, 'lex.tables')
        key0 = 'C15.R7:tables-file:%s' % v.name.replace('nr_', '').replace('r_', '')
        if not os.path.exists(path):
            rep.fail('C15.R7', key0 + ':missing', v.name, 'flex accepted tables-file but wrote no tables file', variant=v.describe()); continue
        try: sets = decode(path)
        except (FileError, struct.error) as e:
            rep.fail('C15.R7', key0 + ':format', v.name, 'the tables file flex wrote does not follow the documented format: %s' % e, variant=v.describe()); continue
        mod = variants.module(v)
        pre = [o.split('=')[1].strip('"') for o in v.options if o.startswith('prefix=')]
        want = (pre[0] if pre else 'yy') + 'tables'
        mine = [s_ for s_ in sets if s_[0] == want]
        if len(mine) != 1:
            rep.fail('C15.R7', key0 + ':set-name', v.name, 'the file holds sets %s, expected exactly one named %r' % ([s_[0] for s_ in sets], want), variant=v.describe()); continue
        for tid, (tfl, hi, lo, vals) in sorted(mine[0][2].items()):
            name = IDS.get(tid); n += 1
            key = 'C15.R7:%s:%s' % (name or 'id%d' % tid, 'struct' if tfl & FSTRUCT else 'data')
            if name is None:
                rep.fail('C15.R7', key + ':unknown-id', v.name, 'table id %d in the file is not a documented yytbl_id' % tid, variant=v.describe()); continue
            ref = incode(mod, name, v)
            if ref is None:
                rep.fail('C15.R7', key + ':no-incode-table', v.name, 'the file carries %s but the --tables-verify scanner has no such in-code table' % name, variant=v.describe()); continue
            w = 1 if tfl & F8 else 2 if tfl & F16 else 4
            # the in-code table of an 8-bit file table is unsigned char: compare modulo the width
            m = (1 << (8 * w))
            same = len(ref) == len(vals) and all((a - b_) % m == 0 for a, b_ in zip(ref, vals))
            if same:
                rep.ok('C15.R7', '%s: %s (%d entries, %d-bit%s) in the file equals the in-code table' % (v.name, name, len(vals), 8 * w, ', struct' if tfl & FSTRUCT else ''))
            else:
                k = next((i for i, (a, b_) in enumerate(zip(ref, vals)) if (a - b_) % m), None)
                rep.fail('C15.R7', key + ':differs', v.name,
                         'serialized %s differs from the in-code table: %s' % (name, ('lengths %d (file) vs %d (code)' % (len(vals), len(ref))) if k is None else
                                                                            ('entry %d is %d in the file (%d-bit) and %d in the code' % (k, vals[k], 8 * w, ref[k]))), variant=v.describe())
    return n
