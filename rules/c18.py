"""C18 - scanner generation is deterministic (rules over flex's own IR).

Independence from the *contents* of fresh heap memory in general is NOT decided.  Decided:

R1  no nondeterministic source: no call to time/clock/rand/getpid/tmpnam/readdir/... anywhere in flex; getenv only with the
    reviewed constant names; no %p conversion in any format string that reaches a printf-style function; the results of
    fork()/wait() are used only in comparisons.
R2  no address-dependent ordering: every ptrtoint feeds a pointer difference and nothing else; the qsort comparators
    compare loaded integers, never addresses.
R3  hash tables are never enumerated: the bucket arrays of sym.c are indexed only by hashfunct(...).
R4  unassigned nxt[] slots never reach the output: (a) every load of nxt[e] is preceded on every path by an edge that
    implies chk[e] != 0 or by a store to nxt[e], with e unchanged in between; (b) every store to chk[e] is paired with a
    store to nxt[e] (reviewed markers excepted); (c) every (re)allocation of chk is followed by a zero fill of the new
    region before chk is used.
R6  slot 0 of 1-based heap arrays: every global array allocated with a non-zeroing allocator that some function reads at
    index 0 (constant 0, a counter starting at 0, a parameter a caller passes 0 for) has a store to slot 0 in code that runs
    earlier in flex_main's call order and under option tests the reader is also under.  Unclassifiable indices are exit 2.
R7  union member discipline: for every union whose members differ in size (today: union dfaacc_union), a load through a
    member wider than another stored member is under the option tests common to all stores of that member (derived from
    the IR: dfaacc_set <-> reject), or follows a store of it to the same element.
R8  a new element initialises its whole family: for every capacity family of C16.R8 the element counter K is the global
    compared with the capacity in the growth test; each function that does K = K + 1 stores G[new K] for every array G of
    the family on every returning path (on the paths of the mode in which G is read, when all reads of G share option
    tests), directly, through a local copy of K, or through a direct callee; arrays filled later are reasoned exemptions.
R9  local heap arrays are read only where they were written: for every local pointer that only ever holds malloc-style
    blocks, a forward must-analysis collects the written indices (points: constants / globals / a counter after its loop =
    bound + 1; ranges: fill loops for i = a..b); every read with a decidable index must be inside them on every path.
R10 element-initialising loops store before they load: for every array from malloc/realloc/allocate_array that a counter
    loop of the same function fills, the first access to each field of the element of an iteration is a store on every path
    from the top of the loop body (the load of a |= / += / ++ is a read of uninitialised memory).
R5  the output location does not influence the content: env.use_stdout steers only the freopen decision in
    check_options() and one letter of the -v statistics on stderr.
"""
import re
import ir, flow
from ir import Resolver
from common import where, fwhere
from genutil import (edge_dominates, fns, srcfile, cls, const_str, cstring, lin, array_len, branch_edges, truth_edges, selftest_program,
                     Collect, expect_control, reach_fns, mod_globals, is_elem_of_global)
import c17

def key(rule, f, construct):
    return '%s:%s:%s:%s' % (rule, srcfile(f), f.name, construct)

def ordinal(call):
    k = 0
    for x in call.fn.ins:
        if x is call: return k
        if x.op == call.op and x.callee == call.callee: k += 1
    return k

# ================================================================ R1

NONDET = ('time', 'clock', 'gettimeofday', 'clock_gettime', 'times', 'ftime', 'getrusage', 'localtime', 'localtime_r', 'gmtime', 'gmtime_r',
          'ctime', 'ctime_r', 'asctime', 'strftime', 'mktime',
          'rand', 'random', 'srand', 'srandom', 'rand_r', 'drand48', 'lrand48', 'mrand48', 'erand48', 'arc4random', 'arc4random_uniform',
          'getrandom', 'getentropy',
          'getpid', 'getppid', 'getpgrp', 'getuid', 'geteuid', 'getgid', 'getlogin', 'gethostname', 'uname', 'ttyname', 'getcwd', 'get_current_dir_name', 'realpath',
          'tmpnam', 'tmpnam_r', 'tempnam', 'mktemp', 'mkstemp', 'mkostemp', 'mkdtemp', 'tmpfile',
          'opendir', 'readdir', 'readdir_r', 'scandir', 'glob', 'ftw', 'nftw')
GETENV_OK = {'M4': 'selects the m4 binary the output is piped through (documented)', 'POSIXLY_CORRECT': 'documented switch to --posix-compat'}
PID_SOURCES = ('fork', 'vfork', 'wait', 'waitpid', 'wait3', 'wait4')
PRINTF_FMT = {'printf': 0, 'fprintf': 1, 'sprintf': 1, 'snprintf': 2, 'vprintf': 0, 'vfprintf': 1, 'vsprintf': 1, 'vsnprintf': 2, 'dprintf': 1, 'asprintf': 1,
              '__printf_chk': 1, '__fprintf_chk': 2, '__snprintf_chk': 4, '__vsnprintf_chk': 4}
PCT_P = re.compile(r'%[-+ #0]*(\*|\d+)?(\.(\*|\d+))?(hh|h|ll|l|j|z|t|L)?p')

def format_wrappers(prog):
    """{function name: parameter index} for functions that forward a parameter to the format position of a printf-style
    call (out_dec, lerr, format_synerr, buf_prints ...), by fixpoint"""
    w = dict(PRINTF_FMT)
    changed = True
    while changed:
        changed = False
        for f in fns(prog):
            if f.name in w: continue
            res = Resolver(f)
            for x in f.ins:
                if x.op != 'call' or x.callee not in w or len(x.ops) <= w[x.callee]: continue
                d = f.def_of(flow.strip_casts(f, x.ops[w[x.callee]]))
                if d is not None and d.op == 'load':
                    l = res.loc(d.ops[0])
                    if l[0] == 'local' and l[1].endswith('.addr') and f.is_param(l[1][:-5]):
                        w[f.name] = [i for i, (_, nm) in enumerate(f.params) if nm == l[1][:-5]][0]; changed = True; break
    return w

def format_strings(prog, f, v, res, depth=0):
    """list of (string | None) a format argument can be: literal, gettext(literal), a local pointer assigned literals"""
    s = const_str(f, v)
    if s is not None: return [s]
    d = f.def_of(flow.strip_casts(f, v))
    if d is not None and d.op == 'load' and depth < 2:
        l = res.loc(d.ops[0])
        if l[0] == 'local' and not (l[1].endswith('.addr') and f.is_param(l[1][:-5])):
            out = []
            for st in f.ins:
                if st.op == 'store' and res.loc(st.ops[1]) == l: out += format_strings(prog, f, st.ops[0], res, depth + 1)
            return out or [None]
    if d is not None and d.op in ('select', 'phi'):
        out = []
        for o in (d.ops[1:] if d.op == 'select' else d.ops): out += format_strings(prog, f, o, res, depth + 1)
        return out
    return [None]

# formats that are not literals, reviewed: function -> reason
DYNAMIC_FORMAT_OK = {
    'filter_fix_linedirs': 'ctrl.traceline_template: the #line template of the selected skeleton (compiled-in text, checked below for %p)',
    'context_member': 'M4_PROPERTY_*CONTEXT_FORMAT property of the selected skeleton (compiled-in text, checked below for %p)',
}

def r1(prog, rep, getenv_ok=GETENV_OK, dyn_ok=DYNAMIC_FORMAT_OK):
    n = 0
    live = reach_fns(prog, ['main'])
    # ---- census
    hits = [x for f in fns(prog) for x in f.ins if x.op in ('call', 'invoke') and x.callee in NONDET]
    n += 1
    for x in hits:
        rep.fail('C18.R1', key('C18.R1', x.fn, 'call:%s' % x.callee), where(x), '%s() calls %s(): its result differs from run to run, so nothing derived from it may reach the generated files' % (x.fn.name, x.callee))
    if not hits: rep.ok('C18.R1', 'census: none of %d time/random/pid/tempname/directory functions is called in %d functions' % (len(NONDET), len(fns(prog))))
    # ---- getenv
    for f in fns(prog):
        for x in f.ins:
            if x.op != 'call' or x.callee not in ('getenv', 'secure_getenv'): continue
            n += 1
            s = const_str(f, x.ops[0])
            if s is None: rep.fail('C18.R1', key('C18.R1', f, 'getenv:dynamic'), where(x), 'getenv() with a computed name in %s' % f.name)
            elif s in getenv_ok: rep.ok('C18.R1', 'getenv("%s") in %s@%s: %s' % (s, f.name, x.line, getenv_ok[s]))
            elif f.name not in live: rep.ok('C18.R1', 'getenv("%s") in %s@%s: function is not reachable from main()' % (s, f.name, x.line))
            else: rep.fail('C18.R1', key('C18.R1', f, 'getenv:%s' % s), where(x), '%s() consults the environment variable %s, which is not one of the documented inputs (%s)' % (f.name, s, ', '.join(sorted(getenv_ok))))
    # ---- %p
    w = format_wrappers(prog)
    nf = 0; dyn = {}
    for f in fns(prog):
        res = Resolver(f)
        for x in f.ins:
            if x.op != 'call' or x.callee not in w or len(x.ops) <= w[x.callee]: continue
            if f.name in w:
                d = f.def_of(flow.strip_casts(f, x.ops[w[x.callee]]))
                if d is not None and d.op == 'load' and res.loc(d.ops[0]) == ('local', f.params[w[f.name]][1] + '.addr'): continue     # the wrapper itself
            for s in format_strings(prog, f, x.ops[w[x.callee]], res):
                nf += 1
                if s is None: dyn.setdefault(f.name, x)
                elif PCT_P.search(s):
                    rep.fail('C18.R1', key('C18.R1', f, 'format-%%p:%s#%d' % (x.callee, ordinal(x))), where(x), 'format string %r passed to %s() prints a pointer value' % (s[:60], x.callee))
    n += 1
    rep.ok('C18.R1', '%d literal format strings reach %d printf-style functions/wrappers: none contains a %%p conversion' % (nf - len(dyn), len(w)))
    for fname, x in sorted(dyn.items()):
        n += 1
        if fname in dyn_ok: rep.ok('C18.R1', 'computed format in %s@%s: %s' % (fname, x.line, dyn_ok[fname]))
        else: rep.fail('C18.R1', key('C18.R1', x.fn, 'format-dynamic:%s' % x.callee), where(x), 'the format string of %s() in %s is not a literal; it cannot be checked for %%p' % (x.callee, fname))
    # skeleton text (the source of the reviewed computed formats) has no %p conversion in a FORMAT property line
    bad = []
    cnt = 0
    for m in prog.modules:
        for g in m.globals.values():
            if g.init is not None and g.init[0] == 'cstr' and 'FORMAT' in g.init[1] and 'm4_define' in g.init[1]:
                cnt += 1
                if PCT_P.search(g.init[1]): bad.append(g)
    if dyn:
        n += 1
        if bad: rep.fail('C18.R1', 'C18.R1:skeletons:format-property:%p', 'skeleton', 'a *_FORMAT property of a skeleton contains %%p: %r' % bad[0].init[1][:80])
        elif cnt == 0: rep.fail('C18.R1', 'C18.R1:skeletons:format-property:missing', 'skeleton', 'no *_FORMAT property lines found in the compiled-in skeletons')
        else: rep.ok('C18.R1', '%d *_FORMAT property lines of the compiled-in skeletons: no %%p' % cnt)
    # ---- pids only compared
    for f in fns(prog):
        res = Resolver(f)
        for x in f.ins:
            if x.op != 'call' or x.callee not in PID_SOURCES: continue
            n += 1
            bad = pid_escape(f, x, res)
            if bad is None: rep.ok('C18.R1', '%s: result of %s()@%s is only compared' % (f.name, x.callee, x.line))
            else: rep.fail('C18.R1', key('C18.R1', f, 'pid:%s' % x.callee), where(bad), 'the process id returned by %s() in %s is used by `%s`, not only in comparisons' % (x.callee, f.name, bad.op))
    return n

def pid_escape(f, call, res):
    """first use of the call result (directly or through the locals it is stored to) that is not a comparison"""
    uses = f.uses(); work = [call.res]; seen = set(); locs = set()
    while work:
        r = work.pop()
        if r in seen or r is None: continue
        seen.add(r)
        for u in uses.get(r, []):
            if u.op in ('icmp',): continue
            if u.op in ('sext', 'zext', 'trunc'): work.append(u.res)
            elif u.op == 'store' and u.ops[0] == ('reg', r):
                l = res.loc(u.ops[1])
                if l[0] != 'local': return u
                if l not in locs:
                    locs.add(l)
                    for y in f.ins:
                        if y.op == 'load' and res.loc(y.ops[0]) == l: work.append(y.res)
            else: return u
    return None

# ================================================================ R2

def r2(prog, rep):
    n = 0
    tot = 0
    for f in fns(prog):
        uses = f.uses()
        pts = [x for x in f.ins if x.op == 'ptrtoint']
        if not pts: continue
        n += 1; tot += len(pts)
        bad = None
        for x in pts:
            for u in uses.get(x.res, []):
                if u.op != 'sub': bad = (x, u, 'is used by `%s`' % u.op); break
                o = [f.def_of(a) for a in u.ops]
                if not all(d is not None and d.op == 'ptrtoint' for d in o): bad = (x, u, 'is subtracted from a non-address'); break
            if not uses.get(x.res): bad = bad or None
            if bad: break
        if bad: rep.fail('C18.R2', key('C18.R2', f, 'ptrtoint'), where(bad[1]), 'an address converted to an integer in %s %s: only pointer differences are layout independent' % (f.name, bad[2]))
        else: rep.ok('C18.R2', '%s: %d ptrtoint, all operands of pointer differences' % (f.name, len(pts)))
    # comparators handed to qsort / bsearch
    cmps = set()
    for f in fns(prog):
        for x in f.ins:
            if x.op == 'call' and x.callee in ('qsort', 'bsearch', 'qsort_r'):
                a = x.ops[3] if x.callee != 'bsearch' else x.ops[4]
                a = flow.strip_casts(f, a)
                if a[0] == 'glob': cmps.add(a[1])
                else:
                    n += 1; rep.fail('C18.R2', key('C18.R2', f, 'comparator-dynamic'), where(x), '%s() sorts with a comparator that is not a named function' % f.name)
    for c in sorted(cmps):
        g = prog.fn(c); n += 1
        if g is None: rep.fail('C18.R2', 'C18.R2:?:%s:comparator' % c, c, 'comparator %s is not defined in flex' % c); continue
        bad = [x for x in g.ins if x.op in ('ptrtoint',) or (x.op == 'icmp' and x.ty is not None and x.ty.k == 'ptr')
               or (x.op in ('call', 'invoke') and not (isinstance(x.callee, str) and x.callee.startswith('llvm.')))]
        if bad: rep.fail('C18.R2', key('C18.R2', g, 'comparator'), where(bad[0]), 'sort comparator %s() compares addresses or calls out (`%s`): the order would depend on the heap layout' % (c, bad[0].op))
        else: rep.ok('C18.R2', 'comparator %s: compares loaded values only' % c)
    rep.note('C18.R2: %d ptrtoint instructions in flex' % tot)
    return n

# ================================================================ R3

def r3(prog, rep, anchors=True):
    """bucket arrays: globals of type [N x struct hash_entry*]"""
    n = 0
    tables = []
    for m in prog.modules:
        for g in m.globals.values():
            if g.ty is not None and g.ty.k == 'arr' and g.ty.b.k == 'ptr' and g.ty.b.a.k == 'named' and g.ty.b.a.a in ('struct.hash_entry',) and not g.external:
                tables.append((m, g))
    if anchors and len(tables) < 3: rep.broken('C18.R3: only %d hash bucket arrays found (ndtbl, sctbl, ccltab expected)' % len(tables))
    def hashed(f, v, res, depth=0):
        """index value v is a hashfunct() result (directly, through casts, or through a local assigned only such results)"""
        d = f.def_of(flow.int_origin(f, v))
        if d is None: return False
        if d.op == 'call': return d.callee == 'hashfunct'
        if d.op in ('urem', 'and') and depth < 3: return hashed(f, d.ops[0], res, depth + 1)      # hashfunct(..) % size is still a function of the name
        if d.op == 'load' and depth < 2:
            l = res.loc(d.ops[0])
            if l[0] != 'local': return False
            st = [x for x in f.ins if x.op == 'store' and res.loc(x.ops[1]) == l]
            return bool(st) and all(hashed(f, x.ops[0], res, depth + 1) for x in st)
        return False
    # table parameters: (function, param index) reached from the globals through call arguments
    tparams = set(); work = []
    for m, g in tables:
        for f in m.functions.values():
            res = Resolver(f)
            for x in f.ins:
                for oi, o in enumerate(x.ops):
                    if not isinstance(o, tuple) or g.name not in set(ir.globs_in(o)): continue
                    n += 1
                    kk = key('C18.R3', f, '%s:%s' % (g.name, x.op if x.op != 'call' else 'arg:' + str(x.callee)))
                    if x.op == 'call' and isinstance(x.callee, str) and prog.fn(x.callee) is not None:
                        if (x.callee, oi) not in tparams: tparams.add((x.callee, oi)); work.append((x.callee, oi))
                        rep.ok('C18.R3', '%s passes %s to %s() as a table' % (f.name, g.name, x.callee))
                    elif x.op == 'getelementptr' and o == x.ops[0] and len(x.ops) == 3 and x.ops[1] == ('int', 0) and hashed(f, x.ops[2], res):
                        rep.ok('C18.R3', '%s indexes %s by hashfunct()@%s' % (f.name, g.name, x.line))
                    elif o[0] == 'cgep' and x.op in ('load', 'store', 'getelementptr'):
                        rep.fail('C18.R3', kk, where(x), '%s() accesses %s at a fixed / computed bucket index, not through hashfunct(): walking the buckets makes the output depend on the hash layout' % (f.name, g.name))
                    else:
                        rep.fail('C18.R3', kk, where(x), '%s() uses the bucket array %s other than by indexing it with hashfunct() (`%s`): buckets must never be enumerated' % (f.name, g.name, x.op))
    while work:
        fname, pi = work.pop()
        f = prog.fn(fname); res = Resolver(f)
        pn = f.params[pi][1]; slot = ('local', pn + '.addr')
        uses = f.uses()
        for x in f.ins:
            if x.op != 'load' or res.loc(x.ops[0]) != slot: continue
            for u in uses.get(x.res, []):
                n += 1
                kk = key('C18.R3', f, 'table-param:%s' % pn)
                if u.op == 'getelementptr' and u.ops[0] == ('reg', x.res) and len(u.ops) == 2 and hashed(f, u.ops[1], res):
                    rep.ok('C18.R3', '%s indexes its table parameter by hashfunct()@%s' % (f.name, u.line))
                elif u.op == 'call' and isinstance(u.callee, str) and prog.fn(u.callee) is not None:
                    oi = u.ops.index(('reg', x.res))
                    if (u.callee, oi) not in tparams: tparams.add((u.callee, oi)); work.append((u.callee, oi))
                    rep.ok('C18.R3', '%s hands its table parameter to %s()' % (f.name, u.callee))
                else:
                    rep.fail('C18.R3', kk, where(u), '%s() uses its hash-table parameter other than by indexing it with hashfunct() (`%s`)' % (f.name, u.op))
        for x in f.ins:
            if x.op == 'store' and res.loc(x.ops[1]) == slot and x.ops[0] != ('reg', pn):
                n += 1; rep.fail('C18.R3', key('C18.R3', f, 'table-param-reassigned:%s' % pn), where(x), '%s() reassigns its hash-table parameter' % f.name)
    return n

# ================================================================ R4

def elem_access(f, ptr, res):
    """(global name, index value) if ptr designates g[idx] with g one of the int* table globals, else None"""
    d = f.def_of(flow.strip_casts(f, ptr))
    if d is None or d.op != 'getelementptr' or len(d.ops) != 2: return None
    b = f.def_of(flow.strip_casts(f, d.ops[0]))
    if b is None or b.op != 'load': return None
    l = res.loc(b.ops[0])
    if l[0] != 'global': return None
    return (l[1], d.ops[1])

def idx_key(f, v, res):
    """canonical key of an index expression: frozenset of (atom, coeff), atoms are loads of named locations; None if not so"""
    li = lin(f, v, res)
    if li is None: return None
    for a in li:
        if a != 1 and (a[0] != 'load' or a[1][0] not in ('local', 'global')): return None
    return frozenset(li.items())

def key_leaves(k):
    return {a[1] for a, _ in k if a != 1}

def key_str(k):
    parts = []
    for a, c in sorted(k, key=str):
        if a == 1: parts.append(str(c))
        else: parts.append(a[1][1] if c == 1 else '%d*%s' % (c, a[1][1]))
    return '+'.join(parts) or '0'

def nxt_reader_check(prog, f, rep, rule='C18.R4', NXT='nxt', CHK='chk'):
    """forward must-analysis over f; returns number of nxt[] loads examined"""
    res = Resolver(f)
    cfg = prog.cfg(f)
    blocks = [b for b in f.blocks]
    # per-instruction effects
    def transfer(state, x):
        if x.op == 'store':
            l = flow._freeze(res.loc(x.ops[1]))
            state = {k for k in state if l not in key_leaves(k)}
            ea = elem_access(f, x.ops[1], res)
            if ea is not None and ea[0] == NXT:
                k = idx_key(f, ea[1], res)
                if k is not None: state = state | {k}
        elif x.op in ('call', 'invoke') and isinstance(x.callee, str) and prog.fn(x.callee) is not None:
            mg = mod_globals(prog, x.callee)
            state = {k for k in state if not any(l[0] == 'global' and l[1] in mg for l in key_leaves(k))}
        return state
    def edge_gen(b, t):
        """keys e for which the edge b->t implies chk[e] != 0"""
        br = b.ins[-1]
        if br.op != 'br' or len(br.targets) != 2 or br.targets[0] == br.targets[1]: return set()
        be = branch_edges(f, br)
        if be is None: return set()
        ic, tl, fl = be
        if ic.pred not in ('eq', 'ne') or ic.ops[1][0] != 'int': return set()
        c = ic.ops[1][1]
        d = f.def_of(flow.int_origin(f, ic.ops[0]))
        if d is None or d.op != 'load': return set()
        ea = elem_access(f, d.ops[0], res)
        if ea is None or ea[0] != CHK: return set()
        k = idx_key(f, ea[1], res)
        if k is None: return set()
        # nothing between the chk load and the branch may change the index
        if d.blk is not b: return set()
        for y in b.ins[d.idx + 1:]:
            if y.op == 'store' and flow._freeze(res.loc(y.ops[1])) in key_leaves(k): return set()
            if y.op in ('call', 'invoke'): return set()
        nonzero_label = (tl if c != 0 else fl) if ic.pred == 'eq' else (fl if c != 0 else tl)
        return {k} if t.name == nonzero_label else set()
    IN = {b: None for b in blocks}; IN[f.entry] = set()
    OUT = {}
    work = [f.entry]
    while work:
        b = work.pop()
        st = set(IN[b])
        n_live = cfg._live_len(b)
        for x in b.ins[:n_live]: st = transfer(st, x)
        OUT[b] = st
        for t in cfg.succ[b]:
            new = st | edge_gen(b, t)
            if IN[t] is None: IN[t] = set(new); work.append(t)
            else:
                m = IN[t] & new
                if m != IN[t]: IN[t] = m; work.append(t)
    n = 0
    for b in blocks:
        if IN[b] is None: continue
        st = set(IN[b])
        for x in b.ins[:cfg._live_len(b)]:
            if x.op == 'load':
                ea = elem_access(f, x.ops[0], res)
                if ea is not None and ea[0] == NXT:
                    n += 1
                    k = idx_key(f, ea[1], res)
                    ordn = sum(1 for y in f.ins if y.op == 'load' and elem_access(f, y.ops[0], res) is not None and elem_access(f, y.ops[0], res)[0] == NXT
                               and (f.blocks.index(y.blk), y.idx) < (f.blocks.index(x.blk), x.idx))
                    kk = key(rule, f, '%s-load#%d' % (NXT, ordn))
                    if k is None:
                        rep.fail(rule, kk, where(x), '%s[...] is read in %s with an index that is not a sum of named variables; it cannot be related to a chk[] test' % (NXT, f.name))
                    elif k in st:
                        rep.ok(rule, '%s: %s[%s]@%s is read only after chk[%s] != 0 or %s[%s] = ... on every path' % (f.name, NXT, key_str(k), x.line, key_str(k), NXT, key_str(k)))
                    else:
                        p = cfg.path(f.entry.ins[0], lambda y: y is x, include_start=True)
                        rep.fail(rule, kk, where(x), '%s[%s] is read in %s on a path where neither chk[%s] != 0 has been established nor %s[%s] assigned: an unused slot holds '
                                 'whatever realloc() left there, so the generated table would differ from run to run' % (NXT, key_str(k), f.name, key_str(k), NXT, key_str(k)),
                                 witness=['%s:%s' % (y.blk.name, y.line) for y in (p or [])][-8:])
            st = transfer(st, x)
    return n

# stores to chk[e] that are deliberately not paired with a store to nxt[e]:  (function, stored constant) -> reason
CHK_MARKERS = {
    ('place_state', 1): 'occupancy markers for find_table_space(); both slots are rewritten by genctbl()/mkctbl() (EOB_POSITION / ACTION_POSITION, the latter with nxt assigned) before the table is printed',
    ('genctbl', -1): 'EOB_POSITION: printed by the first arm of the dump loop, which does not read nxt[i]',
    ('mkctbl', -1): 'EOB_POSITION: printed by the first arm of the dump loop, which does not read nxt[i]',
}

def chk_writer_check(prog, rep, markers=CHK_MARKERS, rule='C18.R4'):
    n = 0
    for f in fns(prog):
        res = Resolver(f)
        sts = [(x, elem_access(f, x.ops[1], res)) for x in f.ins if x.op == 'store']
        cs = [(x, ea) for x, ea in sts if ea is not None and ea[0] == 'chk']
        ns = [(x, ea) for x, ea in sts if ea is not None and ea[0] == 'nxt']
        for x, ea in cs:
            n += 1
            k = idx_key(f, ea[1], res)
            ordn = [y for y, _ in cs].index(x)
            kk = key(rule, f, 'chk-store#%d' % ordn)
            pair = None
            for y, eb in ns:
                if y.blk is not x.blk or idx_key(f, eb[1], res) != k or k is None: continue
                lo, hi = (x, y) if x.idx < y.idx else (y, x)
                if any(z.op == 'store' and flow._freeze(res.loc(z.ops[1])) in key_leaves(k) for z in x.blk.ins[lo.idx + 1:hi.idx]): continue
                pair = y; break
            if pair is not None:
                rep.ok(rule, '%s: chk[%s]@%s is paired with nxt[%s]@%s' % (f.name, key_str(k), x.line, key_str(k), pair.line))
            elif x.ops[0][0] == 'int' and (f.name, x.ops[0][1]) in markers:
                rep.ok(rule, '%s: chk[%s] = %d @%s is a reviewed marker: %s' % (f.name, key_str(k) if k else '?', x.ops[0][1], x.line, markers[(f.name, x.ops[0][1])]))
            else:
                rep.fail(rule, kk, where(x), '%s() marks chk[%s] as used without assigning nxt[%s] next to it: the readers treat chk != 0 as "nxt is defined"' % (f.name, key_str(k) if k else '?', key_str(k) if k else '?'))
    return n

def zero_fill_check(prog, rep, rule='C18.R4', anchors=True):
    """every store to the global pointer chk is an allocation whose new region is zeroed before chk[] is used"""
    n = 0
    touchers = {}     # function -> uses chk elements / pointer
    for f in fns(prog):
        res = Resolver(f)
        if any(x.op == 'load' and res.loc(x.ops[0]) == ('global', 'chk') for x in f.ins): touchers[f.name] = f
    for f in fns(prog):
        res = Resolver(f); cfg = prog.cfg(f)
        for s in f.ins:
            if s.op != 'store' or res.loc(s.ops[1]) != ('global', 'chk'): continue
            n += 1
            kk = key(rule, f, 'chk-alloc')
            a = f.def_of(flow.strip_casts(f, s.ops[0]))
            if a is None or a.op != 'call' or a.callee not in ('allocate_array', 'reallocate_array', 'calloc', 'malloc', 'realloc'):
                rep.fail(rule, kk, where(s), '%s() assigns chk from something other than an allocation' % f.name); continue
            if a.callee == 'calloc':
                rep.ok(rule, '%s: chk allocated with calloc@%s' % (f.name, s.line)); continue
            grows = a.callee in ('reallocate_array', 'realloc') and a.ops[0] != ('null',)
            if grows:
                # memset(chk + old, 0, inc * sizeof(int)) on every path to the return, old = size before, inc = growth
                ms = [x for x in cfg.reach(s) if x.op == 'call' and x.callee.startswith('llvm.memset') and x.ops[1] == ('int', 0)]
                good = None
                for m_ in ms:
                    d = f.def_of(flow.strip_casts(f, m_.ops[0]))
                    if d is None or d.op != 'getelementptr' or len(d.ops) != 2: continue
                    b = f.def_of(flow.strip_casts(f, d.ops[0]))
                    if b is None or b.op != 'load' or res.loc(b.ops[0]) != ('global', 'chk') or not cfg.ins_dominates(s, b): continue
                    # offset: a local that holds the old capacity (loaded from the capacity global before it was increased)
                    off = f.def_of(flow.int_origin(f, d.ops[1]))
                    if off is None or off.op != 'load' or res.loc(off.ops[0])[0] != 'local': continue
                    ost = [x for x in f.ins if x.op == 'store' and res.loc(x.ops[1]) == res.loc(off.ops[0])]
                    if len(ost) != 1: continue
                    cap = f.def_of(flow.int_origin(f, ost[0].ops[0]))
                    if cap is None or cap.op != 'load' or res.loc(cap.ops[0])[0] != 'global': continue
                    capg = res.loc(cap.ops[0])
                    incs = [x for x in f.ins if x.op == 'store' and res.loc(x.ops[1]) == capg]
                    if len(incs) != 1 or not cfg.ins_dominates(ost[0], incs[0]) or not cfg.ins_dominates(incs[0], a): continue
                    li = lin(f, incs[0].ops[0], res)
                    if li is None or li.get(('load', flow._freeze(capg))) != 1 or set(li) - {1, ('load', flow._freeze(capg))}: continue
                    inc = li.get(1, 0)
                    # the allocation is sized by the new capacity
                    if lin(f, a.ops[1], res) != {('load', flow._freeze(capg)): 1}: continue
                    ln = m_.ops[2]
                    if ln[0] != 'int' or ln[1] != inc * 4 or inc <= 0: continue
                    if any(y.op == 'ret' for y in cfg.reach(s, avoid=[m_])): continue
                    good = (m_, capg[1], inc); break
                if good: rep.ok(rule, '%s: chk grown by %d entries (%s) and memset(chk + old, 0, %d)@%s on every returning path' % (f.name, good[2], good[1], good[2] * 4, good[0].line))
                else: rep.fail(rule, kk, where(s), '%s() grows chk[] without zeroing exactly the new region (memset(chk + old_size, 0, increment * sizeof(int))) on every returning path: '
                               'the new chk entries would be garbage and unused slots would look used' % f.name)
            else:
                # initial allocation: a function Z that zeroes the whole array must run before any other use of chk
                z = full_zero_fn(prog)
                if z is None:
                    rep.fail(rule, kk, where(s), 'chk is allocated uninitialised in %s() and no function zeroes the whole array (memset(chk, 0, capacity * sizeof(int)))' % f.name); continue
                zf, m_ = z
                problems = init_order_problems(prog, f, zf, touchers)
                if problems: rep.fail(rule, kk, where(s), 'chk is allocated uninitialised in %s(); %s' % (f.name, '; '.join(problems)))
                else: rep.ok(rule, '%s: chk allocated uninitialised@%s; %s() zeroes all of it (memset@%s) before any other function touches chk[]' % (f.name, s.line, zf.name, m_.line))
    return n

def full_zero_fn(prog):
    for f in fns(prog):
        res = Resolver(f); cfg = prog.cfg(f)
        for m_ in f.ins:
            if m_.op != 'call' or not str(m_.callee).startswith('llvm.memset') or m_.ops[1] != ('int', 0): continue
            b = f.def_of(flow.strip_casts(f, m_.ops[0]))
            if b is None or b.op != 'load' or res.loc(b.ops[0]) != ('global', 'chk'): continue
            li = lin(f, m_.ops[2], res)
            if li == {('load', ('global', 'current_max_xpairs')): 4} and not any(y.op == 'ret' for y in cfg.reach_from_block(f.entry, avoid=[m_])):
                return (f, m_)
    return None

def init_order_problems(prog, alloc_fn, zf, touchers):
    """in flex_main the allocation runs first; every function that touches chk (other than the allocator and the zeroing
    function) is reachable only from calls that the call leading to zf dominates, and not before it"""
    problems = []
    fm = prog.fn('flex_main')
    if fm is None: return ['flex_main() not found']
    cfg = prog.cfg(fm)
    others = {n for n in touchers if n not in (alloc_fn.name, zf.name)}
    # the direct call in flex_main (or its callee chain) that leads to zf
    top = [x for x in fm.ins if x.op == 'call' and isinstance(x.callee, str) and zf.name in reach_fns(prog, [x.callee])]
    if len(top) != 1: return ['%d calls in flex_main() lead to %s()' % (len(top), zf.name)]
    top = top[0]
    for x in fm.ins:
        if x.op != 'call' or not isinstance(x.callee, str) or x is top: continue
        r = reach_fns(prog, [x.callee])
        hit = sorted(others & r)
        if hit and not cfg.ins_dominates(top, x):
            problems.append('%s() (reached from %s() in flex_main) touches chk[] but is not dominated by the call to %s() that runs %s()' % (hit[0], x.callee, top.callee, zf.name))
    # inside the callee that runs zf: the call to zf dominates every call that touches chk
    g = prog.fn(top.callee)
    if g is not None and g is not zf:
        c2 = prog.cfg(g)
        zc = [x for x in g.ins if x.op == 'call' and x.callee == zf.name]
        if len(zc) != 1: problems.append('%s() calls %s() %d times' % (g.name, zf.name, len(zc)))
        else:
            res = Resolver(g)
            if any(x.op == 'load' and res.loc(x.ops[0]) == ('global', 'chk') and not c2.ins_dominates(zc[0], x) for x in g.ins):
                problems.append('%s() uses chk before calling %s()' % (g.name, zf.name))
            for x in g.ins:
                if x.op == 'call' and isinstance(x.callee, str) and x is not zc[0] and (others | {g.name}) & (reach_fns(prog, [x.callee]) - {g.name}) and not c2.ins_dominates(zc[0], x):
                    problems.append('%s() calls %s(), which touches chk[], before %s()' % (g.name, x.callee, zf.name))
    return sorted(set(problems))

def r4(prog, rep, anchors=True):
    n = 0
    readers = 0
    for f in fns(prog):
        res = Resolver(f)
        if any(x.op == 'load' and (elem_access(f, x.ops[0], res) or (None,))[0] == 'nxt' for x in f.ins):
            readers += 1
            n += nxt_reader_check(prog, f, rep)
    if anchors and readers < 3: rep.broken('C18.R4: only %d functions read nxt[] (gentabs, genctbl, mkctbl expected)' % readers)
    n += chk_writer_check(prog, rep)
    n += zero_fill_check(prog, rep, anchors=anchors)
    return n

# ================================================================ R5

def _check_options_effects(prog, f, ins):
    """the reviewed effects of the `if (!env.use_stdout)` arm of check_options(): choose the file name, reopen stdout on it,
    remember that a file was created, refuse if that fails"""
    res = Resolver(f)
    if ins.op == 'store':
        c = cls(prog, res.loc(ins.ops[1]))
        return c in (('field', 'env_bundle_t', 'outfilename'), ('global', 'outfile_created'))
    if ins.op == 'call':
        if ins.callee in ('freopen', 'suffix', 'lerr'): return True
        if ins.callee == 'snprintf':
            al = array_len(f, ins.ops[0]); return al is not None and al[2] == ('global', 'outfile_path')
    return False

USE_STDOUT_READERS = {'check_options': {'allow': _check_options_effects}, 'flexend': 'the -v statistics printer'}

def r5(prog, rep, readers=USE_STDOUT_READERS):
    return c17.who_reads(prog, rep, 'C18.R5', ('env_bundle_t', 'use_stdout'), readers, 'writing to stdout instead of a file must not change what is written')

EMITTERS = ('out', 'outn', 'outc', 'out_str', 'out_dec', 'out_hex', 'out_str3', 'out_str_dec', 'out_line_count', 'out_m4_define', 'line_directive_out',
            'comment', 'visible_define', 'visible_define_str', 'visible_define_int', 'skelout', 'fputs', 'fprintf', 'fputc', 'putc', 'puts', 'printf', 'fwrite', 'add_action')

def r5b(prog, rep):
    """R5b: whether an output *name* was given (env.did_outfilename) picks the file to open; it may steer an emission only
    before the first skelout() (where the line-directive hook is still undefined and the emission expands to nothing).
    An emission under that flag after output has begun makes `-o FILE` differ from `-t` beyond the file names."""
    n = 0
    FLD = ('field', 'env_bundle_t', 'did_outfilename')
    for f in fns(prog):
        res = Resolver(f)
        loads = [x for x in f.ins if x.op == 'load' and ir.loc_class(res.loc(x.ops[0])) == FLD]
        if not loads: continue
        cfgu = prog.cfg(f, cut=False); cfg = prog.cfg(f)
        skel = [c for c in f.ins if c.op == 'call' and c.callee == 'skelout']
        after_skel = set()
        for c in skel: after_skel |= cfg.reach(c)
        for b in f.blocks:
            deps = cfgu.control_deps_closure(b)
            ctl = [br for br, t in deps if any(d in loads for d in flow.value_slice(f, br.ops[0]) if br.ops)]
            if not ctl: continue
            for x in b.ins:
                if x.op == 'call' and x.callee in EMITTERS:
                    # writes to stderr are diagnostics, not output
                    if x.callee in ('fprintf', 'fputs', 'fputc', 'putc', 'fwrite') and any(isinstance(o, tuple) and 'stderr' in set(ir.globs_in(o)) | {d.ops[0][1] for d in [f.def_of(o)] if d is not None and d.op == 'load' and d.ops[0][0] == 'glob'} for o in x.ops):
                        continue
                    n += 1
                    if x in after_skel:
                        rep.fail('C18.R5', key('C18.R5', f, 'did_outfilename:%s#%d' % (x.callee, ordinal(x))), where(x),
                                 '%s() is executed only when an output file name was given (env.did_outfilename) and after skeleton output has begun: '
                                 'the scanner written with -o FILE then differs from the one written with -t by more than the #line file names' % x.callee,
                                 replay_input='flex -t x.l > a.c ; flex -o b.c x.l ; compare ignoring the names in #line')
                    else:
                        rep.ok('C18.R5', '%s: %s() under env.did_outfilename precedes the first skelout(): the line-directive hook is not defined yet' % (where(x), x.callee))
    return n

# ================================================================ R6  slot 0 of heap arrays

# flex (re)allocates its tables with realloc-style functions (uninitialised memory) and indexes most of them from 1.
# Wherever a function reads such an array at index 0 - by a constant, by a loop counter that starts at 0, or through a
# parameter some caller passes 0 for - slot 0 must have been stored by code that runs before and under the same options.
HEAP_ALLOCATORS = ('allocate_array', 'reallocate_array', 'malloc', 'realloc', 'reallocarray')
R6_COVERED_ELSEWHERE = {
    'chk': 'zero-filled after every (re)allocation: C18.R4(c)',
    'nxt': 'every load is preceded by a chk[e] != 0 edge or a store to nxt[e]: C18.R4(a)',
}

def heap_arrays(prog):
    """{global: [allocation store]} for global pointers assigned the result of a non-zeroing allocator"""
    out = {}; zeroed = set()
    for f in fns(prog):
        res = Resolver(f)
        for x in f.ins:
            if x.op != 'store': continue
            l = res.loc(x.ops[1])
            if l[0] != 'global': continue
            d = f.def_of(flow.strip_casts(f, x.ops[0]))
            if d is not None and d.op == 'call' and isinstance(d.callee, str):
                if d.callee in HEAP_ALLOCATORS: out.setdefault(l[1], []).append(x)
                elif d.callee == 'calloc': zeroed.add(l[1])
    return out

def heap_elem(f, ptr, res, arrays):
    """(global, index value) when ptr addresses G[idx] (optionally a member of that element), G a heap array"""
    v = flow.strip_casts(f, ptr)
    for _ in range(6):
        d = f.def_of(v)
        if d is None or d.op != 'getelementptr' or len(d.ops) < 2: return None
        b = f.def_of(flow.strip_casts(f, d.ops[0]))
        if b is not None and b.op == 'load':
            l = res.loc(b.ops[0])
            if l[0] == 'global' and l[1] in arrays: return (l[1], d.ops[1])
            return None
        if d.ops[1] == ('int', 0): v = flow.strip_casts(f, d.ops[0]); continue      # member of a struct/union element
        return None
    return None

def _index_leaves(f, v, res, depth=0, out=None):
    """leaves of an index expression: ('const',) ('counter', local) ('param', local) ('data', why)"""
    if out is None: out = []
    if depth > 30: out.append(('data', 'deep')); return out
    if v[0] == 'int': out.append(('const',)); return out
    d = f.def_of(v)
    if d is None: out.append(('data', 'value')); return out
    if d.op in ('sext', 'zext', 'trunc', 'add', 'sub', 'mul', 'shl'):
        for o in d.ops: _index_leaves(f, o, res, depth + 1, out)
    elif d.op == 'load':
        l = res.loc(d.ops[0])
        if l[0] == 'local' and l[1].endswith('.addr') and f.is_param(l[1][:-5]): out.append(('param', l))
        elif l[0] == 'local': out.append(('counter', l))
        else: out.append(('data', ir.loc_str(l)))
    else: out.append(('data', d.op))
    return out

def index_class(prog, f, idx, at, res):
    """('zero', how, events) | ('nonzero',) | ('data',) | ('unknown', why) for the index idx used at instruction `at`.
    events: for a parameter index, the call sites that pass the constant making it 0."""
    cfg = prog.cfg(f)
    leaves = _index_leaves(f, idx, res)
    if any(k[0] == 'data' for k in leaves): return ('data',)
    li = lin(f, idx, res)
    if li is None: return ('unknown', 'the index is not linear in its loop counters')
    k0 = li.get(1, 0); atoms = {a: c for a, c in li.items() if a != 1}
    if not atoms: return ('zero', 'constant index 0', None) if k0 == 0 else ('nonzero',)
    def local_defs(atom):
        """what reaches `at` for local atom: (constants, steps, data?, problem)"""
        v = atom[1]
        stores = [x for x in f.ins if x.op == 'store' and flow._freeze(res.loc(x.ops[1])) == v]
        consts = []; steps = []; data = False
        for st in stores:
            if st is at or at not in cfg.reach(st, avoid=[y for y in stores if y is not st and y is not at]): continue
            l2 = lin(f, st.ops[0], res)
            lv = _index_leaves(f, st.ops[0], res)
            if any(k[0] in ('data', 'param') for k in lv) or l2 is None: data = True
            elif set(l2) <= {1}: consts.append(l2.get(1, 0))
            elif set(l2) <= {1, atom} and l2.get(atom) == 1: steps.append(l2.get(1, 0))
            else:
                # assigned from other locals: data if any of them is data at that point
                sub = index_class(prog, f, st.ops[0], st, res)
                if sub[0] == 'data': data = True
                elif sub[0] == 'unknown': return (consts, steps, data, sub[1])
                elif sub[0] == 'zero': consts.append(0)
                else: consts.append(1)       # some value that is never 0
        allc = [z.get(1, 0) for z in (lin(f, y.ops[0], res) for y in stores) if z is not None and set(z) <= {1}]
        return (consts, steps, data, None, allc)
    if len(atoms) == 1 and list(atoms.values()) == [1]:
        atom = next(iter(atoms)); v = atom[1]
        if v[1].endswith('.addr') and f.is_param(v[1][:-5]):
            stores = [x for x in f.ins if x.op == 'store' and flow._freeze(res.loc(x.ops[1])) == v]
            if len(stores) != 1: return ('data',)
            pi = [i for i, (_, nm) in enumerate(f.params) if nm == v[1][:-5]][0]
            sites = [c for c in prog.callers(f.name) if len(c.ops) > pi and c.ops[pi][0] == 'int' and c.ops[pi][1] + k0 == 0]
            if sites: return ('zero', 'parameter %s is 0 at %s' % (v[1][:-5], where(sites[0])), sites)
            return ('data',)
    if any(a[1][1].endswith('.addr') and f.is_param(a[1][1][:-5]) for a in atoms): return ('data',)
    lo = k0; direct_zero = None; names = []
    for atom, coeff in atoms.items():
        d = local_defs(atom)
        if d[3]: return ('unknown', d[3])
        consts, steps, data, _, allc = d
        if data: return ('data',)
        if coeff < 0: return ('unknown', 'counter %s enters the index negatively' % atom[1][1])
        if any(st < 0 for st in steps): return ('unknown', 'counter %s is decremented' % atom[1][1])
        names.append(atom[1][1])
        # smallest value the counter can have here: a constant that reaches directly, or any start plus one step
        cand = list(consts) + ([min(allc) + min(steps)] if steps and allc else [])
        if not cand: return ('data',)
        lo += coeff * min(cand)
        if len(atoms) == 1 and any(c_ + k0 == 0 for c_ in consts): direct_zero = 'counter %s starts at %d' % (atom[1][1], -k0)
    if direct_zero: return ('zero', direct_zero, None)
    if lo > 0: return ('nonzero',)
    if lo == 0: return ('zero', 'counters %s start at values that add up to index 0' % '+'.join(names), None)
    return ('zero', 'index %s can start below 0 and is incremented' % '+'.join(names), None)

FLAG_STRUCTS = ('ctrl_bundle_t', 'env_bundle_t')

def flag_conditions(prog, f, ins, res):
    """(flags, other): flags = {(location class, polarity)} of mode tests that control ins - truth tests of an option
    field or of a global scalar/pointer (reject, tablesext, nultrans ...); other = number of controlling conditions that
    are not such tests (loop bounds, data comparisons)"""
    cfg = prog.cfg(f, cut=False); flags = set(); other = 0
    for br, t in cfg.control_deps_closure(ins.blk):
        te = truth_edges(f, br)
        d = f.def_of(flow.int_origin(f, flow.strip_casts(f, te[0]))) if te is not None else None
        c = cls(prog, res.loc(d.ops[0])) if d is not None and d.op == 'load' else None
        if c is not None and te[1] != te[2] and ((c[0] == 'field' and c[1] in FLAG_STRUCTS) or c[0] == 'global'):
            flags.add((c, t is f.bmap[te[1]]))
        else: other += 1
    return flags, other

def flags_with_callers(prog, f, ins):
    """mode tests controlling ins inside f, plus those common to every direct call site of f"""
    own, other = flag_conditions(prog, f, ins, Resolver(f))
    cf = None
    for c in prog.callers(f.name):
        fl, _o = flag_conditions(prog, c.fn, c, Resolver(c.fn))
        cf = fl if cf is None else (cf & fl)
    return own | (cf or set()), other

def flags_str(fl):
    return ' && '.join('%s%s' % ('' if pol else '!', c_[-1]) for c_, pol in sorted(fl, key=str)) or 'no option test'

def top_calls(prog, fname):
    """calls in flex_main that (transitively) lead to function fname"""
    fm = prog.fn('flex_main')
    if fm is None: return []
    return [x for x in fm.ins if x.op == 'call' and isinstance(x.callee, str) and fname in reach_fns(prog, [x.callee])]

# ---- the jam-state slot (index jamstate = lastdfa + 1)

def _resolved_lin(f, v, res, depth=0):
    """lin(v) with locals that are assigned exactly once replaced by the value assigned (total_states = lastdfa + numtemps)"""
    li = lin(f, v, res)
    if li is None or depth > 2: return li
    out = {}
    for a, c in li.items():
        sub = None
        if a != 1 and a[0] == 'load' and a[1][0] == 'local' and not a[1][1].endswith('.addr'):
            st = [x for x in f.ins if x.op == 'store' and flow._freeze(res.loc(x.ops[1])) == a[1]]
            if len(st) == 1: sub = _resolved_lin(f, st[0].ops[0], res, depth + 1)
        for k_, v_ in (sub.items() if sub is not None else [(a, 1)]):
            out[k_] = out.get(k_, 0) + c * v_
    return {k_: v_ for k_, v_ in out.items() if v_}

LASTDFA = ('load', ('global', 'lastdfa')); JAMSTATE = ('load', ('global', 'jamstate'))

def jamstate_is_lastdfa_plus_1(prog):
    """every assignment of the global jamstate is lastdfa + 1 (so the two spellings name the same slot)"""
    n = 0
    for f in fns(prog):
        res = Resolver(f)
        for x in f.ins:
            if x.op == 'store' and res.loc(x.ops[1]) == ('global', 'jamstate'):
                n += 1
                if lin(f, x.ops[0], res) != {LASTDFA: 1, 1: 1}: return False
    return n > 0

def jam_class(prog, f, idx, at, res):
    """how the index idx used at `at` designates (or ranges over) slot jamstate = lastdfa + 1, else None:
    the expressions jamstate / lastdfa + 1; a counter after a loop `for (..; i <= lastdfa; ++i)`; a counter inside a
    loop whose upper bound is lastdfa plus something (for i <= lastdfa + numtemps)"""
    li = _resolved_lin(f, idx, res)
    if li is None: return None
    if li == {JAMSTATE: 1}: return 'index jamstate'
    if li == {LASTDFA: 1, 1: 1}: return 'index lastdfa + 1'
    k0 = li.get(1, 0); atoms = {a: c for a, c in li.items() if a != 1}
    if len(atoms) != 1 or list(atoms.values()) != [1]: return None
    ctr = next(iter(atoms))
    if ctr[0] != 'load' or ctr[1][0] != 'local': return None
    cfg = prog.cfg(f)
    stores = [x for x in f.ins if x.op == 'store' and flow._freeze(res.loc(x.ops[1])) == ctr[1]]
    for b in f.blocks:
        br = b.ins[-1]
        be = branch_edges(f, br) if br.op == 'br' else None
        if be is None or be[0].pred not in ('sle', 'slt'): continue
        ic, tl, fl = be
        if lin(f, ic.ops[0], res) != {ctr: 1}: continue
        U = _resolved_lin(f, ic.ops[1], res)
        if U is None or U.get(LASTDFA) != 1: continue
        top = dict(U); top[1] = top.get(1, 0) + (0 if ic.pred == 'sle' else -1) + k0       # largest index read inside the loop
        if edge_dominates(cfg, f, br, tl, at):
            rest = {k_: v_ for k_, v_ in top.items() if k_ != LASTDFA}
            if all(v_ > 0 for k_, v_ in rest.items() if k_ != 1) and (rest.get(1, 0) >= 1 or (len(rest) > (1 if 1 in rest else 0) and rest.get(1, 0) >= 0)):
                return 'loop over %s <= %s' % (ctr[1][1], '+'.join(sorted((k_[1][1] if k_ != 1 else str(v_)) for k_, v_ in top.items() if v_)))
        elif edge_dominates(cfg, f, br, fl, at):
            # after the loop, before the counter is assigned again
            mid = cfg.reach_from_block(f.bmap[fl], avoid=[at])
            if any(x in mid and at in cfg.reach(x) for x in stores): continue
            after = dict(top); after[1] = after.get(1, 0) + 1
            if {k_: v_ for k_, v_ in after.items() if v_} == {LASTDFA: 1, 1: 1}:
                return 'counter %s after the loop to lastdfa' % ctr[1][1]
    return None

def r6(prog, rep, covered=R6_COVERED_ELSEWHERE, anchors=True):
    from common import AnalysisBroken
    arrays = heap_arrays(prog)
    if anchors and len(arrays) < 30: rep.broken('C18.R6: only %d heap-allocated global arrays found' % len(arrays))
    jam_ok = jamstate_is_lastdfa_plus_1(prog)
    if anchors and not jam_ok: rep.broken('C18.R6: the global jamstate is no longer assigned lastdfa + 1 everywhere; the jam-slot rule cannot name the slot')
    readers = {}     # (slot, g, fn) -> [(load, how)]
    events = {}      # (slot, g) -> [(fn, instruction, how)]
    unknown = []
    nacc = 0
    for f in fns(prog):
        res = Resolver(f)
        for x in f.ins:
            if x.op not in ('load', 'store'): continue
            ea = heap_elem(f, x.ops[0] if x.op == 'load' else x.ops[1], res, arrays)
            if ea is None: continue
            nacc += 1
            c = index_class(prog, f, ea[1], x, res)
            if c[0] == 'unknown':
                unknown.append('%s[..] at %s: %s' % (ea[0], where(x), c[1])); continue
            if c[0] == 'zero':
                if x.op == 'load': readers.setdefault(('0', ea[0], f), []).append((x, c[1]))
                elif c[2]:
                    for site in c[2]: events.setdefault(('0', ea[0]), []).append((site.fn, site, '%s[param] in %s() with %s' % (ea[0], f.name, c[1])))
                else: events.setdefault(('0', ea[0]), []).append((f, x, '%s[0] stored in %s()@%s (%s)' % (ea[0], f.name, x.line, c[1])))
            if jam_ok:
                j = jam_class(prog, f, ea[1], x, res)
                if j is not None:
                    if x.op == 'load': readers.setdefault(('jamstate', ea[0], f), []).append((x, j))
                    elif j.startswith('index'): events.setdefault(('jamstate', ea[0]), []).append((f, x, '%s[jamstate] stored in %s()@%s (%s)' % (ea[0], f.name, x.line, j)))
    if unknown:
        raise AnalysisBroken('C18.R6: %d accesses to heap arrays have an index that cannot be classified as 0 / never 0 / data: %s' % (len(unknown), '; '.join(unknown[:4])))
    n = 0
    fm = prog.fn('flex_main'); fcfg = prog.cfg(fm) if fm is not None else None
    for (slot, g, f), lds in sorted(readers.items(), key=lambda kv: (kv[0][0], kv[0][1], kv[0][2].name)):
        n += 1
        kk = key('C18.R6', f, '%s[%s]' % (g, slot))
        x, how = lds[0]
        if g in covered:
            rep.ok('C18.R6', '%s reads %s[%s]@%s (%s): %s' % (f.name, g, slot, x.line, how, covered[g])); continue
        evs = events.get((slot, g), [])
        if not evs:
            rep.fail('C18.R6', kk, where(x), '%s() reads %s[%s] (%s) but nothing in flex ever stores that slot of %s, which is allocated uninitialised (%s): '
                     'the generated tables would contain whatever the heap held' % (f.name, g, slot, how, g, ', '.join(sorted({s.fn.name for s in arrays[g]}))),
                     replay_input='run flex twice under different MALLOC_PERTURB_ values (-CF for slot 0, default tables for the jam slot) and compare the tables')
            continue
        rflags, _ = flags_with_callers(prog, f, x)
        verdicts = []
        for ef, ei, what in evs:
            if ef is f:
                # written and read in the same function: the store must dominate the read
                verdicts.append(('ok', what) if prog.cfg(f).ins_dominates(ei, x) else ('order', what + ', which does not dominate the read')); continue
            eflags, other = flags_with_callers(prog, ef, ei)
            if other: verdicts.append(('cond', what)); continue
            # order: the event's function runs before the reader's
            tr = top_calls(prog, f.name); te_ = top_calls(prog, ef.name) if ef is not fm else [ei]
            if fm is None or not tr or not te_: verdicts.append(('order?', what)); continue
            before = all(any(y is not t and fcfg.ins_dominates(y, t) for y in te_) for t in tr)
            if not before:
                # same top-level call: inside the common callee the store's call must dominate the reader's call
                same = [t for t in tr if t in te_]
                g_ = prog.fn(same[0].callee) if len(same) == 1 and len(tr) == 1 else None
                if g_ is not None and g_ is not f:
                    c2 = prog.cfg(g_)
                    ec = [y for y in g_.ins if (y is ei) or (y.op == 'call' and isinstance(y.callee, str) and ef.name in reach_fns(prog, [y.callee]))]
                    rc = [y for y in g_.ins if y.op == 'call' and isinstance(y.callee, str) and f.name in reach_fns(prog, [y.callee])]
                    before = bool(ec) and bool(rc) and all(any(c2.ins_dominates(a_, b_) and a_ is not b_ for a_ in ec) for b_ in rc)
            if not before: verdicts.append(('order', what)); continue
            if not eflags <= rflags:
                verdicts.append(('flags', '%s, but only under %s' % (what, flags_str(eflags - rflags)))); continue
            verdicts.append(('ok', what))
        good = [w for v_, w in verdicts if v_ == 'ok']
        if good:
            rep.ok('C18.R6', '%s reads %s[%s]@%s (%s): %s, which runs earlier under the same options' % (f.name, g, slot, x.line, how, good[0]))
        elif any(v_ in ('flags', 'order') for v_, _ in verdicts):
            w = [w for v_, w in verdicts if v_ in ('flags', 'order')][0]
            rep.fail('C18.R6', kk, where(x), '%s() reads %s[%s] (%s); the only stores to that slot do not cover the read: %s' % (f.name, g, slot, how, w))
        else:
            raise AnalysisBroken('C18.R6: cannot decide whether %s[%s] is stored before %s() reads it (%s)' % (g, slot, f.name, '; '.join('%s: %s' % v_ for v_ in verdicts[:3])))
    rep.note('C18.R6: %d element accesses of %d heap arrays classified; %d (slot, array, reader) triples read slot 0 or the jam slot' % (nacc, len(arrays), n))
    return n

# ================================================================ R7  union member discipline

def union_accesses(prog):
    """{union name: [(member label, size, fn, ins, kind, element)]} for loads/stores made through a member of a union object
    (address = bitcast of a %union.X*).  element = (array global, index value) when the union is an array element."""
    out = {}
    for f in fns(prog):
        res = Resolver(f)
        for x in f.ins:
            if x.op not in ('load', 'store'): continue
            ptr = x.ops[0] if x.op == 'load' else x.ops[1]
            d = f.def_of(ptr)
            if d is None or d.op != 'bitcast' or d.srcty is None or d.srcty.k != 'ptr' or d.srcty.a.k != 'named' or not d.srcty.a.a.startswith('union.'): continue
            ty = x.ty
            if ty is None: continue
            label = re.sub(r'\d+$', '', d.res) if re.match(r'[A-Za-z_]', d.res) else repr(ty)
            el = None
            g = f.def_of(d.ops[0])
            if g is not None and g.op == 'getelementptr' and len(g.ops) == 2:
                b = f.def_of(flow.strip_casts(f, g.ops[0]))
                if b is not None and b.op == 'load' and res.loc(b.ops[0])[0] == 'global': el = (res.loc(b.ops[0])[1], g.ops[1])
            out.setdefault(d.srcty.a.a[len('union.'):], []).append((label, f.mod.sizeof(ty), f, x, x.op, el))
    return out

def r7(prog, rep, anchors=True):
    """a load through a union member that is wider than some other member that is also stored must happen in the mode in
    which the wide member is what gets stored (the option tests common to all its stores), or right after such a store"""
    from common import AnalysisBroken
    n = 0; table = []
    ua = union_accesses(prog)
    for U in sorted(ua):
        acc = ua[U]
        sizes = {}
        for label, sz, f, x, kind, el in acc: sizes.setdefault(label, sz)
        if len(set(sizes.values())) < 2: continue
        stores = {}
        for label, sz, f, x, kind, el in acc:
            if kind == 'store': stores.setdefault(label, []).append((f, x, flags_with_callers(prog, f, x)[0]))
        mode = {}
        for label, sts in stores.items():
            m = None
            for f, x, fl in sts:
                if not fl: continue            # a store under no option test (initialisation of one element) says nothing about modes
                m = set(fl) if m is None else (m & fl)
            mode[label] = m if m is not None else set()
            if m is not None and not m: mode[label] = None          # conditional stores without a common test
        table.append('union %s: %s' % (U, '; '.join('%s (%d bytes) stored at %s when %s' % (
            label, sizes[label], ', '.join(sorted({'%s:%s' % (f.name, x.line) for f, x, _ in stores.get(label, [])})) or 'nowhere', flags_str(mode.get(label) or set()) if mode.get(label, set()) is not None else 'different option tests')
            for label in sorted(sizes))))
        for label, sz, f, x, kind, el in acc:
            if kind != 'load': continue
            narrower = [l2 for l2 in stores if sizes[l2] < sz]
            if not narrower: continue            # the narrowest stored member: its bytes are defined whichever member was stored
            n += 1
            kk = key('C18.R7', f, '%s.%s' % (U, label))
            res = Resolver(f); cfg = prog.cfg(f)
            # (b) dominated by a store of an equally wide member to the same element
            dom = None
            if el is not None:
                k = idx_key(f, el[1], res)
                for l2, s2, f2, y, kind2, el2 in acc:
                    if kind2 == 'store' and f2 is f and s2 >= sz and el2 is not None and el2[0] == el[0] and k is not None and idx_key(f, el2[1], res) == k and cfg.ins_dominates(y, x):
                        if not any(z.op == 'store' and flow._freeze(res.loc(z.ops[1])) in key_leaves(k) and x in cfg.reach(z) for z in cfg.reach(y, avoid=[x])): dom = y; break
            if dom is not None:
                rep.ok('C18.R7', '%s: load of %s.%s@%s follows the store of the same element@%s' % (f.name, U, label, x.line, dom.line)); continue
            m = mode.get(label, set())
            if m is None:
                raise AnalysisBroken('C18.R7: the conditional stores of union member %s.%s have no option test in common; the mode in which it is valid cannot be derived' % (U, label))
            if not m:
                if label not in stores:
                    rep.fail('C18.R7', kk, where(x), '%s() loads union member %s.%s (%d bytes), which is never stored; only %s is' % (f.name, U, label, sz, ', '.join(narrower))); continue
                rep.ok('C18.R7', '%s: load of %s.%s@%s - that member is stored under no option test, no mode to respect' % (f.name, U, label, x.line)); continue
            lf = flags_with_callers(prog, f, x)[0]
            if m <= lf:
                rep.ok('C18.R7', '%s: load of %s.%s (%d bytes)@%s is under %s, the mode in which that member is stored' % (f.name, U, label, sz, x.line, flags_str(m)))
            else:
                rep.fail('C18.R7', kk, where(x), '%s() loads the %d-byte union member %s.%s without being under %s; in the other mode only the %d-byte member %s is stored, so the '
                         'remaining bytes of the element are whatever the allocator left there and the result differs from run to run' % (
                         f.name, sz, U, label, flags_str(m - lf), min(sizes[l2] for l2 in narrower), ', '.join(narrower)),
                         replay_input='flex -Cf on rules foo / foobar / .|\\n, once plain and once with MALLOC_PERTURB_=85: the M4_MODE_HAS_BACKING_UP line disappears')
    rep.note('C18.R7 union members and the modes derived from their stores: ' + ' | '.join(table))
    return n, table

# ================================================================ R8  a new element initialises its whole family

# Arrays of a capacity family that a creator need not initialise, each justified by reading the code:  array -> reason
def _completer_always_stores(fname, G, K):
    """precondition of an exemption: function fname stores G[K] on every returning path"""
    def pre(prog):
        f = prog.fn(fname)
        if f is None: return False
        res = Resolver(f); arrays = heap_arrays(prog)
        st = [x for x in f.ins if x.op == 'store' and (heap_elem(f, x.ops[1], res, arrays) or (None,))[0] == G
              and lin(f, heap_elem(f, x.ops[1], res, arrays)[1], res) == {('load', ('global', K)): 1}]
        return bool(st) and not any(y.op == 'ret' for y in prog.cfg(f).reach_from_block(f.entry, avoid=st))
    return pre

R8_EXEMPT = {
    'chk': ('zero-filled after every (re)allocation (C18.R4(c)), so an element nobody stored reads as 0 = unused', None),
    'nxt': ('every load of nxt[e] is preceded by a chk[e] != 0 edge or a store to nxt[e] (C18.R4(a))', None),
    'base': ('filled per state by the table pass of ntod(): every DFA state taken from the todo queue goes to place_state() (-CF) or to bldtbl()/stack1() -> mkentry()/mk1tbl() '
             '(compressed), which store base[statenum] on every returning path; -Cf never reads base[]; the readers run in make_tables(), after ntod(); slots 0 and jamstate: C18.R6', None),
    'def': ('as base[]: mkentry()/mk1tbl() store def[statenum] next to base[statenum] for every state in compressed mode, the only mode that reads def[]; jam slot: C18.R6', None),
    'nultrans': ('optional array that exists only under -Cf; ntod() stores nultrans[ds] for every state it processes (if (nultrans) nultrans[ds] = state[NUL_ec]) and the only reader, '
                 'make_tables(), runs afterwards over 1..lastdfa', None),
    'rule_type': ('assigned by finish_rule() (both arms; checked: it stores rule_type[num_rules] on every returning path), which the grammar runs for the same rule number before the next '
                  'new_rule() (EOF rules give the number back with --num_rules) and before ntod()/gentabs() read it', _completer_always_stores('finish_rule', 'rule_type', 'num_rules')),
}

def element_counters(prog, fam):
    """{capacity C: {counter global K}}: K is compared with C by a growth test (K [+k] >= C whose true edge reaches a store
    that increases C, or a call to a function that does) - `if (++lastdfa >= current_max_dfas) increase_max_dfas ();`"""
    import c16
    out = {}
    for C in fam:
        gs = c16.grow_stores(prog, C)
        if not gs: continue
        growers = {g.fn.name for g in gs}
        CA = ('load', ('global', C))
        for f in fns(prog):
            res = Resolver(f); cfg = None
            for b in f.blocks:
                br = b.ins[-1]
                be = branch_edges(f, br) if br.op == 'br' else None
                if be is None: continue
                ic, tl, fl = be
                l0 = lin(f, ic.ops[0], res); l1 = lin(f, ic.ops[1], res)
                if l0 is None or l1 is None: continue
                # orient as  K + k  >=|>  C
                if l1 == {CA: 1} and ic.pred in ('sge', 'sgt', 'uge', 'ugt'): kside, lab = l0, tl
                elif l0 == {CA: 1} and ic.pred in ('sle', 'slt', 'ule', 'ult'): kside, lab = l1, tl
                elif l1 == {CA: 1} and ic.pred in ('slt', 'sle', 'ult', 'ule'): kside, lab = l0, fl
                elif l0 == {CA: 1} and ic.pred in ('sgt', 'sge', 'ugt', 'uge'): kside, lab = l1, fl
                else: continue
                atoms = [a for a in kside if a != 1]
                if len(atoms) != 1 or kside[atoms[0]] != 1 or atoms[0][0] != 'load' or atoms[0][1][0] != 'global': continue
                # the growth must be decided by this very test: a block holding the grow store / the call to the grower
                # is directly control dependent on the edge
                cfg = cfg or prog.cfg(f, cut=False)
                for bb in f.blocks:
                    if not any((x in gs) or (x.op == 'call' and x.callee in growers) for x in bb.ins): continue
                    if any(b2 is br and t2 is f.bmap[lab] for b2, t2 in cfg.control_deps(bb)):
                        out.setdefault(C, set()).add(atoms[0][1][1]); break
    return out

def creators(prog, K):
    """[(function, increment store)] for stores K = K + 1"""
    KA = ('load', ('global', K)); out = []
    for f in fns(prog):
        res = Resolver(f)
        for x in f.ins:
            if x.op == 'store' and res.loc(x.ops[1]) == ('global', K) and lin(f, x.ops[0], res) == {KA: 1, 1: 1}: out.append((f, x))
    return out

def _lin_after(f, v, res, S, K, cfg):
    """linear form of index v with single-assignment locals replaced by their value, provided the local is assigned after
    the increment S with K unchanged in between (int r = num_rules; ... G[r] = ...)"""
    li = lin(f, v, res)
    if li is None: return None
    out = {}
    for a, c in li.items():
        sub = None
        if a != 1 and a[0] == 'load' and a[1][0] == 'local' and not a[1][1].endswith('.addr'):
            st = [x for x in f.ins if x.op == 'store' and flow._freeze(res.loc(x.ops[1])) == a[1]]
            if len(st) == 1 and cfg.ins_dominates(S, st[0]) and not any(y.op == 'store' and res.loc(y.ops[1]) == ('global', K) and st[0] in cfg.reach(y) for y in cfg.reach(S, avoid=[st[0]])):
                sub = lin(f, st[0].ops[0], res)
        for k_, v_ in (sub.items() if sub is not None else [(a, 1)]):
            out[k_] = out.get(k_, 0) + c * v_
    return {k_: v_ for k_, v_ in out.items() if v_}

def element_init_stores(prog, f, S, K, G, arrays, depth=0):
    """instructions in f that initialise G[new value of K] for the increment S: a store to G[K] after S (K unchanged in
    between), a store to G[K + 1] before S, or a call to a direct callee that always stores G[p] with p = that index"""
    res = Resolver(f); cfg = prog.cfg(f); KA = ('load', ('global', K))
    kstores = [y for y in f.ins if y.op == 'store' and res.loc(y.ops[1]) == ('global', K)]
    def k_unchanged(a, b):
        return not any(y is not a and y is not b and y in cfg.reach(a, avoid=[b]) and b in cfg.reach(y) for y in kstores)
    out = []
    for x in f.ins:
        if x.op == 'store':
            ea = heap_elem(f, x.ops[1], res, arrays)
            if ea is None or ea[0] != G: continue
            if cfg.ins_dominates(S, x) or x in cfg.reach(S):
                if _lin_after(f, ea[1], res, S, K, cfg) == {KA: 1} and k_unchanged(S, x): out.append(x)
            elif cfg.ins_dominates(x, S):
                if lin(f, ea[1], res) == {KA: 1, 1: 1} and k_unchanged(x, S): out.append(x)
        elif x.op == 'call' and isinstance(x.callee, str) and depth == 0 and x in cfg.reach(S):
            g = prog.fn(x.callee)
            if g is None or not g.blocks or g is f: continue
            for pi, a in enumerate(x.ops):
                if _lin_after(f, a, res, S, K, cfg) != {KA: 1} or not k_unchanged(S, x) or pi >= len(g.params) or g.params[pi][1] is None: continue
                gres = Resolver(g); gcfg = prog.cfg(g); slot = ('local', g.params[pi][1] + '.addr')
                if len([y for y in g.ins if y.op == 'store' and gres.loc(y.ops[1]) == slot]) != 1: continue
                inner = [y for y in g.ins if y.op == 'store' and (heap_elem(g, y.ops[1], gres, arrays) or (None,))[0] == G
                         and lin(g, heap_elem(g, y.ops[1], gres, arrays)[1], gres) == {('load', slot): 1}]
                if inner and not any(y.op == 'ret' for y in gcfg.reach_from_block(g.entry, avoid=inner)): out.append(x)
    return out

def r8(prog, rep, exempt=R8_EXEMPT, anchors=True):
    import c16
    fam = c16.capacity_families(prog)
    arrays = heap_arrays(prog)
    exempt = dict(exempt)
    fam = {C: gs for C, gs in fam.items() if not any(c_ == C for c_, _g in c16.R8_EXCEPT)}       # lastsc is a count, not a capacity (C16.R8)
    counters = element_counters(prog, fam)
    n = 0; table = []
    exempt = {g: r for g, (r, pre) in exempt.items() if pre is None or pre(prog)}
    # option tests common to every load of an array element: a creator only has to initialise on paths of that mode
    read_mode = {}
    for f in fns(prog):
        res = Resolver(f)
        for x in f.ins:
            if x.op != 'load': continue
            ea = heap_elem(f, x.ops[0], res, arrays)
            if ea is None: continue
            fl = flags_with_callers(prog, f, x)[0]
            read_mode[ea[0]] = fl if ea[0] not in read_mode else (read_mode[ea[0]] & fl)
    for C in sorted(counters):
        for K in sorted(counters[C]):
            cr = creators(prog, K)
            if not cr: continue
            ex = sorted(g for g in fam[C] if g in exempt)
            table.append('%s/%s: created in %s; arrays %s%s' % (K, C, ', '.join(sorted({'%s@%s' % (f.name, S.line) for f, S in cr})),
                         ', '.join(sorted(g for g in fam[C] if g not in exempt)) or '-', ('; exempt: ' + ', '.join(ex)) if ex else ''))
            for f, S in cr:
                cfg = prog.cfg(f)
                for G in sorted(fam[C]):
                    n += 1
                    kk = key('C18.R8', f, '%s[%s]' % (G, K))
                    if G in exempt:
                        rep.ok('C18.R8', '%s: ++%s@%s, %s exempt: %s' % (f.name, K, S.line, G, exempt[G])); continue
                    if G not in arrays:
                        rep.ok('C18.R8', '%s: ++%s@%s, %s is not allocated by a non-zeroing allocator' % (f.name, K, S.line, G)); continue
                    inits = element_init_stores(prog, f, S, K, G, arrays)
                    before = [x for x in inits if cfg.ins_dominates(x, S) and x is not S and not cfg.ins_dominates(S, x)]
                    after = [x for x in inits if x not in before]
                    mode = read_mode.get(G, set())
                    res = Resolver(f)
                    def filt(b, t, mode=mode, f=f, res=res):
                        br = b.ins[-1]
                        te = truth_edges(f, br) if br.op == 'br' and len(br.targets) == 2 else None
                        if te is None or te[1] == te[2]: return True
                        d = f.def_of(flow.int_origin(f, flow.strip_casts(f, te[0])))
                        c_ = cls(prog, res.loc(d.ops[0])) if d is not None and d.op == 'load' else None
                        for (mc, pol) in mode:
                            if mc == c_: return t.name == (te[1] if pol else te[2])
                        return True
                    leak = [y for y in cfg.reach(S, avoid=after, edge_filter=filt) if y.op == 'ret'] if not before else []
                    if before or (after and not leak):
                        x = (before or after)[0]
                        rep.ok('C18.R8', '%s: ++%s@%s -> %s[%s] initialised@%s%s%s' % (f.name, K, S.line, G, K, x.line, ' (in %s())' % x.callee if x.op == 'call' else '',
                               (' on every path where %s (the only mode in which %s[] is read)' % (flags_str(mode), G)) if mode and not before else ''))
                    else:
                        rep.fail('C18.R8', kk, where(S), '%s() creates element %s of the %s family but %s %s[%s]; %s is allocated uninitialised, so a later read of the new element '
                                 'sees whatever the heap held' % (f.name, K, C, 'can return without storing' if after else 'never stores', G, K, G),
                                 replay_input='run flex under different MALLOC_PERTURB_ values and compare output / warnings')
    rep.note('C18.R8 element counters, creators and arrays derived from the IR: ' + ' | '.join(table))
    return n, table

# ================================================================ R9  local heap arrays are read only where they were written

LOCAL_ALLOCS = ('allocate_array', 'malloc', 'reallocate_array', 'realloc', 'reallocarray')

def _glin(f, v, res):
    """_resolved_lin(v) if it mentions only constants and globals, else None"""
    li = _resolved_lin(f, v, res)
    if li is None: return None
    for a in li:
        if a != 1 and (a[0] != 'load' or a[1][0] != 'global'): return None
    return li

def _fz(li): return frozenset(li.items())
def _shift(li, k):
    out = dict(li); out[1] = out.get(1, 0) + k
    return {a: c for a, c in out.items() if c}
def _cdiff(a, b):
    """a - b when it is a constant, else None (a, b: frozen linear forms)"""
    d = dict(a)
    for k_, v_ in b: d[k_] = d.get(k_, 0) - v_
    d = {k_: v_ for k_, v_ in d.items() if v_}
    if set(d) <= {1}: return d.get(1, 0)
    return None

def counted_loops(prog, f, res):
    """loops `for (i = a; i <= b; ++i)` of f: dicts with ctr (frozen local), a, b (linear in globals; a may be None),
    header branch, body blocks, exit label"""
    cfg = prog.cfg(f, cut=False); out = []
    for H in f.blocks:
        br = H.ins[-1]
        be = branch_edges(f, br) if br.op == 'br' else None
        if be is None or be[0].pred not in ('sle', 'slt'): continue
        ic, tl, fl = be
        l0 = lin(f, ic.ops[0], res)
        if l0 is None or len(l0) != 1 or list(l0.values()) != [1]: continue
        ctr = next(iter(l0))
        if ctr == 1 or ctr[0] != 'load' or ctr[1][0] != 'local': continue
        U = _glin(f, ic.ops[1], res)
        if U is None: continue
        b = U if ic.pred == 'sle' else _shift(U, -1)
        body = {x.blk for x in cfg.reach_from_block(f.bmap[tl])} & {bb for bb in f.blocks if H in {y.blk for y in cfg.reach_from_block(bb)}}
        if not body: continue
        stores = [x for x in f.ins if x.op == 'store' and flow._freeze(res.loc(x.ops[1])) == ctr[1]]
        inside = [x for x in stores if x.blk in body]
        if not inside or any(lin(f, x.ops[0], res) != {ctr: 1, 1: 1} for x in inside): continue
        a = None; inits = []
        for x in stores:
            if x.blk in body: continue
            if br in cfg.reach(x, avoid=[y for y in stores if y is not x]): inits.append(x)
        if len(inits) == 1: a = _glin(f, inits[0].ops[0], res)
        out.append({'ctr': ctr, 'a': a, 'b': b, 'br': br, 'body': body | {H}, 'exit': fl, 'stores': stores, 'H': H})
    return out

def index_form(prog, f, idx, at, res, loops, cfg):
    """('pt', lin) | ('rg', a, b) | None (data) for the value(s) the index takes at instruction `at`"""
    li = _resolved_lin(f, idx, res)
    if li is None: return None
    loc = [a for a in li if a != 1 and a[0] == 'load' and a[1][0] == 'local']
    if any(a != 1 and a not in loc and (a[0] != 'load' or a[1][0] != 'global') for a in li): return None
    if not loc: return ('pt', _fz(li))
    if len(loc) != 1 or li[loc[0]] != 1: return None
    ctr = loc[0]; rest = {a: c for a, c in li.items() if a != ctr}
    def plus(base): 
        o = dict(base)
        for a, c in rest.items(): o[a] = o.get(a, 0) + c
        return {a: c for a, c in o.items() if c}
    for L in loops:
        if L['ctr'] != ctr: continue
        if at.blk in L['body'] and at.blk is not L['H']:
            if L['a'] is None: return None
            return ('rg', _fz(plus(L['a'])), _fz(plus(L['b'])))
    for L in loops:
        if L['ctr'] != ctr or at.blk in L['body']: continue
        if edge_dominates(cfg, f, L['br'], L['exit'], at):
            mid = cfg.reach_from_block(f.bmap[L['exit']], avoid=[at])
            if any(x in mid and at in cfg.reach(x) for x in L['stores']): continue
            return ('pt', _fz(plus(_shift(L['b'], 1))))        # the counter after the loop (assuming the loop starts at or below bound + 1)
    # a constant assigned directly
    sts = [x for x in f.ins if x.op == 'store' and flow._freeze(res.loc(x.ops[1])) == ctr[1]]
    reach = [x for x in sts if at in cfg.reach(x, avoid=[y for y in sts if y is not x and y is not at])]
    if len(reach) == 1:
        g = _glin(f, reach[0].ops[0], res)
        if g is not None: return ('pt', _fz(plus(g)))
    return None

def _covered(form, facts):
    if form[0] == 'pt':
        if form in facts: return True
        for ft in facts:
            if ft[0] == 'rg':
                lo = _cdiff(form[1], ft[1]); hi = _cdiff(ft[2], form[1])
                if lo is not None and hi is not None and lo >= 0 and hi >= 0: return True
        return False
    for ft in facts:
        if ft[0] != 'rg': continue
        lo = _cdiff(form[1], ft[1])
        if lo is None or lo < 0: continue
        top = ft[2]
        while True:
            hi = _cdiff(top, form[2])
            if hi is not None and hi >= 0: return True
            nxt = _fz(_shift(dict(top), 1))
            if ('pt', nxt) in facts: top = nxt
            else: break
    return False

def _form_str(form):
    def ls(fz):
        d = dict(fz); parts = [a[1][1] if c == 1 else '%d*%s' % (c, a[1][1]) for a, c in sorted(d.items(), key=str) if a != 1]
        if d.get(1): parts.append(str(d[1]))
        return '+'.join(parts).replace('+-', '-') or '0'
    return ls(form[1]) if form[0] == 'pt' else '%s..%s' % (ls(form[1]), ls(form[2]))

def r9(prog, rep, anchors=True):
    n = 0; skipped = 0; arrays_seen = []
    for f in fns(prog):
        res = Resolver(f)
        cand = {}
        for x in f.ins:
            if x.op != 'store': continue
            l = res.loc(x.ops[1])
            if l[0] != 'local' or l[1].endswith('.addr'): continue
            d = f.def_of(flow.strip_casts(f, x.ops[0]))
            ok = x.ops[0] == ('null',) or (d is not None and d.op == 'call' and d.callee in LOCAL_ALLOCS)
            cand.setdefault(l, []).append(ok)
        heap = {l for l, oks in cand.items() if all(oks) and any(True for _ in oks)}
        heap = {l for l in heap if any(x.op == 'store' and res.loc(x.ops[1]) == l and x.ops[0] != ('null',) for x in f.ins)}
        if not heap: continue
        def elem(ptr):
            g = f.def_of(flow.strip_casts(f, ptr))
            if g is None or g.op != 'getelementptr' or len(g.ops) != 2: return None
            b = f.def_of(flow.strip_casts(f, g.ops[0]))
            if b is None or b.op != 'load': return None
            l = res.loc(b.ops[0])
            return (l, g.ops[1]) if l in heap else None
        acc = [(x, elem(x.ops[0] if x.op == 'load' else x.ops[1])) for x in f.ins if x.op in ('load', 'store')]
        acc = [(x, e) for x, e in acc if e is not None]
        if not any(x.op == 'load' for x, e in acc): continue
        cfg = prog.cfg(f); loops = counted_loops(prog, f, res)
        forms = {x: index_form(prog, f, e[1], x, res, loops, cfg) for x, e in acc}
        for P in sorted({e[0] for x, e in acc}, key=str):
            arrays_seen.append('%s:%s' % (f.name, P[1]))
            mine = [(x, e) for x, e in acc if e[0] == P]
            # gen per instruction / per loop exit edge
            edge_gen = {}
            for L in loops:
                latches = [p for p in L['H'].pred if p in L['body']]
                for x, e in mine:
                    if x.op == 'store' and x.blk in L['body'] and forms[x] is not None and forms[x][0] == 'rg' and all(cfg.dominates(x.blk, lt) for lt in latches):
                        li = _resolved_lin(f, e[1], res)
                        if li is not None and L['ctr'] in li:
                            edge_gen.setdefault((L['H'], L['exit']), set()).add(forms[x])
            def kills(x, facts):
                if x.op == 'store':
                    l = res.loc(x.ops[1])
                    if l == P and x.ops[0] != ('null',):
                        d = f.def_of(flow.strip_casts(f, x.ops[0]))
                        if d is not None and d.callee in ('allocate_array', 'malloc'): return set()
                    if l[0] == 'global':
                        return {ft for ft in facts if not any(a != 1 and a[1] == l for part in ft[1:] for a, _ in part)}
                elif x.op in ('call', 'invoke') and isinstance(x.callee, str) and prog.fn(x.callee) is not None:
                    mg = mod_globals(prog, x.callee)
                    return {ft for ft in facts if not any(a != 1 and a[1][1] in mg for part in ft[1:] for a, _ in part)}
                return facts
            IN = {b: None for b in f.blocks}; IN[f.entry] = set(); work = [f.entry]
            def flow_block(b, st, check=None):
                st = set(st)
                for x in b.ins[:cfg._live_len(b)]:
                    e = dict(mine).get(x)
                    if e is not None and x.op == 'load' and check is not None: check(x, st)
                    st = kills(x, st)
                    if e is not None and x.op == 'store' and forms[x] is not None and forms[x][0] == 'pt': st = st | {forms[x]}
                return st
            while work:
                b = work.pop()
                st = flow_block(b, IN[b])
                for t in cfg.succ[b]:
                    new = st | edge_gen.get((b, t.name), set())
                    if IN[t] is None: IN[t] = set(new); work.append(t)
                    else:
                        m = IN[t] & new
                        if m != IN[t]: IN[t] = m; work.append(t)
            def check(x, st):
                nonlocal n, skipped
                fm = forms[x]
                if fm is None: skipped += 1; return
                n += 1
                ordn = [y for y, _ in mine if y.op == 'load'].index(x)
                kk = key('C18.R9', f, '%s[%s]#%d' % (P[1], _form_str(fm), ordn))
                if _covered(fm, st):
                    rep.ok('C18.R9', '%s: %s[%s]@%s is read where it was written (%s)' % (f.name, P[1], _form_str(fm), x.line, ', '.join(sorted(_form_str(t) for t in st))))
                else:
                    rep.fail('C18.R9', kk, where(x), '%s() reads %s[%s], but on some path to this read the malloc\'ed block %s has only been written at %s: the value is whatever the heap held' % (
                        f.name, P[1], _form_str(fm), P[1], ', '.join(sorted(_form_str(t) for t in st)) or 'no index'),
                        replay_input='a REJECT scanner generated twice under different MALLOC_PERTURB_ values: the last yy_accept entry differs')
            for b in f.blocks:
                if IN[b] is not None: flow_block(b, IN[b], check)
    rep.note('C18.R9: local heap arrays with element reads: %s; %d reads with a data-dependent index not decided' % (', '.join(arrays_seen) or '-', skipped))
    return n

# ================================================================ R10  element-initialising loops store before they load

R10_ALLOCS = ('malloc', 'realloc', 'reallocarray', 'allocate_array', 'reallocate_array')

def _simple_loops(prog, f, res):
    """loops headed by a test of a local counter that is incremented by one inside: dicts ctr, H, entry (first body block), body"""
    cfg = prog.cfg(f, cut=False); out = []
    for H in f.blocks:
        br = H.ins[-1]
        be = branch_edges(f, br) if br.op == 'br' else None
        if be is None: continue
        ic, tl, fl = be
        for side in (0, 1):
            l0 = lin(f, ic.ops[side], res)
            if l0 is None or len(l0) != 1 or list(l0.values()) != [1]: continue
            ctr = next(iter(l0))
            if ctr == 1 or ctr[0] != 'load' or ctr[1][0] != 'local': continue
            for lab in (tl, fl):
                body = {x.blk for x in cfg.reach_from_block(f.bmap[lab])} & {bb for bb in f.blocks if H in {y.blk for y in cfg.reach_from_block(bb)}}
                if not body or H in body and len(body) == 1: continue
                steps = [x for x in f.ins if x.op == 'store' and flow._freeze(res.loc(x.ops[1])) == ctr[1] and x.blk in body and x.blk is not H]
                if steps and all(lin(f, x.ops[0], res) == {ctr: 1, 1: 1} for x in steps):
                    out.append({'ctr': ctr, 'H': H, 'entry': f.bmap[lab], 'body': body - {H}}); break
            break
    return out

def r10(prog, rep, anchors=True):
    """for every array obtained from a non-zeroing allocator and filled by a counter loop of the same function: on every
    path from the top of the loop body, the first access to each field of the element of that iteration is a store"""
    n = 0; table = []
    for f in fns(prog):
        res = Resolver(f)
        allocs = {}
        for x in f.ins:
            if x.op != 'store': continue
            d = f.def_of(flow.strip_casts(f, x.ops[0]))
            if d is not None and d.op == 'call' and d.callee in R10_ALLOCS: allocs.setdefault(flow._freeze(res.loc(x.ops[1])), []).append(x)
        if not allocs: continue
        cfg = prog.cfg(f); loops = None
        for P, sts in sorted(allocs.items(), key=str):
            loops = loops if loops is not None else _simple_loops(prog, f, res)
            for L in loops:
                if not any(cfg.dominates(a.blk, L['H']) for a in sts): continue
                ctr = L['ctr']
                def is_elem_ptr(v):
                    g = f.def_of(flow.strip_casts(f, v))
                    if g is None or g.op != 'getelementptr' or len(g.ops) != 2 or lin(f, g.ops[1], res) != {ctr: 1}: return False
                    b = f.def_of(flow.strip_casts(f, g.ops[0]))
                    return b is not None and b.op == 'load' and flow._freeze(res.loc(b.ops[0])) == P
                eptrs = {flow._freeze(res.loc(x.ops[1])) for x in f.ins if x.op == 'store' and x.blk in L['body'] and res.loc(x.ops[1])[0] == 'local' and is_elem_ptr(x.ops[0])}
                def field_of_access(ptr):
                    """field path of an access to the element of this iteration, else None"""
                    path = []; v = flow.strip_casts(f, ptr)
                    for _ in range(6):
                        if is_elem_ptr(v): return tuple(reversed(path)) or ('*',)
                        d = f.def_of(v)
                        if d is None: return None
                        if d.op == 'load':
                            return (tuple(reversed(path)) or ('*',)) if flow._freeze(res.loc(d.ops[0])) in eptrs else None
                        if d.op == 'getelementptr' and len(d.ops) >= 3 and d.ops[1] == ('int', 0) and d.ops[2][0] == 'int':
                            nm = f.mod.field_name(d.srcty, d.ops[2][1]) if d.srcty is not None else None
                            path.append(nm or '#%d' % d.ops[2][1]); v = flow.strip_casts(f, d.ops[0]); continue
                        return None
                    return None
                acc = {}
                for x in f.ins:
                    if x.blk in L['body'] and x.op in ('load', 'store'):
                        k = field_of_access(x.ops[0] if x.op == 'load' else x.ops[1])
                        if k is not None: acc[x] = k
                if not any(x.op == 'store' for x in acc): continue          # not an initialising loop for this array
                # must-analysis of the fields written since the top of the body
                IN = {b: None for b in L['body']}; IN[L['entry']] = frozenset(); work = [L['entry']]; first_bad = {}
                def run_block(b, st, record):
                    st = set(st)
                    for x in b.ins:
                        k = acc.get(x)
                        if k is None: continue
                        if x.op == 'store': st.add(k)
                        elif k not in st and record: first_bad.setdefault(k, x)
                    return frozenset(st)
                while work:
                    b = work.pop(); st = run_block(b, IN[b], False)
                    for t in cfg.succ[b]:
                        if t not in L['body'] or t is L['entry']: continue
                        if IN[t] is None: IN[t] = st; work.append(t)
                        else:
                            m = IN[t] & st
                            if m != IN[t]: IN[t] = m; work.append(t)
                for b in L['body']:
                    if IN[b] is not None: run_block(b, IN[b], True)
                pl = res.loc(sts[0].ops[1])
                pname = pl[2] if pl[0] == 'field' else pl[1] if pl[0] in ('local', 'global') else ir.loc_str(pl).replace(' ', '')
                fields = sorted({k for k in acc.values()})
                table.append('%s:%s{%s}' % (f.name, pname, ','.join('.'.join(k) for k in fields)))
                for k in fields:
                    n += 1
                    fld = '.'.join(k)
                    kk = key('C18.R10', f, '%s[i].%s:read-before-write' % (pname, fld))
                    if k in first_bad:
                        x = first_bad[k]
                        rep.fail('C18.R10', kk, where(x), '%s() fills the malloc\'ed array %s in a loop, but on some path from the top of the loop body the first access to %s of the new element is a load '
                                 '(a read-modify-write such as |= counts): it reads whatever the heap held' % (f.name, pname, 'the element' if fld == '*' else 'field ' + fld),
                                 replay_input='MALLOC_PERTURB_=255 flex -h / flex -t x.l: short options are not recognised')
                    else:
                        rep.ok('C18.R10', '%s: loop filling %s - %s is stored before it is read on every path' % (f.name, pname, 'the element' if fld == '*' else 'field ' + fld))
    rep.note('C18.R10 arrays from non-zeroing allocators filled by a counter loop: ' + ' | '.join(table))
    return n

# ================================================================ controls / driver

def controls(ctx):
    p = selftest_program(ctx, 'c18_controls.c')
    c = Collect(); r1(p, c, dyn_ok={})
    expect_control(ctx, 'C18.R1', c, ['stamp:call:time', 'stamp:call:getpid', 'seed:call:rand', 'env_reader:getenv:HOME', 'dump:format-%p', 'child:pid:fork'], must_hold=3)
    c = Collect(); r2(p, c)
    expect_control(ctx, 'C18.R2', c, ['addr_hash:ptrtoint', 'ptrcmp:comparator'], must_hold=2)
    c = Collect(); r3(p, c, anchors=False)
    expect_control(ctx, 'C18.R3', c, ['dump_all', 'first_bucket'], must_hold=3)
    c = Collect(); r4(p, c, anchors=False)
    expect_control(ctx, 'C18.R4', c, ['bad_reader:nxt-load', 'bad_reader_changed_index:nxt-load', 'bad_marker:chk-store', 'bad_expand:chk-alloc'], must_hold=4)
    c = Collect(); r5(p, c, readers={})
    expect_control(ctx, 'C18.R5', c, ['content_depends:effect-use_stdout'], must_hold=1)
    c = Collect(); r9(p, c, anchors=False)
    expect_control(ctx, 'C18.R9', c, ['bad_cap:acc['], must_hold=3)
    c = Collect(); r10(p, c, anchors=False)
    expect_control(ctx, 'C18.R10', c, ['bad_fill:items[i].flags:read-before-write', 'bad_fill_scalar:v[i].*:read-before-write'], must_hold=3)
    c = Collect(); r8(p, c, exempt={}, anchors=False)
    expect_control(ctx, 'C18.R8', c, ['new_item:item_c[n_items]', 'new_item:item_d[n_items]'], must_hold=3)
    c = Collect(); r7(p, c, anchors=False)
    expect_control(ctx, 'C18.R7', c, ['bad_union_reader:acc_union'], must_hold=2)
    c = Collect(); r6(p, c, covered={}, anchors=False)
    expect_control(ctx, 'C18.R6', c, ['dump_acc:dfaacc[0]', 'dump_wrongopt:accsiz[0]', 'dump_def:def[jamstate]', 'dump_after:accsiz[jamstate]'], must_hold=3)

def run(ctx):
    rep = ctx.rep; prog = ctx.flex
    rep.require(len(prog.modules) >= 20, 'only %d translation units of flex were compiled to IR' % len(prog.modules))
    for a in ('main', 'flex_main', 'gentabs', 'genctbl', 'mkctbl', 'expand_nxt_chk', 'inittbl', 'set_up_initial_allocations', 'hashfunct', 'addsym', 'findsym',
              'check_options', 'flexend', 'filter_apply_chain', 'intcmp', 'cclcmp'):
        rep.require(prog.fn(a) is not None, 'anchored function %s() not found in flex' % a)
    controls(ctx)
    c = {}
    c['R1'] = r1(prog, rep); c['R2'] = r2(prog, rep); c['R3'] = r3(prog, rep); c['R4'] = r4(prog, rep); c['R5'] = r5(prog, rep) + r5b(prog, rep); c['R6'] = r6(prog, rep); c['R7'], r7table = r7(prog, rep)
    c['R8'], r8table = r8(prog, rep)
    c['R9'] = r9(prog, rep)
    c['R10'] = r10(prog, rep)
    rep.setcount('element_counter_families', len(r8table))
    rep.setcount('unions_with_members_of_different_size', len(r7table))
    rep.setcount('translation_units', len(prog.modules)); rep.setcount('functions_analysed', len(fns(prog)))
    for k_, v in c.items(): rep.setcount('instances_' + k_, v)
    rep.floor('C18.R1', 8, 'census, 3 live getenv, format census, 2 computed formats + skeleton property lines, fork, 2 wait')
    rep.floor('C18.R2', 10, 'functions containing ptrtoint + 2 comparators')
    rep.floor('C18.R3', 10, '3 bucket arrays: 7 uses in sym.c + 4 table-parameter uses in addsym/findsym')
    rep.floor('C18.R4', 24, '11 nxt[] loads in gentabs/genctbl/mkctbl, 16 chk[] stores, 2 chk allocations')
    rep.floor('C18.R5', 2, 'env.use_stdout is read in check_options() and flexend()')
    rep.floor('C18.R10', 6, '8 (function, array, field) instances today: gentabs acc_array x2, ntod accset, scanopt_init aux x3, snstods dss[] and dfaacc[].dfaacc_set')
    rep.floor('C18.R9', 6, '8 reads of the local heap array acc_array in gentabs today (a cap read through a temporary makes it 7)')
    rep.floor('C18.R8', 28, '(creator, array) obligations today: mkstate 9, scinstal 5, cclinit 4, new_rule 4, snstods 8, sf_push 1, plus the exempted chk/nxt cursors')
    rep.floor('C18.R7', 3, 'loads of dfaacc_union.dfaacc_set in check_for_backing_up, snstods, gentabs')
    rep.floor('C18.R6', 12, 'slot-0 readers today: base x3, dfaacc x2, chk x2, nxt x2; jam-slot readers: base x3 (genctbl, mkctbl, gentabs), def x1 (gentabs)')
    rep.undecided += ['independence of the output from the contents of fresh heap memory in general (only nxt[]/chk[] are covered)',
                      'that chk[e] != 0 implies nxt[e] was assigned for the slot values involved (value-level; the pairing rule and the reviewed markers cover the stores)',
                      'locale- and m4-version dependence of the output; byte equality of repeated runs; the stage1/stage2 bootstrap comparison',
                      'index variables of the table dumps are assumed not to be modified through pointers']
    rep.assumptions += ['clang -O0 IR of flex as built by the repository\'s own make',
                        'libc functions other than the listed ones are deterministic functions of their arguments and of the input files',
                        'realloc() preserves the old contents (so slots validated before a growth stay valid)']
    return rep.finish('other',
        'Call census over all %d functions of flex with a positive control; constant-argument check of getenv; %%p scan of every literal format that '
        'reaches a printf-style function or one of the derived wrapper functions; use-def check that pids are only compared; use check of every '
        'ptrtoint; index-provenance check of the sym.c bucket arrays (indices must be hashfunct() results); forward must-dataflow over gentabs/'
        'genctbl/mkctbl proving each nxt[e] load is preceded by a chk[e] != 0 edge or a store to nxt[e] with e unchanged; pairing of chk/nxt stores; '
        'zero-fill of chk after each (re)allocation incl. the ordering inittbl-before-use through dominance in flex_main/ntod; who-reads + effect '
        'summary for env.use_stdout.' % len(fns(prog)))
