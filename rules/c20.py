"""C20 - user code is copied verbatim and located by accurate #line directives.

R1  only line_directive_out (which tests ctrl.gen_line_dirs) emits line directives; any other use of the
    trace-line hook must be control dependent on ctrl.gen_line_dirs.
R2  raw-echo rules of scan.l cannot leak an m4 quote: product of the combined DFA of each copying start
    condition (flex priority: longest match, then first rule) with a bracket abstraction of the token.
R3  every channel of user text is quoted where it is opened (scan.l entry rules + cross-module openers).
R4  filter_fix_linedirs counts lines, not fgets chunks.
"""
import re, collections, os
import ir, flow, lex
from common import where, fwhere

LB, RB = ord('['), ord(']')

# ------------------------------------------------------------------ R1

def r1(ctx):
    rep = ctx.rep; prog = ctx.flex
    uses = []
    for m in prog.modules:
        if os.path.basename(m.path).startswith('skeletons'): continue
        strs = {n for n, g in m.globals.items() if g.init is not None and g.init[0] == 'cstr' and 'M4_HOOK_TRACE_LINE_FORMAT' in ir.decode_cstr(g.init[1])}
        if not strs: continue
        for f in m.functions.values():
            for i in f.ins:
                gl = set()
                for o in i.ops: gl |= set(ir.globs_in(o))
                if gl & strs: uses.append((f, i))
    rep.require(uses, 'no use of M4_HOOK_TRACE_LINE_FORMAT found in flex: anchor vanished')
    GLD = ('field', 'ctrl_bundle_t', 'gen_line_dirs')
    seen_ldo = False
    for f, i in uses:
        cfg = prog.cfg(f)
        if f.name == 'line_directive_out':
            seen_ldo = True
            # every emission (fputs / add_action of the directive) must be unreachable when gen_line_dirs is false:
            # a branch on gen_line_dirs dominates them and its false... side returns
            res = ir.Resolver(f)
            guards = [b.ins[-1] for b in f.blocks if b.ins[-1].op == 'br' and any(ir.loc_class(l) == GLD for _, l in flow.cond_loads(f, b.ins[-1], res))]
            emits = [c for c in f.ins if c.op == 'call' and c.callee in ('fputs', 'add_action', 'fprintf', 'out', 'outn')]
            ok = bool(guards) and bool(emits) and all(any(prog.cfg(f, cut=False).ins_dominates(g, e) for g in guards) for e in emits)
            if ok: rep.ok('C20.R1', 'line_directive_out: %d emission(s) dominated by the ctrl.gen_line_dirs test' % len(emits))
            else: rep.fail('C20.R1', 'C20.R1:misc.c:line_directive_out:guard', fwhere(f), 'line_directive_out emits a line directive without testing ctrl.gen_line_dirs first')
            continue
        locs = flow.controlling_locs(prog, i)
        fl = i.loc
        key = 'C20.R1:%s:%s:trace-line-format' % (fl[0], f.name)
        # a directive that is only *formatted* into a local buffer here is emitted where that buffer is handed on:
        # those hand-offs are what must depend on ctrl.gen_line_dirs
        if i.op == 'call' and i.callee in ('snprintf', 'sprintf') and i.ops:
            res_ = ir.Resolver(f)
            dst = res_.loc(i.ops[0])
            while dst[0] == 'elem': dst = dst[1]
            if dst[0] == 'local':
                def passes(c):
                    for a in c.ops:
                        l = res_.loc(a)
                        while l and l[0] == 'elem': l = l[1]
                        if l == dst: return True
                    return False
                hand = [c for c in f.ins if c.op == 'call' and c is not i and passes(c)]
                if hand and all(GLD in flow.controlling_locs(prog, c) for c in hand): locs = locs | {GLD}
        if GLD in locs:
            rep.ok('C20.R1', '%s: use of the trace-line hook is control dependent on ctrl.gen_line_dirs' % where(i))
        else:
            rep.fail('C20.R1', key, where(i), 'a line directive (M4_HOOK_TRACE_LINE_FORMAT) is emitted outside line_directive_out and not under ctrl.gen_line_dirs: '
                     '-L / %option noline does not suppress it', replay_input='%top{\nint x;\n}\n%%\n%%\n  with flex -L: the output still contains #line 2')
    if not seen_ldo: rep.broken('line_directive_out no longer uses M4_HOOK_TRACE_LINE_FORMAT: anchor vanished')
    # callers of line_directive_out in filter.c pass a fake number that filter_fix_linedirs repairs: nothing to check here

# ------------------------------------------------------------------ R2

RAW_RE = re.compile(r'\bACTION_ECHO\b(?!_Q)|\bECHO\b|add_action\s*\(\s*yytext|buf_strnappend\s*\(\s*&\s*top_buf\s*,\s*yytext|START_CODEBLOCK\s*\(\s*true\s*\)')
ESC_RE = re.compile(r'ACTION_ECHO_Q(START|END)|escaped_q(start|end)')
OUTSIDE_RE = re.compile(r'add_action\s*\(\s*"\]""\]"\s*\)\s*;\s*add_action\s*\(\s*yytext\s*\)\s*;\s*add_action\s*\(\s*"\[""\["\s*\)')

PUTBACK_RE = re.compile(r'\byyless\s*\(\s*0\s*\)\s*;')

def _block_path(action, pos):
    """positions of the braces that are open at `pos` of the action text"""
    st = []
    for i, c in enumerate(action[:pos]):
        if c == '{': st.append(i)
        elif c == '}' and st: st.pop()
    return tuple(st)

def echoes_after_putback(action):
    """every raw echo of the action is preceded by a yyless(0) of an enclosing block: the whole token has been put back to
    be re-scanned and yytext is empty, so the echo copies nothing (the text is judged where it is re-scanned)"""
    raws = [m.start() for m in RAW_RE.finditer(action)]
    puts = [m.start() for m in PUTBACK_RE.finditer(action)]
    if not raws or not puts: return False
    for r in raws:
        rp = _block_path(action, r)
        if not any(p < r and rp[:len(_block_path(action, p))] == _block_path(action, p) for p in puts): return False
    return True

def classify(action):
    if OUTSIDE_RE.search(action): return 'outside'
    if ESC_RE.search(action): return 'escaped'
    if RAW_RE.search(action): return 'other' if echoes_after_putback(action) else 'raw'
    return 'other'

def channel_of(action):
    if re.search(r'top_buf', action): return 'top_buf'
    if re.search(r'\bECHO\b|yyout', action): return 'yyout'
    return 'action_array'

def contains_bracket_possible(ast):
    """can any string of L(ast) contain [ or ] ?"""
    k = ast[0]
    if k == 'set': return LB in ast[1] or RB in ast[1]
    if k in ('cat', 'alt'): return any(contains_bracket_possible(x) for x in ast[1])
    if k == 'star': return contains_bracket_possible(ast[1])
    return False

def r2(ctx, sp):
    rep = ctx.rep
    kinds = {}
    for r in sp.rules: kinds[r.idx] = classify(r.action)
    asts = {}
    for r in sp.rules:
        if r.is_eof: continue
        try:
            asts[r.idx] = lex.parse_pattern(r.pat, sp)
        except Exception as e:
            rep.broken('scan.l:%d: pattern %r not understood by the E3 model: %s' % (r.line, r.pat, e))
    copying = []
    for sc in sp.start_conditions:
        if any(kinds[r.idx] in ('raw', 'escaped', 'outside') and r.active_in(sc, sp) for r in sp.rules): copying.append(sc)
    rep.setcount('copying_start_conditions', len(copying))
    rep.require(len(copying) >= 10, 'only %d start conditions of scan.l copy user text (12 confirmed by hand)' % len(copying))
    byidx = {r.idx: r for r in sp.rules}
    pairs = 0; states = 0
    for sc in copying:
        for ctxname, with_bol in (('bol', True), ('mid', False)):
            act = []
            for r in sp.rules:
                if r.is_eof or not r.active_in(sc, sp): continue
                a = asts[r.idx]
                if a['bol'] and not with_bol: continue
                full = a['head'] if a['trail'] is None else ('cat', [a['head'], a['trail']])
                if a['eol']: full = ('cat', [full, ('set', frozenset([10]))])
                if (a['trail'] is not None or a['eol']) and kinds[r.idx] in ('raw', 'outside'):
                    # the token is the head only; sound only if the head can never contain a bracket
                    if contains_bracket_possible(a['head']):
                        rep.broken('scan.l:%d: raw-echo rule with trailing context whose head may contain a bracket: not modelled' % r.line)
                    kinds[r.idx] = 'other-safe-head'
                act.append((r.idx, full))
            if not act: continue
            dfa = lex.DFA(act)
            states += dfa.nstates
            has_esc_s = any(kinds[i] == 'escaped' and byidx[i].pat == '{M4QSTART}' for i, _ in act) or \
                        any(kinds[i] == 'escaped' and lex.DFA([(1, asts[i]['head'])]).matches(b'[[') for i, _ in act)
            has_esc_e = any(kinds[i] == 'escaped' and lex.DFA([(1, asts[i]['head'])]).matches(b']]') for i, _ in act)
            raw_can_bracket = set()
            # product exploration: (dfa state, len class 0/1/2, first bracket kind, last bracket kind, has quote pair)
            start = (0, 0, None, None, False)
            seen = {start: None}; q = collections.deque([start]); findings = {}
            while q:
                st = q.popleft(); d, ln, first, last, bad = st
                if d in dfa.accept and ln > 0:
                    rid = dfa.accept[d][0]; kd = kinds[rid]
                    why = None
                    if kd == 'raw':
                        if bad: why = 'contains-quote'
                        elif ln >= 2 and last in ('[', ']'): why = 'ends-with-bracket'
                        elif ln >= 2 and first in ('[', ']'): why = 'begins-with-bracket'
                        if ln == 1 and last in ('[', ']'): raw_can_bracket.add((rid, last))
                    elif kd == 'outside':
                        if bad == 'open' or bad is True and _has_open(seen, st): why = 'contains-open-quote-outside-quotes'
                    if why and (rid, why) not in findings:
                        w = []; x = st
                        while seen[x] is not None: x, c = seen[x]; w.append(c)
                        findings[(rid, why)] = bytes(reversed(w))
                for ci, cl in enumerate(dfa.classes):
                    nd = dfa.trans.get((d, ci))
                    if nd is None: continue
                    reps = set()
                    for c in cl: reps.add(c if c in (LB, RB) else -1)
                    for rp in reps:
                        c = rp if rp != -1 else next(x for x in cl if x not in (LB, RB))
                        b = {LB: '[', RB: ']'}.get(c)
                        nbad = bad or (b is not None and last == b)
                        nst = (nd, min(ln + 1, 2), first if ln > 0 else (b or '-'), b, nbad)
                        if nst not in seen: seen[nst] = (st, c); q.append(nst)
            for i, _ in act:
                if kinds[i] in ('raw', 'outside'): pairs += 1
            for (rid, why), w in sorted(findings.items()):
                r = byidx[rid]
                key = 'C20.R2:scan.l:%s:%s:%s' % (sc, r.pat, why)
                rep.fail('C20.R2', key, 'scan.l:%d <%s>' % (r.line, sc),
                         'raw-echo rule %r wins for the token %r (%s): user text reaches m4 with an unescaped quote sequence' % (r.pat, w, why),
                         witness=['token=%r' % w, 'context=%s' % ctxname], replay_input=repr(w))
            # (iii) single-byte bracket echo needs both escape rules in the same state
            for rid, br in sorted(raw_can_bracket):
                need = has_esc_s if br == '[' else has_esc_e
                r = byidx[rid]
                if not need:
                    key = 'C20.R2:scan.l:%s:%s:no-escape-rule-for-%s' % (sc, r.pat, 'open' if br == '[' else 'close')
                    rep.fail('C20.R2', key, 'scan.l:%d <%s>' % (r.line, sc),
                             'rule %r echoes a single %r raw and start condition %s has no rule that emits the escaped form of %r: two adjacent brackets form an m4 quote' % (r.pat, br, sc, br * 2),
                             replay_input=repr(br * 2))
            good = [i for i, _ in act if kinds[i] in ('raw', 'outside') and not any(k[0] == i for k in findings)]
            for i in good:
                rep.ok('C20.R2', '<%s>/%s scan.l:%d %r (%s): no winning token carries an unescaped quote' % (sc, ctxname, byidx[i].line, byidx[i].pat, kinds[i]))
    rep.setcount('rule_x_state_pairs', pairs)
    rep.setcount('dfa_states_explored', states)

def _has_open(seen, st):
    w = []; x = st
    while seen[x] is not None: x, c = seen[x]; w.append(c)
    return b'[[' in bytes(reversed(w))

# ------------------------------------------------------------------ R3

OPENERS = {
    'action_array': re.compile(r'START_CODEBLOCK\s*\(|add_action\s*\(\s*"[^"]*\[""\["\s*\)|add_action\s*\(\s*M4QSTART\s*\)'),
    'top_buf': re.compile(r'buf_strn?append\s*\(\s*&\s*top_buf\s*,\s*(M4QSTART|"[^"]*\[""\[")'),
}
ENTER_RE = re.compile(r'\b(?:BEGIN|yy_push_state)\s*\(\s*([A-Z_0-9a-z]+)\s*\)')

def r3(ctx, sp):
    rep = ctx.rep; prog = ctx.flex
    kinds = {r.idx: classify(r.action) for r in sp.rules}
    # start conditions that receive raw user text, per channel
    raw_states = {}
    WS = frozenset([9, 10, 11, 12, 13, 32])
    def only_ws(ast):
        k = ast[0]
        if k == 'set': return ast[1] <= WS
        if k in ('cat', 'alt'): return all(only_ws(x) for x in ast[1])
        if k == 'star': return only_ws(ast[1])
        return True
    for r in sp.rules:
        if kinds[r.idx] != 'raw': continue
        if 'START_CODEBLOCK' in r.action and not re.search(r'\bACTION_ECHO\b', r.action): continue   # the macro opens the quote itself
        if not r.is_eof and only_ws(lex.parse_pattern(r.pat, sp)['head']): continue                 # echoes white space only
        ch = channel_of(r.action)
        for sc in sp.start_conditions:
            if r.active_in(sc, sp): raw_states.setdefault(ch, set()).add(sc)
    macros = ctx.art.source('scan.l')
    def expand(action):
        # START_CODEBLOCK / END_CODEBLOCK are macros defined in scan.l; their bodies push/pop CODEBLOCK and add the quotes
        return action
    # cross-module openers: the quote of rule actions is opened by finish_rule()/build_eof_action() (parser side)
    CROSS = {
        'ACTION': 'finish_rule', 'PERCENT_BRACE_ACTION': 'finish_rule',
    }
    for ch, states in sorted(raw_states.items()):
        if ch == 'yyout': continue     # section 3: checked in flex_main below
        for sc in sorted(states):
            entries = []
            for r in sp.rules:
                tg = set(ENTER_RE.findall(r.action))
                if 'START_CODEBLOCK' in r.action: tg.add('CODEBLOCK')
                if sc in tg: entries.append(r)
            if not entries and sc != 'INITIAL':
                rep.note('no scan.l rule enters %s explicitly' % sc)
            for r in entries:
                # entry from a state that is itself copying to the same channel keeps the quote open
                src_states = [s_ for s_ in sp.start_conditions if r.active_in(s_, sp)]
                inside = all(s_ in states for s_ in src_states)
                opens = bool(OPENERS[ch].search(r.action)) if ch in OPENERS else False
                key = 'C20.R3:scan.l:%s:%s:enter-%s' % (ch, r.pat, sc)
                if inside or opens:
                    rep.ok('C20.R3', '%s: scan.l:%d %r enters %s %s' % (ch, r.line, r.pat, sc, 'from inside the quoted region' if inside else 'after opening the quote'))
                elif sc in CROSS and ch == 'action_array':
                    rep.ok('C20.R3', '%s: scan.l:%d %r enters %s; quote opened by %s() (checked below)' % (ch, r.line, r.pat, sc, CROSS[sc]))
                else:
                    rep.fail('C20.R3', key, 'scan.l:%d' % r.line,
                             'rule %r enters start condition %s, where raw user text is appended to %s, without first opening an m4 quote on that channel' % (r.pat, sc, ch),
                             replay_input='%top{ /* m4_dnl x */ "M4_YY_NOOP" }' if ch == 'top_buf' else None)
    # states that echo raw text to action_array but are never entered through an opener: SECT2PROLOG is entered
    # from INITIAL by the first %% (no quote); its raw echo of '.'/newline is reported by R2 as well.
    # cross-module openers
    for fname in ('finish_rule', 'build_eof_action'):
        f = prog.fn(fname)
        if f is None: rep.broken('%s() not found' % fname)
        cfg = prog.cfg(f)
        adds = [c for c in f.ins if c.op == 'call' and c.callee == 'add_action']
        opener = [c for c in adds if (flow.const_arg(f, c.ops[0]) or '').endswith('[[')]
        # the last add_action on every path to return must be an opener: no add_action reachable after it that is not an opener... simply:
        # from each opener, no other add_action is reachable; and every return is reachable only through an opener
        ok = bool(opener)
        rets = [x for x in f.ins if x.op == 'ret']
        if ok:
            reach_no_open = cfg.reach_from_block(f.entry, avoid=opener)
            if any(x in reach_no_open for x in rets): ok = False
            for o in opener:
                if any(c.op == 'call' and c.callee == 'add_action' and c not in opener for c in cfg.reach(o)): ok = False
        if ok: rep.ok('C20.R3', '%s(): every return is preceded by add_action("...[[") with nothing appended after it' % fname)
        else: rep.fail('C20.R3', 'C20.R3:%s:%s:open-quote' % (f.file, fname), fwhere(f), '%s() does not end by opening the m4 quote for the action text that follows' % fname)
    # section 3 bracket in flex_main
    fm = prog.fn('flex_main')
    if fm is None: rep.broken('flex_main not found')
    cfg = prog.cfg(fm)
    scans = [c for c in fm.ins if c.op == 'call' and c.callee == 'flexscan']
    if not scans: rep.broken('flex_main no longer calls flexscan() for section 3')
    res = ir.Resolver(fm)
    NS3 = ('field', 'ctrl_bundle_t', 'no_section3_escape')
    for sc_call in scans:
        opens = [c for c in fm.ins if c.op == 'call' and c.callee in ('out', 'outn', 'fputs') and (flow.const_arg(fm, c.ops[0]) or '').endswith('[[')]
        closes = [c for c in fm.ins if c.op == 'call' and c.callee in ('out', 'outn', 'fputs') and (flow.const_arg(fm, c.ops[0]) or '').startswith(']]')]
        # the quotes may be skipped only by a branch on ctrl.no_section3_escape (then SECT3_NOESCAPE quotes for itself):
        # remove those skipping edges and require must-pass-through
        skip = set()
        for b in fm.blocks:
            br = b.ins[-1]
            if br.op == 'br' and br.ops and any(ir.loc_class(l) == NS3 for _, l in flow.cond_loads(fm, br, res)):
                for t in br.targets:
                    tb = fm.bmap[t]
                    if not any(c.blk is tb for c in opens + closes): skip.add((b, tb))
        ef = lambda a, b: (a, b) not in skip
        before_ok = bool(opens) and sc_call not in cfg.reach_from_block(fm.entry, avoid=opens, edge_filter=ef)
        after_ok = bool(closes) and not any(x.op == 'ret' or (x.op == 'call' and x.callee == 'flexend') for x in cfg.reach(sc_call, avoid=closes, edge_filter=ef))
        if before_ok and after_ok:
            rep.ok('C20.R3', 'flex_main: flexscan() for section 3 is bracketed by "[[" @%s and "]]" @%s on every path except under ctrl.no_section3_escape' % (opens[-1].line, closes[0].line))
        else:
            rep.fail('C20.R3', 'C20.R3:main.c:flex_main:section3-quote', where(sc_call), 'section 3 text is not bracketed by m4 quotes around flexscan() in flex_main (open=%s close=%s)' % (before_ok, after_ok))

# ------------------------------------------------------------------ R4

def r4(ctx):
    rep = ctx.rep; prog = ctx.flex
    f = prog.fn('filter_fix_linedirs')
    if f is None: rep.broken('filter_fix_linedirs not found')
    res = ir.Resolver(f)
    cfg = prog.cfg(f, cut=False)
    fg = [c for c in f.ins if c.op == 'call' and c.callee == 'fgets']
    if not fg: rep.broken('filter_fix_linedirs no longer reads with fgets')
    # counters: locals incremented by 1 inside the fgets loop and used as an argument of snprintf (the line number written)
    incs = []
    for x in f.ins:
        if x.op == 'store':
            l = res.loc(x.ops[1])
            d = f.def_of(x.ops[0])
            if l[0] == 'local' and d is not None and d.op == 'add' and ('int', 1) in d.ops:
                o = d.ops[0] if d.ops[1] == ('int', 1) else d.ops[1]
                dd = f.def_of(o)
                if dd is not None and dd.op == 'load' and res.loc(dd.ops[0]) == l: incs.append((x, l))
    used_as_line = set()
    for c in f.ins:
        if c.op == 'call' and c.callee in ('snprintf', 'sprintf', 'fprintf'):
            for a in c.ops:
                for d in flow.value_slice(f, a):
                    if d.op == 'load': used_as_line.add(res.loc(d.ops[0]))
    n = 0
    for x, l in incs:
        if l not in used_as_line: continue
        n += 1
        # is the increment control dependent on a test of a byte of the buffer against '\n'?
        dep_nl = False
        for br, t in cfg.control_deps_closure(x.blk):
            for d in flow.value_slice(f, br.ops[0]) if br.ops else []:
                if d.op == 'icmp' and (('int', 10) in d.ops): dep_nl = True
                if d.op in ('call',) and d.callee in ('strchr', 'strrchr', 'memchr') : dep_nl = True
        key = 'C20.R4:filter.c:filter_fix_linedirs:%s' % l[1]
        if dep_nl: rep.ok('C20.R4', 'filter_fix_linedirs: %s++ is conditional on the chunk ending in a newline' % l[1])
        else:
            rep.fail('C20.R4', key, where(x), 'line counter %s is incremented once per fgets() chunk (buffer %s bytes), not once per line: '
                     'a line longer than the buffer makes every later generated #line number too large' % (l[1], 4096),
                     replay_input='a 5000-byte line inside %{ %}: later #line N "lex.yy.c" directives are off by one')
    if n == 0: rep.broken('no line counter found in filter_fix_linedirs')

# ------------------------------------------------------------------ R5

def can_contain(ast, byte):
    k = ast[0]
    if k == 'set': return byte in ast[1]
    if k in ('cat', 'alt'): return any(can_contain(x, byte) for x in ast[1])
    if k == 'star': return can_contain(ast[1], byte)
    return False

R5_EXCEPT_STATES = {
    # start condition: reason why no rule active only there may advance linenum although it consumes a newline
    'LINEDIR': 'a #line directive in the input has just set linenum to the number of the NEXT line: the newline that ends the directive must not be counted',
}

def newline_counters(prog):
    """functions that advance linenum once per newline of a string argument: a store linenum = linenum + 1 that is control
    dependent on a comparison of a loaded byte with '\\n', inside a loop (the comparison block reaches itself), in a
    function with a pointer parameter and no other store to linenum.  A call of one of them with the token text counts as
    advancing linenum in C20.R5."""
    out = {}
    for f in set(prog.functions.values()):
        if f.name in ('flexscan', 'yylex'): continue
        res = ir.Resolver(f)
        sts = [x for x in f.ins if x.op == 'store' and res.loc(x.ops[1]) == ('global', 'linenum')]
        if len(sts) != 1: continue
        x = sts[0]; d = f.def_of(x.ops[0])
        if d is None or d.op != 'add' or ('int', 1) not in d.ops: continue
        cfg = prog.cfg(f, cut=False)
        for br, t in cfg.control_deps_closure(x.blk):
            cmp10 = [c for c in (flow.value_slice(f, br.ops[0]) if br.ops else []) if c.op == 'icmp' and ('int', 10) in c.ops]
            if cmp10 and any(y.blk is br.blk for y in cfg.reach(br)):
                out[f.name] = f; break
    return out

def r5(ctx, sp):
    """flex's own line accounting (every #line it emits is computed from `linenum`): a scan.l rule whose token can
    contain a newline must advance linenum (or push the newline back to be re-scanned); a rule whose token cannot
    contain one must not.  Decided on the IR of each action (case k of flexscan's action switch)."""
    import c19
    rep = ctx.rep; prog = ctx.flex
    fs = prog.fn('flexscan')
    if fs is None: rep.broken('flexscan not found')
    sw = max([x for x in fs.ins if x.op == 'switch'], key=lambda x: len(x.cases))
    nrules = sum(1 for r in sp.rules if not r.is_eof)
    casevals = {cv for cv, _ in sw.cases}
    # sanity of the numbering: cases 1..nrules (user rules), nrules+1 (default rule), nrules+2 (YY_END_OF_BUFFER) exist
    if not all(v in casevals for v in range(1, nrules + 3)):
        rep.broken('flexscan action switch does not have cases 1..%d: the scan.l model and the generated scanner disagree on the number of rules' % (nrules + 2))
    n = 0
    k = 0
    counters = newline_counters(prog)
    for r in sp.rules:
        if r.is_eof: continue
        k += 1
        a = lex.parse_pattern(r.pat, sp)
        nl = can_contain(a['head'], 10)
        tgt = [lab for cv, lab in sw.cases if cv == k]
        if not tgt: rep.broken('flexscan has no case %d for scan.l:%d %r' % (k, r.line, r.pat))
        # The action is case k of the action switch (flex numbers the non-EOF rules in file order).  Its region is
        # delimited structurally (up to the switch's merge block), not by debug lines: the #line numbers in flex's own
        # scanner are produced by the very accounting this rule is about.
        b = fs.bmap[tgt[0]]
        others = {fs.bmap[lab] for cv, lab in sw.cases if lab != tgt[0]}
        def stop(bb, st, others=others):
            return bb.name.startswith('sw.epilog') or bb in others
        ev = c19.RegionEval(prog, fs, {}, stop)
        try: ev.run(b)
        except c19.Unknown:
            rep.note('C20.R5 scan.l:%d: action not evaluable' % r.line); continue
        incs = [v for v in ev.effects.get('@linenum', ()) if isinstance(v, tuple) and v[0] == 'sym' and 'linenum' in str(v[1]) and 'add' in str(v[1])]
        incs += [cal for cal, _ in ev.calls if cal in counters]     # helper that counts the newlines of the token
        sets = [v for v in ev.effects.get('@linenum', ()) if v not in incs]
        pushes_back = any(cal in ('yyunput_r', 'yyunput', 'unput') for cal, _ in ev.calls) or bool(re.search(r'\byyless\s*\(|\bunput\s*\(', r.action))
        errors_out = any(cal in ('synerr', 'format_synerr', 'flexfatal', 'flexerror', 'lerr') for cal, _ in ev.calls)
        scs = ','.join(r.scs) if r.scs else 'INITIAL'
        key = 'C20.R5:scan.l:%s:%s' % (scs, r.pat)
        n += 1
        if r.scs and set(r.scs) <= set(R5_EXCEPT_STATES):
            if incs:
                rep.fail('C20.R5', 'C20.R5:scan.l:%s:counted-after-line-directive' % scs, 'scan.l:%d <%s>' % (r.line, scs),
                         'rule %r advances linenum although %s: every #line directive emitted afterwards is one too high' % (r.pat, R5_EXCEPT_STATES[r.scs[0]]),
                         replay_input='#line 100 "orig.src" in section 1 of the input')
            else:
                rep.ok('C20.R5', 'scan.l:%d <%s> %r leaves linenum as the directive set it' % (r.line, scs, r.pat))
            continue
        # a token that always contains a newline must be counted on EVERY path of its action, not on some
        if nl and incs and not pushes_back and not (r.scs and set(r.scs) <= set(R5_EXCEPT_STATES)):
            nonl = ('star', ('set', lex.ALL - frozenset([10])))
            always_nl = lex.intersect_witness(a['head'], nonl) is None
            if always_nl:
                pe = PathEval(prog, fs, stop)
                try: paths = pe.run(b)
                except pe.Unknown: paths = None
                if paths:
                    def counts(tr):
                        return any((t[0] == 'store' and t[1] == '@linenum') or (t[0] == 'call' and t[1] in counters) for t in tr)
                    def errs(tr, how):
                        return how == 'fatal' or any(t[0] == 'call' and t[1] in ('synerr', 'format_synerr', 'flexfatal', 'flexerror', 'lerr') for t in tr)
                    missing = [tr for tr, how in paths if not counts(tr) and not errs(tr, how)]
                    n += 1
                    if missing:
                        rep.fail('C20.R5', key + ':newline-not-counted-on-every-path', 'scan.l:%d <%s>' % (r.line, scs),
                                 'every token of rule %r contains a newline, but %d of the %d paths through its action leave linenum unchanged (the increment depends on state left by earlier input): '
                                 'on those paths every #line directive emitted afterwards is one too low' % (r.pat, len(missing), len(paths)),
                                 replay_input='an indented code line, then a %{ %} block: later #line numbers are one too small')
                        continue
                    rep.ok('C20.R5', 'scan.l:%d <%s> %r: linenum advanced on all %d paths' % (r.line, scs, r.pat, len(paths)))
        if nl and not incs:
            if pushes_back:
                rep.ok('C20.R5', 'scan.l:%d <%s> %r may match a newline and pushes text back to be re-scanned' % (r.line, scs, r.pat)); continue
            if errors_out and not RAW_RE.search(r.action):
                rep.ok('C20.R5', 'scan.l:%d <%s> %r may match a newline only on its way to a syntax error (exit status is non-zero)' % (r.line, scs, r.pat)); continue
            if set(r.scs) <= {'SECT3', 'SECT3_NOESCAPE'}:
                rep.ok('C20.R5', 'scan.l:%d <%s> %r: section 3 is copied to the end of the output, no line directive follows it' % (r.line, scs, r.pat)); continue
            w = lex.intersect_witness(a['head'], ('cat', [('star', ('set', lex.ALL)), ('set', frozenset([10])), ('star', ('set', lex.ALL))]))
            rep.fail('C20.R5', key + ':newline-not-counted', 'scan.l:%d <%s>' % (r.line, scs),
                     'rule %r can consume a newline (e.g. token %r) but its action never advances linenum: every #line directive emitted afterwards is one too low' % (r.pat, w),
                     replay_input=repr(w))
        elif not nl and incs:
            rep.fail('C20.R5', key + ':counted-without-newline', 'scan.l:%d <%s>' % (r.line, scs),
                     'rule %r cannot match a newline but its action advances linenum: every #line directive emitted afterwards is one too high' % r.pat)
        else:
            rep.ok('C20.R5', 'scan.l:%d <%s> %r: newline %s, linenum %s' % (r.line, scs, r.pat, 'possible' if nl else 'impossible', 'advanced' if incs else 'untouched'))
    return n

# ------------------------------------------------------------------ R6, R7

def r6(ctx, sp):
    """R6: start conditions of flex's own scanner that are entered with yy_push_state are left only with yy_pop_state, never
    with BEGIN, and the other way round.  A pushed state (comment, code block, line directive, %top block) is entered from
    several outer states and must return to the one it came from; leaving it with BEGIN(X) puts the copier of user text in
    the wrong state for every entry but one (text such as the %} of a %{ %} action is then copied as user code)."""
    rep = ctx.rep
    push = {}; begin = {}; pops = {}
    def expand(a):
        return a.replace('END_CODEBLOCK', 'yy_pop_state();').replace('START_CODEBLOCK', 'yy_push_state(CODEBLOCK);')
    for r in sp.rules:
        a = expand(r.action)
        for m in re.finditer(r'yy_push_state\s*\(\s*(\w+)\s*\)', a): push.setdefault(m.group(1), []).append(r)
        for m in re.finditer(r'\bBEGIN\s*\(\s*(\w+)\s*\)', a): begin.setdefault(m.group(1), []).append(r)
        if re.search(r'yy_pop_state\s*\(', a):
            for sc in (sp.sc_order if r.scs == ['*'] else (r.scs or ['INITIAL'])): pops.setdefault(sc, []).append(r)
    if len(push) < 5: rep.broken('C20.R6: only %d start conditions of scan.l are entered with yy_push_state (7 confirmed)' % len(push))
    n = 0
    for S in sorted(push):
        n += 1
        bad = [r for r in sp.rules if r.scs != ['*'] and r.active_in(S, sp) and re.search(r'\bBEGIN\s*\(', expand(r.action))]
        if S in begin:
            rep.fail('C20.R6', 'C20.R6:scan.l:%s:entered-by-BEGIN-and-push' % S, 'scan.l:%d' % begin[S][0].line,
                     'start condition %s is entered with yy_push_state (scan.l:%d) and also with BEGIN (scan.l:%d): its rules cannot know whether to pop' % (S, push[S][0].line, begin[S][0].line))
        elif bad:
            rep.fail('C20.R6', 'C20.R6:scan.l:%s:%s:left-by-BEGIN' % (S, bad[0].pat), 'scan.l:%d <%s>' % (bad[0].line, S),
                     'start condition %s is entered with yy_push_state from %d rule(s) but rule %r leaves it with BEGIN: the state it was entered from is lost '
                     '(e.g. a comment inside a %%{ %%} action then ends in the wrong state and the closing %%} is copied as user code)' % (S, len(push[S]), bad[0].pat),
                     replay_input='rule  a  %{ /* c */ return 1; %}')
        elif S not in pops:
            rep.fail('C20.R6', 'C20.R6:scan.l:%s:never-popped' % S, 'scan.l:%d' % push[S][0].line, 'start condition %s is pushed but no rule active in it pops' % S)
        else:
            rep.ok('C20.R6', 'start condition %s: entered by yy_push_state (%d rules), left only by yy_pop_state (%d rules)' % (S, len(push[S]), len(pops[S])))
    for S in sorted(pops):
        if S not in push:
            n += 1
            rep.fail('C20.R6', 'C20.R6:scan.l:%s:pop-without-push' % S, 'scan.l:%d' % pops[S][0].line, 'a rule active in %s calls yy_pop_state but nothing enters %s with yy_push_state' % (S, S))
    return n

def r7(ctx):
    """R7: a new input file starts at line 1: every function that installs a new input file name (stores infilename from a
    file-name argument) stores the constant 1 to linenum on every path to its return."""
    rep = ctx.rep; prog = ctx.flex
    n = 0
    for f in set(prog.functions.values()):
        res = ir.Resolver(f)
        if f.name in ('flexscan', 'yyparse', 'flexinit', 'flex_main', 'readin'): continue     # #line directives / initialisation set both explicitly
        st_name = [x for x in f.ins if x.op == 'store' and res.loc(x.ops[1]) == ('global', 'infilename')]
        opens = [c for c in f.ins if c.op == 'call' and c.callee in ('fopen', 'freopen')]
        if not st_name or not (opens or any(c.op == 'load' and res.loc(c.ops[0]) == ('global', 'stdin') for c in f.ins)): continue
        n += 1
        cfg = prog.cfg(f)
        resets = [x for x in f.ins if x.op == 'store' and res.loc(x.ops[1]) == ('global', 'linenum') and x.ops[0] == ('int', 1)]
        rets = [x for x in cfg.reach_from_block(f.entry, avoid=resets) if x.op == 'ret']
        key = 'C20.R7:%s:%s:linenum-reset' % (f.file, f.name)
        if resets and not rets:
            rep.ok('C20.R7', '%s(): installs a new input file and resets linenum to 1 on every path' % f.name)
        else:
            rep.fail('C20.R7', key, fwhere(f), '%s() switches to a new input file (sets infilename) but can return without setting linenum = 1: with several input files '
                     'every #line of the second file is too large by the length of the first' % f.name, replay_input='flex a.l b.l')
    if n == 0: rep.broken('C20.R7: no function that installs a new input file name was found (set_input_file vanished?)')
    return n

# ------------------------------------------------------------------ R8

class PathEval:
    """per-path variant of c19.RegionEval: evaluates one action region of flexscan and returns, for every path through it,
    the ordered list of calls (callee, args) it makes.  Branches on symbolic values fork; loops are cut by a step cap."""
    def __init__(s, prog, fn, stop):
        import c19
        s.ev = c19.RegionEval(prog, fn, {}, stop); s.fn = fn; s.prog = prog; s.stop = stop
        s.paths = []; s.steps = 0; s.Unknown = c19.Unknown
    def run(s, blk):
        s._go(blk, None, {}, {}, ())
        return s.paths
    def _go(s, blk, prev, regs, mem, trace):
        ev = s.ev
        seen = {}
        while True:
            s.steps += 1
            if s.steps > 6000 or len(s.paths) > 400: raise s.Unknown('region too large')
            seen[blk.name] = seen.get(blk.name, 0) + 1
            if seen[blk.name] > 2: return          # loop inside an action: not followed further (no quote is added in a loop, checked by the caller)
            if s.stop(blk, None): s.paths.append((trace, 'end')); return
            nxt = None
            for x in blk.ins:
                op = x.op
                if op == 'phi':
                    for v, lab in zip(x.ops, x.cases):
                        if prev is not None and lab == prev.name: regs[x.res] = ev.val(v, regs)
                elif op == 'load':
                    k = ev.lkey(x.ops[0]); regs[x.res] = mem.get(k, ('sym', k))
                elif op == 'store':
                    k = ev.lkey(x.ops[1]); v = ev.val(x.ops[0], regs); mem[k] = v
                    trace = trace + (('store', k, v),)
                elif op in ('trunc', 'zext', 'sext', 'bitcast', 'ptrtoint', 'inttoptr'):
                    regs[x.res] = ev.val(x.ops[0], regs)
                elif op in ('xor', 'and', 'or', 'add', 'sub', 'mul'):
                    a = ev.val(x.ops[0], regs); b = ev.val(x.ops[1], regs)
                    if isinstance(a, int) and isinstance(b, int):
                        regs[x.res] = {'xor': a ^ b, 'and': a & b, 'or': a | b, 'add': a + b, 'sub': a - b, 'mul': a * b}[op]
                    else: regs[x.res] = ('sym', op)
                elif op == 'icmp':
                    a = ev.val(x.ops[0], regs); b = ev.val(x.ops[1], regs)
                    if isinstance(a, int) and isinstance(b, int):
                        regs[x.res] = int({'eq': a == b, 'ne': a != b, 'sgt': a > b, 'slt': a < b, 'sge': a >= b, 'sle': a <= b, 'ugt': a > b, 'ult': a < b, 'uge': a >= b, 'ule': a <= b}[x.pred])
                    else: regs[x.res] = ('sym', 'cmp')
                elif op in ('getelementptr', 'alloca'):
                    regs[x.res] = ('addr', ir.loc_str(ev.res.loc(('reg', x.res))))
                elif op in ('call', 'invoke'):
                    cal = x.callee if isinstance(x.callee, str) else '?'
                    args = tuple(ev.val(a, regs) for a in x.ops)
                    trace = trace + (('call', cal, args),)
                    if cal in s.prog.noreturn(): s.paths.append((trace, 'fatal')); return
                    if x.res: regs[x.res] = ('sym', cal + '()')
                elif op == 'br':
                    if not x.ops: nxt = s.fn.bmap[x.targets[0]]
                    else:
                        c = ev.val(x.ops[0], regs)
                        if isinstance(c, int): nxt = s.fn.bmap[x.targets[0] if c else x.targets[1]]
                        else:
                            for t_ in x.targets: s._go(s.fn.bmap[t_], blk, dict(regs), dict(mem), trace)
                            return
                elif op == 'switch':
                    s.paths.append((trace, 'switch')); return
                elif op == 'ret':
                    s.paths.append((trace, 'ret')); return
                elif op == 'unreachable':
                    s.paths.append((trace, 'fatal')); return
                else:
                    if x.res: regs[x.res] = ('sym', op)
            if nxt is None: s.paths.append((trace, 'end')); return
            prev = blk; blk = nxt

QOPEN, QCLOSE = '[' + '[', ']' + ']'

def _qd(text):
    """m4 reads the quote delimiters left to right, two characters at a time"""
    i = 0; d = 0
    while i < len(text):
        two = text[i:i + 2]
        if two == QOPEN: d += 1; i += 2
        elif two == QCLOSE: d -= 1; i += 2
        else: i += 1
    return d

def quote_delta(trace):
    """net number of m4 quotes opened on each channel by the constant strings the path appends"""
    d = {'action_array': 0, 'top_buf': 0}
    for t in trace:
        if t[0] != 'call': continue
        cal, args = t[1], t[2]
        if cal == 'add_action' and args and isinstance(args[0], tuple) and args[0][0] == 'str':
            d['action_array'] += _qd(args[0][1])
        if cal in ('buf_strappend', 'buf_strnappend') and len(args) >= 2 and isinstance(args[1], tuple) and args[1][0] == 'str' \
           and isinstance(args[0], tuple) and 'top_buf' in str(args[0]):
            d['top_buf'] += _qd(args[1][1])
    return d

def r8(ctx, sp):
    """R8: m4 quotes are balanced over the start conditions that copy user text.  For every start condition S of scan.l
    that is entered with yy_push_state: all action paths that push S open the same number d(S) of quotes on a channel
    (action_array, top_buf); every path of a rule active in S that pops closes exactly d(S); every other path of a rule
    active in S that neither pushes nor ends in a fatal error leaves the quote depth unchanged.  An unbalanced path leaves
    the rest of the user's file inside (or outside) an m4 quote: it is mangled or swallowed, with exit status 0."""
    rep = ctx.rep; prog = ctx.flex
    fs = prog.fn('flexscan')
    sw = max([x for x in fs.ins if x.op == 'switch'], key=lambda x: len(x.cases))
    scnum = {i: n for i, n in enumerate(sp.sc_order)}
    rules = [r for r in sp.rules if not r.is_eof]
    paths_of = {}
    for k, r in enumerate(rules, 1):
        tgt = [lab for cv, lab in sw.cases if cv == k]
        if not tgt: rep.broken('C20.R8: flexscan has no case %d for scan.l:%d' % (k, r.line))
        others = {fs.bmap[lab] for cv, lab in sw.cases if lab != tgt[0]}
        pe = PathEval(prog, fs, lambda bb, st, others=others: bb.name.startswith('sw.epilog') or bb in others)
        try: paths_of[k] = pe.run(fs.bmap[tgt[0]])
        except pe.Unknown: paths_of[k] = None
    def pushes(trace): return [scnum.get(t[2][0]) for t in trace if t[0] == 'call' and t[1] == 'yy_push_state' and t[2] and isinstance(t[2][0], int)]
    def pops(trace): return any(t[0] == 'call' and t[1] == 'yy_pop_state' for t in trace)
    def fatal(trace, how): return how == 'fatal' or any(t[0] == 'call' and t[1] in ('synerr', 'format_synerr', 'flexfatal', 'flexerror', 'lerr') for t in trace)
    d_in = {}; sites = {}
    for k, r in enumerate(rules, 1):
        for trace, how in paths_of[k] or ():
            for S in pushes(trace):
                d = quote_delta(trace)
                d_in.setdefault(S, set()).add((d['action_array'], d['top_buf'])); sites.setdefault(S, []).append(r)
    if len(d_in) < 5: rep.broken('C20.R8: only %d pushed start conditions found in the IR of flexscan (7 confirmed)' % len(d_in))
    n = 0
    for S in sorted(d_in):
        if len(d_in[S]) != 1:
            n += 1
            rep.fail('C20.R8', 'C20.R8:scan.l:%s:entered-with-different-quote-depths' % S, 'scan.l:%d' % sites[S][0].line,
                     'start condition %s is pushed by paths that open different numbers of m4 quotes %s: its closing rule cannot be right for all of them' % (S, sorted(d_in[S])))
            continue
        din = next(iter(d_in[S]))
        for k, r in enumerate(rules, 1):
            if r.scs == ['*'] or not r.active_in(S, sp): continue
            if paths_of[k] is None: rep.note('C20.R8 scan.l:%d: action not evaluable' % r.line); continue
            n += 1
            bad = None
            for trace, how in paths_of[k]:
                if fatal(trace, how) or pushes(trace): continue
                d = quote_delta(trace); dd = (d['action_array'], d['top_buf'])
                want = (-din[0], -din[1]) if pops(trace) else (0, 0)
                if dd != want: bad = (dd, want, pops(trace)); break
            key = 'C20.R8:scan.l:%s:%s:unbalanced-quote' % (S, r.pat)
            if bad:
                rep.fail('C20.R8', key, 'scan.l:%d <%s>' % (r.line, S),
                         'rule %r %s start condition %s on a path whose appended text changes the m4 quote depth (action buffer, %%top buffer) by %s; %s entered with %s, so it must change it by %s: '
                         'everything copied afterwards is inside or outside the wrong quote' % (r.pat, 'leaves' if bad[2] else 'stays in', S, bad[0], S, din, bad[1]))
            else:
                rep.ok('C20.R8', '<%s> scan.l:%d %r: every path keeps the quote depth (pop paths close the %s opened on entry)' % (S, r.line, r.pat, din))
    # (b) in any start condition: a path that stays where it is (no BEGIN, push or pop, no return to the parser, no fatal
    # error) must leave the quote depth as it found it
    def begins(trace): return any(t[0] == 'store' and t[1].endswith('yy_start') for t in trace)
    for k, r in enumerate(rules, 1):
        if paths_of[k] is None: continue
        stay = [(trace, how) for trace, how in paths_of[k] if how == 'end' and not fatal(trace, how) and not pushes(trace) and not pops(trace) and not begins(trace)]
        if not stay: continue
        n += 1
        bad = [quote_delta(t) for t, h in stay if any(quote_delta(t).values())]
        scs = ','.join(r.scs) if r.scs else 'INITIAL'
        if bad:
            rep.fail('C20.R8', 'C20.R8:scan.l:%s:%s:stays-with-unbalanced-quote' % (scs, r.pat), 'scan.l:%d <%s>' % (r.line, scs),
                     'rule %r has a path that stays in its start condition but changes the m4 quote depth by %s: everything copied afterwards is inside or outside the wrong quote' % (r.pat, bad[0]))
        else:
            rep.ok('C20.R8', 'scan.l:%d <%s> %r: %d path(s) that stay in the start condition leave the quote depth unchanged' % (r.line, scs, r.pat, len(stay)))
    return n

# ------------------------------------------------------------------ R9

def r9(ctx, sp):
    """R9: a mode flag of flex's scanner is set together with the data it guards.  For static flags of flexscan(): when a
    variable P is read under the true edge of a boolean flag G (`if (G && P)`), and G is set to true at a single site, then
    every action path through that site also assigns P - otherwise the read sees whatever an earlier, unrelated part of
    the input left in P (e.g. the `indented_code` of a previous indented line deciding where a %{ %} block between rules
    ends)."""
    rep = ctx.rep; prog = ctx.flex
    fs = prog.fn('flexscan'); res = ir.Resolver(fs); cfg = prog.cfg(fs, cut=False)
    statics = {}
    for x in fs.ins:
        if x.op in ('load', 'store'):
            l = res.loc(x.ops[0] if x.op == 'load' else x.ops[1])
            if l[0] == 'global' and l[1].startswith('flexscan.'): statics.setdefault(l[1], {'load': [], 'store': []})[x.op].append(x)
    if len(statics) < 4: rep.broken('C20.R9: only %d static variables of flexscan found' % len(statics))
    def boolean(g): return all(x.ops[0][0] == 'int' and x.ops[0][1] in (0, 1) for x in statics[g]['store'])
    pairs = {}
    for P, v in statics.items():
        for L in v['load']:
            for br, t in cfg.control_deps(L.blk):
                if not br.ops: continue
                for d in flow.value_slice(fs, br.ops[0]):
                    if d.op != 'load': continue
                    l = res.loc(d.ops[0])
                    if l[0] == 'global' and l[1] in statics and l[1] != P and boolean(l[1]):
                        # true edge?
                        tgt = br.targets[0]
                        dd = fs.def_of(br.ops[0])
                        pol = True
                        if dd is not None and dd.op == 'icmp' and dd.pred == 'eq' and ('int', 0) in dd.ops: pol = False
                        if (t.name if hasattr(t, 'name') else t) == (br.targets[0] if pol else br.targets[1]): pairs.setdefault((l[1], P), []).append(L)
    sw = max([x for x in fs.ins if x.op == 'switch'], key=lambda x: len(x.cases))
    n = 0
    for (G, P), loads in sorted(pairs.items()):
        sets = [x for x in statics[G]['store'] if x.ops[0] == ('int', 1)]
        if len(sets) != 1: continue
        S = sets[0]
        # the action (case of the switch) that contains S
        case = [lab for cv, lab in sw.cases if any(y is S for y in prog.cfg(fs).reach_from_block(fs.bmap[lab], avoid=[z for z in [fs.bmap[l2].ins[0] for _, l2 in sw.cases if l2 != lab]]))]
        if not case: rep.broken('C20.R9: the store %s = true is in no action of flexscan' % G)
        others = {fs.bmap[lab] for cv, lab in sw.cases if lab != case[0]}
        pe = PathEval(prog, fs, lambda bb, st, others=others: bb.name.startswith('sw.epilog') or bb in others)
        try: paths = pe.run(fs.bmap[case[0]])
        except pe.Unknown: rep.note('C20.R9: action of %s = true not evaluable' % G); continue
        n += 1
        gk = '@' + G; pk = '@' + P
        bad = [tr for tr, how in paths if any(t[0] == 'store' and t[1] == gk and t[2] == 1 for t in tr) and not any(t[0] == 'store' and t[1] == pk for t in tr)]
        g_, p_ = G.split('.')[1], P.split('.')[1]
        if bad:
            rep.fail('C20.R9', 'C20.R9:scan.l:%s:%s:flag-set-without-its-data' % (g_, p_), where(S),
                     'an action sets %s = true but not %s, which is read under %s (scan.l:%s): the read sees the value left by an earlier, unrelated construct of the input' % (g_, p_, g_, loads[0].line),
                     replay_input='an indented code line before the rules, then a multi-line %{ %} block between rules')
        else:
            rep.ok('C20.R9', 'flexscan: every path that sets %s = true also assigns %s (read under %s at scan.l:%s)' % (g_, p_, g_, loads[0].line))
    return n

# ------------------------------------------------------------------ R10

def r10(ctx):
    """R10: the last output filter drops lines only when it can tell generated code from user code.  In
    filter_fix_linedirs() every path from one fgets() to the next that does not write the line (the blank-line squeeze)
    must be control dependent on ctrl.gen_line_dirs: the filter recognises generated code by the line directives it
    passes, and with -L / %option noline there are none, so a squeeze would remove blank lines from the user's code."""
    rep = ctx.rep; prog = ctx.flex
    f = prog.fn('filter_fix_linedirs')
    if f is None: rep.broken('filter_fix_linedirs not found')
    res = ir.Resolver(f); cfg = prog.cfg(f, cut=False)
    F = [c for c in f.ins if c.op == 'call' and c.callee == 'fgets']
    P = [c for c in f.ins if c.op == 'call' and c.callee in ('fputs', 'fwrite', 'fprintf') and any(res.loc(a) == ('global', 'stdout') or (f.def_of(a) is not None and f.def_of(a).op == 'load' and res.loc(f.def_of(a).ops[0]) == ('global', 'stdout')) for a in c.ops if a[0] == 'reg')]
    if len(F) != 1 or not P: rep.broken('C20.R10: filter_fix_linedirs has %d fgets calls and %d writes to stdout' % (len(F), len(P)))
    F = F[0]
    after_read = set(y.blk for y in cfg.reach(F, avoid=P))
    back_to_read = set(b for b in f.blocks if F in cfg.reach_from_block(b, avoid=P) or F in b.ins)
    after_write = set(y.blk for p_ in P for y in cfg.reach(p_, avoid=[F]))
    skip = [b for b in f.blocks if b in after_read and b in back_to_read and b not in after_write and b is not F.blk]
    # blocks on a path read -> read that bypasses the write, excluding those that can still reach the write
    skip = [b for b in skip if not any(p_ in cfg.reach_from_block(b, avoid=[F]) for p_ in P)]
    GLD = ('field', 'ctrl_bundle_t', 'gen_line_dirs')
    key = 'C20.R10:filter.c:filter_fix_linedirs:line-dropped-without-line-directives'
    if not skip:
        rep.ok('C20.R10', 'filter_fix_linedirs: every line read is written (no squeeze)'); return 1
    bad = []
    for b in skip:
        locs = set()
        for br, t in cfg.control_deps_closure(b):
            for d, l in flow.cond_loads(f, br, res): locs.add(ir.loc_class(l))
        if GLD not in locs: bad.append(b)
    if bad:
        rep.fail('C20.R10', key, where(bad[0].ins[0]), 'filter_fix_linedirs drops a line (blank-line squeeze) on a path that does not depend on ctrl.gen_line_dirs: with -L there are no line directives to tell '
                 'generated code from user code, and blank lines of the user\'s code are removed', replay_input='flex -L on a file whose %{ %} block or section 3 contains three consecutive blank lines')
    else:
        rep.ok('C20.R10', 'filter_fix_linedirs: the %d block(s) that skip the write are control dependent on ctrl.gen_line_dirs' % len(skip))
    return 1

# ------------------------------------------------------------------ R11

def r11(ctx):
    """R11: generated code is attributed to the file it is written to.  filter_tee_header() feeds two m4 runs, one for the
    scanner and one for the header, and tells each its own file name through M4_YY_OUTFILE_NAME (the name the line
    directives for generated code carry).  The stream that also receives M4_YY_IN_HEADER is the header's: its definition
    must take the name from env.headerfilename, the other one from env.outfilename."""
    rep = ctx.rep; prog = ctx.flex
    f = prog.fn('filter_tee_header')
    if f is None or not f.blocks: rep.broken('filter_tee_header not found')
    res = ir.Resolver(f)
    def stream_of(c):
        for a in c.ops:
            d = f.def_of(a) if a[0] == 'reg' else None
            if d is not None and d.op == 'load':
                l = res.loc(d.ops[0])
                if l[0] == 'local': return l
        return None
    def fmt_of(c):
        for a in c.ops:
            t = f.mod.cstring(a)
            if t is not None: return t
        return None
    hdr_stream = None; defs = []
    for c in f.ins:
        if c.op != 'call' or c.callee not in ('fputs', 'fprintf'): continue
        t = fmt_of(c)
        if t is None: continue
        if 'M4_YY_IN_HEADER' in t: hdr_stream = stream_of(c)
        if 'M4_YY_OUTFILE_NAME' in t and '%s' in t and c.callee == 'fprintf': defs.append(c)
    if hdr_stream is None or len(defs) != 2: rep.broken('C20.R11: filter_tee_header: header stream %s, %d definitions of M4_YY_OUTFILE_NAME' % (hdr_stream, len(defs)))
    n = 0
    for c in defs:
        st = stream_of(c)
        fields = set()
        for a in c.ops:
            for d in flow.value_slice(f, a):
                if d.op == 'load':
                    cl = ir.loc_class(res.loc(d.ops[0]))
                    if cl and cl[0] == 'field' and cl[2] in ('headerfilename', 'outfilename'): fields.add(cl[2])
                if d.op == 'phi':
                    for o in d.ops:
                        for e in flow.value_slice(f, o):
                            if e.op == 'load':
                                cl = ir.loc_class(res.loc(e.ops[0]))
                                if cl and cl[0] == 'field' and cl[2] in ('headerfilename', 'outfilename'): fields.add(cl[2])
        want = 'headerfilename' if st == hdr_stream else 'outfilename'
        which = 'header' if st == hdr_stream else 'scanner'
        n += 1
        if fields == {want}:
            rep.ok('C20.R11', 'filter_tee_header: the %s stream is told env.%s as M4_YY_OUTFILE_NAME' % (which, want))
        else:
            rep.fail('C20.R11', 'C20.R11:filter.c:filter_tee_header:%s-named-after-%s' % (which, '+'.join(sorted(fields)) or 'nothing'), where(c),
                     'the m4 run that produces the %s is given M4_YY_OUTFILE_NAME from {%s} instead of env.%s: line directives for generated code in the %s name the wrong file'
                     % (which, ', '.join(sorted(fields)) or 'no file name field', want, which),
                     replay_input='flex --header-file=scan.h -o scan.c (without -L): grep "#line" scan.h names "scan.c"')
    return n

def run(ctx):
    rep = ctx.rep
    sp = lex.parse_spec(ctx.art.source('scan.l'))
    rep.require(len(sp.rules) >= 250, 'scan.l model has only %d rules' % len(sp.rules))
    rep.setcount('scan_l_rules', len(sp.rules))
    r1(ctx); r2(ctx, sp); r3(ctx, sp); r4(ctx); r5(ctx, sp); r6(ctx, sp); r7(ctx); r8(ctx, sp); r9(ctx, sp); r10(ctx); r11(ctx)
    rep.floor('C20.R1', 2, 'line_directive_out + the %top trampoline')
    rep.floor('C20.R2', 60, 'raw-echo rule x copying start condition pairs')
    rep.floor('C20.R3', 8, 'entry rules + 2 cross-module openers + section 3')
    rep.floor('C20.R4', 1, 'lineno in filter_fix_linedirs')
    rep.floor('C20.R6', 6, 'pushed start conditions of scan.l')
    rep.floor('C20.R7', 1, 'set_input_file')
    rep.floor('C20.R10', 1, 'the squeeze of filter_fix_linedirs')
    rep.floor('C20.R11', 2, 'the two m4 preambles of filter_tee_header')
    rep.floor('C20.R9', 1, 'doing_codeblock / indented_code')
    rep.floor('C20.R8', 150, 'rules active in the 7 pushed start conditions + rules with a path that stays in its start condition')
    rep.floor('C20.R5', 250, 'one obligation per non-EOF rule of scan.l')
    rep.undecided += ['byte-for-byte equality of copied text for all contents', 'correctness of each linenum value passed to line_directive_out',
                      'm4 macro names and $n inside user text (protected by the quotes checked here)']
    rep.assumptions += ['E3 pattern model agrees with flex on the scan.l subset (all 279 rules parse; priority = longest match then first rule)',
                        'classification of actions as raw / escaped / outside-quotes is by the echo macros and calls named in DESIGN C20']
    return rep.finish('other',
        'scan.l is parsed into %d rules; for each of the start conditions that copy user text the combined DFA of the active rules is '
        'explored together with a bracket abstraction of the token, in both the at-BOL and mid-line contexts, and every (rule, state) whose '
        'winning token can carry an unescaped [[ or ]] is reported with a witness; quote opening is checked per channel; line-directive '
        'emission sites are checked for control dependence on ctrl.gen_line_dirs in the IR of flex.' % len(sp.rules))
