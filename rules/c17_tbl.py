"""C17.R3 - the warnings flex printed while generating the probe scanners are exact: a rule is reported "cannot be
matched" if and only if, in the reference automaton built from the rule text (E3), it is the selected rule in no reachable
state of any start condition and line-start state; with -s the default-rule warning appears iff the default rule is
selected somewhere.  The warnings are an output of the generator, captured at instantiation; nothing is run afterwards.
With REJECT every matching rule may be reached, and only "no false warning" is required (the property says so)."""
import re
import variants, lex, tbl

PROBES = {
 'shadow': r'''
%x XA
%%
[a-z]+     { return 1; }
if         { return 2; }
<XA>f.*    { return 3; }
<XA>foo    { return 4; }
<XA>.|\n   { return 5; }
[0-9]+     { return 6; }
12         { return 7; }
"12"x      { return 8; }
%%
''',
 'contaction': r'''
%%
[0-9]+     |
[a-f]+     { return 1; }
12         |
xyz        { return 2; }
zz         |
z+         { return 3; }
q          |
zzz        { return 4; }
r          { return 5; }
%%
''',
 'clean': r'''
%%
if|else    { return 1; }
[a-z]+     { return 2; }
[0-9]+     { return 3; }
.|\n       { return 4; }
%%
''',
 'bolonly': r'''
%s SI
%x XB
%%
^ab        { return 1; }
ab         { return 2; }
^ab$       { return 3; }
<SI>ab     { return 4; }
<XB>ab     { return 5; }
<XB>^ab    { return 6; }
<*>ab      { return 7; }
.|\n       { return 8; }
%%
''',
 'classes': r'''
%%
[[:alpha:]]      { return 1; }
[[:upper:]]      { return 2; }
[[:alnum:]]      { return 3; }
[[:digit:]]      { return 4; }
[[:xdigit:]]     { return 5; }
[a-f]            { return 6; }
[^[:alnum:]\n]   { return 7; }
[[:punct:]]      { return 8; }
\n               { return 9; }
%%
''',
}

def selected_rules(sp, reject):
    """set of rule numbers that are selected (non-REJECT: the first accepting rule of some reachable state; REJECT: any
    accepting rule) in some start condition / line-start state; the default rule has number n+1"""
    sel = set()
    for sc in sp.sc_order:
        for bol in (False, True):
            ref, ndefault = tbl.reference(sp, sc, bol)
            seen = {0}; st = [0]
            while st:
                q = st.pop()
                acc = ref.accept.get(q, [])
                if acc and q != 0:
                    if reject: sel |= set(acc)
                    else: sel.add(acc[0])
                for ci in range(len(ref.classes)):
                    t = ref.trans.get((q, ci))
                    if t is not None and t not in seen: seen.add(t); st.append(t)
    return sel

def run(ctx, rep):
    vs = []
    import tbl_probes
    probes = dict(PROBES)
    probes['scanl'] = tbl_probes.scanl_probe(ctx.art)[0]      # flex's own ~275 patterns: more rules than the initial size of rule_useful[]
    for name, body in probes.items():
        for tag, opts in (('warn', ['noyywrap']), ('s', ['noyywrap', 'nodefault']), ('rej', ['noyywrap', 'reject']), ('Cf', ['noyywrap', 'full'])):
            if name == 'scanl' and tag in ('rej', 'Cf'): continue
            spec = ''.join('%%option %s\n' % o for o in opts) + body.lstrip('\n')
            vs.append(variants.Variant('warn_%s_%s' % (name, tag), 'nr', (), opts, raw_spec=spec))
    variants.instantiate(ctx.art, vs, 'warn')
    n = 0
    for v in vs:
        if v.crashed or v.refused: rep.broken('C17.R3: probe %s was refused: %s' % (v.name, v.stderr[-200:]))
        sp = lex.parse_spec(v.spec())
        reject = 'reject' in v.options
        sel = selected_rules(sp, reject)
        warned = {int(m.group(1)) for m in re.finditer(r'spec\.l:(\d+): warning, rule cannot be matched', v.stderr)}
        dflt_warn = '-s option given but default rule can be matched' in v.stderr
        k = 0
        probe = v.name.split('_')[1]
        for r in sp.rules:
            if r.is_eof: continue
            k += 1; n += 1
            w = r.line in warned
            useless = k not in sel
            key = 'C17.R3:warnings:%s:%s' % (probe, r.pat)
            if w and not useless:
                rep.fail('C17.R3', key + ':false-warning', '%s spec.l:%d' % (v.name, r.line), 'flex warns that rule %r cannot be matched, but it is the selected rule for some input' % r.pat, replay_input=v.spec(), variant=v.describe())
            elif useless and not w and not reject:
                rep.fail('C17.R3', key + ':missing-warning', '%s spec.l:%d' % (v.name, r.line), 'rule %r can never be the selected rule, but flex printed no "rule cannot be matched" warning' % r.pat, replay_input=v.spec(), variant=v.describe())
            else:
                rep.ok('C17.R3', '%s rule %d %r: %s, %s' % (v.name, k, r.pat, 'never selected' if useless else 'selectable', 'warned' if w else 'no warning'))
        if 'nodefault' in v.options:
            n += 1
            can_default = (k + 1) in sel
            if can_default != dflt_warn:
                rep.fail('C17.R3', 'C17.R3:warnings:%s:default-rule' % probe, v.name, 'with -s the default rule %s be matched but flex %s the warning' % ('can' if can_default else 'cannot', 'printed' if dflt_warn else 'did not print'), replay_input=v.spec(), variant=v.describe())
            else:
                rep.ok('C17.R3', '%s: default rule %s, -s warning %s' % (v.name, 'reachable' if can_default else 'unreachable', 'printed' if dflt_warn else 'absent'))
    return n
