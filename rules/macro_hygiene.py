"""Argument hygiene of the user-facing function-like macros of the default (cpp) skeleton: C05.R8 (yybegin & co.) and C08.R9
(yyless, unput & co.).

The default C/C++ back end implements part of the documented API as preprocessor macros.  The manual documents them as if
they were functions taking an expression (`yybegin(cond ? A : B)`, `yyless(yyleng - 1)`, `unput(c + 1)`), so every use of the
parameter in the replacement list must be protected against the precedence of the surrounding operators: enclosed in
parentheses, or a complete argument of a call.  A macro that uses its parameter bare (`1 + 2 * s`) computes another start
state for an argument such as `c ? B : A` although every use with a plain name still works - which is why no test notices.

Decided on the token sequence of each macro's replacement list in one instantiated scanner per API flavour of the cpp
skeleton (the definitions as the compiler's preprocessor sees them, after m4): a use of a parameter is accepted when it is
enclosed by ( [ , on the left and ) ] , on the right, is an operand of # / ##, or is the whole right-hand side of an
assignment statement (`= p ;`, nothing binds weaker than `=` except the comma, which cannot occur in a macro argument
outside parentheses).  Any other use is reported.  (clang-tidy 14's bugprone-macro-parentheses was tried first and is not
used: it never examines the first and the last token of a replacement list, which is exactly where `1 + 2 * s` has it.)
Restricted to the table of documented macros whose parameters are expressions; a positive control (a macro with a bare
parameter) must be flagged on every run.
"""
import os, re

_TOK = re.compile(r'\s+|/\*.*?\*/|//[^\n]*|("(?:\\.|[^"\\])*"|\'(?:\\.|[^\'\\])*\'|[A-Za-z_]\w*|\d[\w.]*|##|->|\+\+|--|<<=|>>=|<<|>>|<=|>=|==|!=|&&|\|\||[-+*/%&|^]=|.)', re.S)
def tokens(text):
    out = []
    for m in _TOK.finditer(text):
        if m.group(1) is not None: out.append(m.group(1))
    return out

def macros(src_text):
    """[(line, name, [params], [replacement tokens], replacement text)] of every function-like #define"""
    out = []; lines = src_text.split('\n'); i = 0
    while i < len(lines):
        m = re.match(r'\s*#\s*define\s+([A-Za-z_]\w*)\(([^)]*)\)(.*)$', lines[i], re.S)
        j = i
        if m:
            body = m.group(3)
            while body.rstrip().endswith('\\') and j + 1 < len(lines):
                j += 1; body = body.rstrip()[:-1] + '\n' + lines[j]
            params = [p.strip() for p in m.group(2).split(',') if p.strip()]
            out.append((i + 1, m.group(1), params, tokens(body), body))
        i = j + 1
    return out

LEFT = {'(', '[', ','}; RIGHT = {')', ']', ','}
def bare_uses(params, toks):
    """[(index, prev, next)] of parameter uses that an argument with a low-precedence operator could break"""
    bad = []
    for k, t in enumerate(toks):
        if t not in params: continue
        prev = toks[k - 1] if k else None; nxt = toks[k + 1] if k + 1 < len(toks) else None
        if prev in LEFT and nxt in RIGHT: continue
        if prev in ('#', '##') or nxt == '##': continue
        if prev == '=' and nxt == ';': continue
        bad.append((k, prev, nxt))
    return bad

CONTROL = '#define yy_ctl_bad(s) (x) = 1 + 2 * s\n#define yy_ctl_good(s) (x) = 1 + 2 * (s)\n#define yy_ctl_call(c) f( c, (y) )\n#define yy_ctl_asg(v) { z = v; }\n'

def check(ctx, rule, names, want_present):
    """names: documented macros whose parameters are expressions; want_present: those that must exist in the nr variant
    (instance floor).  Returns the number of macro definitions examined."""
    rep = ctx.rep
    ctl = {nm: bare_uses(ps, tk) for _, nm, ps, tk, _ in macros(CONTROL)}
    if not (ctl.get('yy_ctl_bad') and ctl.get('yy_ctl_good') == [] and ctl.get('yy_ctl_call') == [] and ctl.get('yy_ctl_asg') == []):
        rep.broken('%s: positive control: the macro scanner no longer tells a bare parameter from a protected one (%r)' % (rule, ctl)); return 0
    chosen = {}
    for v in ctx.core():
        if v.src is None or v.refused or v.crashed or v.backend not in ('nr', 'r', 'cxx'): continue
        if v.backend not in chosen: chosen[v.backend] = v
    rep.require(set(chosen) == {'nr', 'r', 'cxx'}, '%s: no instantiated scanner for some flavour of the cpp skeleton (%s)' % (rule, sorted(chosen)))
    n = 0
    for be, v in sorted(chosen.items()):
        text = open(v.src, errors='replace').read()
        ms = macros(text)
        present = {nm for _, nm, _, _, _ in ms}
        if be == 'nr':
            missing = [x for x in want_present if x not in present]
            if missing: rep.broken('%s: macro(s) %s are no longer defined in the non-reentrant scanner %s (anchor vanished)' % (rule, missing, v.name)); return n
        for line, nm, params, toks, body in ms:
            if nm not in names or not params: continue
            n += 1
            bad = bare_uses(params, toks)
            if bad:
                k, prev, nxt = bad[0]
                ctxt = ' '.join(toks[max(0, k - 5):k + 4])
                rep.fail(rule, '%s:cpp-flex.skl:%s:bare-macro-argument' % (rule, nm), '%s %s:%d' % (v.name, os.path.basename(v.src), line),
                         'the documented macro %s(%s) uses its argument without parentheses (`... %s ...`): an argument that is an expression with a '
                         'lower-precedence operator (c ? A : B, a + k) is combined with the surrounding operators of the macro body' % (nm, ','.join(params), ctxt[:140]),
                         replay_input='%%%%\nx  { %s(yyleng > 1 ? 1 : 0); }\n' % nm, variant=v.describe())
            else:
                rep.ok(rule, '%s (%s) line %d: every use of the argument of %s() is parenthesised, a whole call argument or a whole assigned value' % (v.name, be, line, nm))
    return n
