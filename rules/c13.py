"""C13 - generated scanners release what they allocate, with the matching release function, and stay consistent.

A field-based (object-insensitive) value-flow graph is built per scanner variant from the LLVM IR: nodes are struct fields,
globals, "what the pointer in X points to", parameters and return values of scanner functions; an edge means "a pointer value
stored/passed/returned here may be the same pointer as there" (exact values only: pointer arithmetic does not propagate).
Allocation families (yyalloc/yyrealloc, new[], new, malloc, caller-supplied, address of a static/stack object) flow along it.

R1  every release call (yyfree, yyrealloc's first argument, delete[], delete, free/realloc) receives only pointers of its own
    family; a location that may hold a caller-supplied block is released only under the ownership flag yy_is_our_buffer.
R2  every allocation result reaches a storage location, the caller, or a release; every storage location that holds an
    allocation is released by a function in the call tree of the documented destructor; everything handed to the caller is
    released by an API function that frees its own parameter of the same type.
R3  REJECT scanners: every function that makes another buffer current goes on to compare yy_state_buf_max with the size of
    the buffer before it returns.
R4  after a release of a pointer read from a field/global, that field/global is overwritten before the function returns.
R8  C++: every member that yy_init_globals of the C scanners resets and that a member function reads is initialised on every
    constructor path (sibling agreement ctor_common <-> yy_init_globals).
R9  %array: every bulk copy into the yytext array is dominated by a capacity comparison that covers destination offset + length
    (all additive terms, e.g. yy_more_offset) and whose failing edge is fatal.
R10 REJECT: every cell the yyreject() expansion restores from (yy_full_match, yy_full_lp, yy_full_state) is saved for the current
    token on every path from the token start / from the arm that starts the trailing-context search to the restore.
R11 REJECT: at every (re)allocation of yy_state_buf the provided element count, the value recorded in yy_state_buf_max and the guard's
    threshold are the same linear expression.
R12 serialized tables: min_int_size() picks a cell width only for maxima that fit the (signed) type yytbl_data_load reads it into.
R5  every field/static whose zero value triggers lazy initialisation is reset by yy_init_globals, which yylex_destroy calls
    after its frees; arrays released in yylex_destroy have their index/capacity companions reset too.
"""
import os, re
import ir, flow, variants
from common import where, fwhere, VERIF
from c12 import Origins, norm, skel, compile_control, _Probe, _FakeVariant

ALLOC_FAMS = ('yy', 'new[]', 'new', 'malloc')
EXT_ALLOC = {'_Znam': 'new[]', '_Znwm': 'new', 'malloc': 'malloc', 'calloc': 'malloc', 'realloc': 'malloc', 'strdup': 'malloc'}
EXT_RELEASE = {'_ZdaPv': 'new[]', '_ZdlPv': 'new', '_ZdaPvm': 'new[]', '_ZdlPvm': 'new', 'free': 'malloc', 'realloc': 'malloc'}
RELEASE_NAME = {'_ZdaPv': 'delete[]', '_ZdlPv': 'delete', '_ZdaPvm': 'delete[]', '_ZdlPvm': 'delete'}
WRAPPERS = ('yyalloc', 'yyrealloc', 'yyfree')

import functools
@functools.lru_cache(maxsize=None)
def canon(name):
    """field / global name without back-end spelling: yy_state_buf_max, yy_state_buf_max_r, yyStateBufMax, _ZL..  -> yystatebufmax"""
    n = norm(name)
    n = re.sub(r'_r$', '', n)
    return n.replace('_', '').lower()

# go-flex.skl spells some members differently; canonical (cpp) name on the right
GO_ALIASES = {'yyinputbufsize': 'yybufsize', 'yystartstackoffset': 'yystartstackptr', 'yyinputbuf': 'yychbuf'}
def ccanon(name):
    c = canon(name)
    return GO_ALIASES.get(c, c)

def fkey(fn):
    """function name for keys: prefix and class qualification removed (yyFlexLexer::yylex, VerifLexer::yylex, foolex -> yylex)"""
    return norm(fn.name if not isinstance(fn, str) else fn).split('::')[-1]

def node_str(n):
    k = n[0]
    if k == 'F': return n[2]
    if k == 'G': return norm(n[1])
    if k == 'D': return '*' + node_str(n[1])
    if k == 'P': return '%s(%s)' % (norm(n[1]), n[2])
    if k == 'R': return '%s()' % norm(n[1])
    if k == 'L': return '%s.%s' % (norm(n[1]), n[2])
    return str(n)

def node_key(n):
    """stable key part: canonical spelling, so that the same construct has one key in every back end"""
    k = n[0]
    if k == 'F': return re.sub(r'_r$', '', n[2])
    if k == 'G': return norm(n[1])
    if k == 'D': return '*' + node_key(n[1])
    if k == 'P': return 'param-' + n[2]
    if k == 'R': return 'result-of-' + norm(n[1])
    if k == 'L': return 'local-' + n[2]
    return str(n)

class Flow:
    """value-flow graph of one scanner module"""
    def __init__(s, prog, mod):
        s.prog = prog; s.mod = mod
        s.O = {}; s.res = {}
        s.edges = {}         # dst node -> set of src nodes
        s.lits = {}          # node -> set of (family, ins)
        s.consumers = []     # (call ins, release family, [sources]) ; source = ('node', n) | ('lit', fam, ins)
        s.alloc_calls = []   # alloc call instructions outside the wrappers
        s.used_allocs = set()
        s.escapes = []       # (type string, family, fn, ins, how)
        s.wrappers = {n for n in mod.functions if norm(n) in WRAPPERS}
        s.names = {n: norm(n) for n in list(mod.functions) + list(mod.declares)}
        s._build()
        s._solve()

    # ---- helpers
    def callee_of(s, x):
        """name of the module function a call instruction reaches: direct, or C++ virtual through the class's vtable"""
        if isinstance(x.callee, str): return x.callee if x.callee in s.mod.functions else None
        if x.callee is None or x.callee[0] != 'reg': return None
        fn = x.fn
        d = fn.def_of(x.callee)
        if d is None or d.op != 'load': return None
        a = fn.def_of(d.ops[0]); slot = 0
        if a is not None and a.op == 'getelementptr' and len(a.ops) == 2 and a.ops[1][0] == 'int':
            slot = a.ops[1][1]; a = fn.def_of(a.ops[0])
        if a is None or a.op != 'load': return None
        c = fn.def_of(a.ops[0])
        if c is None or c.op != 'bitcast' or c.srcty is None: return None
        m = re.match(r'%"?class\.([\w:]+)"?\*$', repr(c.srcty))
        if not m: return None
        cls = m.group(1)
        g = s.mod.globals.get('_ZTV%d%s' % (len(cls), cls))
        if g is None or g.init is None: return None
        ents = list(ir.globs_in(g.init))          # [typeinfo, slot0, slot1, ...] (the leading offset-to-top entry is null)
        if slot + 1 >= len(ents): return None
        t = ents[slot + 1]
        t = re.sub(r'D1Ev$', 'D2Ev', t) if t not in s.mod.functions else t      # complete-object dtor is an alias of the base-object dtor
        return t if t in s.mod.functions else None

    def callgraph(s):
        if getattr(s, '_cg', None) is None:
            g = {}
            for f in s.mod.functions.values():
                g[f.name] = set()
                for x in f.ins:
                    if x.op in ('call', 'invoke'):
                        c = s.callee_of(x)
                        if c: g[f.name].add(c)
            s._cg = g
        return s._cg

    def reachable_fns(s, roots):
        g = s.callgraph(); seen = set(roots); st = list(roots)
        while st:
            x = st.pop()
            for y in g.get(x, ()):
                if y not in seen: seen.add(y); st.append(y)
        return seen

    def o(s, fn):
        if fn.name not in s.O: s.O[fn.name] = Origins(fn); s.res[fn.name] = ir.Resolver(fn)
        return s.O[fn.name]

    def alloc_family(s, callee):
        if not isinstance(callee, str): return None
        b = s.names.get(callee, callee)
        if b in ('yyalloc', 'yyrealloc'): return 'yy'
        return EXT_ALLOC.get(callee)

    def release_family(s, callee):
        if not isinstance(callee, str): return None
        b = s.names.get(callee, callee)
        if b in ('yyfree', 'yyrealloc'): return 'yy'
        return EXT_RELEASE.get(callee)

    def addr_nodes(s, fn, a, depth=0):
        """storage nodes designated by address value a"""
        if depth > 6: return set()
        O = s.o(fn); res = s.res[fn.name]
        loc = res.loc(a)
        c = ir.loc_class(loc)
        if not c: return set()
        k = c[0]
        if k == 'field': return {('F', c[1], c[2])}
        if k == 'global': return {('G', c[1])}
        if k == 'local': return {('L', fn.name, c[1])}
        if k == 'param': return {('D', ('P', fn.name, c[1]))}
        if k in ('deref', 'call', 'unknown'):
            # find the pointer value the address is computed from
            v = a
            for _ in range(30):
                if v[0] == 'ccast': v = v[2]; continue
                if v[0] == 'cgep': v = v[2]; continue
                d = fn.def_of(v)
                if d is not None and d.op in ('getelementptr', 'bitcast', 'addrspacecast'): v = d.ops[0]; continue
                break
            out = set()
            for o_ in O.of(v):
                t = o_[0]
                if t == 'load':
                    for cc in s.addr_nodes(fn, o_[1], depth + 1): out.add(('D', cc))
                elif t == 'param': out.add(('D', ('P', fn.name, o_[1])))
                elif t == 'call':
                    tgt = s.callee_of(o_[2])
                    if tgt: out.add(('D', ('R', tgt)))
                    else: out.add(('D', ('X', o_[1])))
                elif t == 'alloca': out.add(('L', fn.name, o_[1]))
                elif t == 'global': out.add(('G', o_[1]))
            return out
        return set()

    def sources(s, fn, v):
        """where an (exact) pointer value may come from: list of ('lit', family, ins) / ('node', n)"""
        out = []
        for o_ in s.o(fn).of(v):
            if o_[-1]: continue                     # interior pointer
            t = o_[0]
            if t == 'call':
                fam = s.alloc_family(o_[1])
                tgt = s.callee_of(o_[2])
                if fam and fn.name not in s.wrappers: out.append(('lit', fam, o_[2]))
                elif tgt: out.append(('node', ('R', tgt)))
                elif o_[1] != '?': out.append(('lit', 'extern:' + o_[1], o_[2]))
            elif t == 'param': out.append(('node', ('P', fn.name, o_[1])))
            elif t == 'load':
                for n in s.addr_nodes(fn, o_[1]): out.append(('node', n))
            elif t == 'alloca': out.append(('lit', 'stack', None))
            elif t == 'global':
                if o_[1] not in s.mod.functions and o_[1] not in s.mod.declares: out.append(('lit', 'static', None))
        return out

    def _flow(s, srcs, dst):
        for sc in srcs:
            if sc[0] == 'lit':
                s.lits.setdefault(dst, set()).add((sc[1], sc[2]))
                if sc[2] is not None: s.used_allocs.add(sc[2])
            else:
                s.edges.setdefault(dst, set()).add(sc[1])

    def _build(s):
        mod = s.mod
        for fn in mod.functions.values():
            if not fn.blocks: continue
            if fn.linkage == 'external':
                for t, n in fn.params:
                    if n is not None and t.k == 'ptr': s.lits.setdefault(('P', fn.name, n), set()).add(('caller', None))
            if fn.name in s.wrappers: continue
            for x in fn.ins:
                op = x.op
                if op == 'store':
                    if x.ty is None or x.ty.k != 'ptr': continue
                    srcs = s.sources(fn, x.ops[0])
                    if not srcs: continue
                    d = fn.def_of(x.ops[1])
                    if d is not None and d.op == 'alloca' and d.res not in s.o(fn).escaped: continue      # plain local: Origins sees through it
                    for n in s.addr_nodes(fn, x.ops[1]):
                        s._flow(srcs, n)
                        if n[0] == 'D' and n[1][0] == 'P' and mod.functions[n[1][1]].linkage == 'external':
                            for sc in srcs:
                                if sc[0] == 'lit' and sc[1] in ALLOC_FAMS: s.escapes.append((repr(x.ty), sc[1], fn, x, 'stored through parameter %s' % n[1][2]))
                elif op in ('call', 'invoke'):
                    if s.alloc_family(x.callee): s.alloc_calls.append(x)
                    rf = s.release_family(x.callee)
                    if rf and x.ops:
                        srcs = s.sources(fn, x.ops[0])
                        for sc in srcs:
                            if sc[0] == 'lit' and sc[2] is not None: s.used_allocs.add(sc[2])
                        s.consumers.append((x, rf, srcs))
                    tgt = s.callee_of(x)
                    if tgt and tgt not in s.wrappers:
                        cal = mod.functions[tgt]
                        for i, a in enumerate(x.ops):
                            if i >= len(cal.params): break
                            t, pn = cal.params[i]
                            if pn is None or t.k != 'ptr': continue
                            s._flow(s.sources(fn, a), ('P', cal.name, pn))
                elif op == 'ret':
                    if x.ops and x.ty is not None and x.ty.k == 'ptr':
                        srcs = s.sources(fn, x.ops[0])
                        s._flow(srcs, ('R', fn.name))

    def _solve(s):
        fam = {}
        nodes = set(s.lits) | set(s.edges)
        for ss in s.edges.values(): nodes |= ss
        for n in nodes: fam[n] = {f for f, _ in s.lits.get(n, ())}
        changed = True
        while changed:
            changed = False
            for d, ss in s.edges.items():
                for sn in ss:
                    add = fam.get(sn, set()) - fam[d]
                    if add: fam[d] |= add; changed = True
        s.fam = fam
        # forward adjacency for reachability
        s.fwd = {}
        for d, ss in s.edges.items():
            for sn in ss: s.fwd.setdefault(sn, set()).add(d)
        # external functions returning an allocation hand it to the caller
        for n, f in fam.items():
            if n[0] == 'R' and s.mod.functions[n[1]].linkage == 'external':
                fn = s.mod.functions[n[1]]
                for a in f & set(ALLOC_FAMS):
                    s.escapes.append((repr(fn.retty), a, fn, None, 'returned'))

    def families(s, srcs):
        out = set()
        for sc in srcs:
            if sc[0] == 'lit': out.add(sc[1])
            else: out |= s.fam.get(sc[1], set())
        return out

    def reach(s, n):
        seen = {n}; st = [n]
        while st:
            x = st.pop()
            for y in s.fwd.get(x, ()):
                if y not in seen: seen.add(y); st.append(y)
        return seen

def relname(s, x):
    return RELEASE_NAME.get(x.callee, s.names.get(x.callee, x.callee))

# ---------------------------------------------------------------- R1

def guarded_by_ownership(prog, call):
    for c in flow.controlling_locs(prog, call):
        if c and c[0] == 'field' and ccanon(c[2]) == 'yyisourbuffer': return True
    return False

def post_read_growth(prog, call):
    """the yyrealloc of yy_ch_buf at the end of yy_get_next_buffer: controlled directly by `yy_n_chars + number_to_move > yy_buf_size`.
    yy_n_chars is at most num_to_read = yy_buf_size - number_to_move - 1 when yyread honours its max_size argument, so the branch is
    dead for every buffer, caller-supplied ones included; it exists for YY_INPUT replacements that over-deliver."""
    direct = set()
    cfg = prog.cfg(call.fn, cut=False)
    for br, t in cfg.control_deps(call.blk):
        for d, l in flow.cond_loads(call.fn, br):
            c = ir.loc_class(l)
            if c and c[0] == 'field': direct.add(ccanon(c[2]))
            elif c and c[0] == 'global': direct.add(ccanon(c[1]))
    return {'yybufsize', 'yynchars'} <= direct and norm(call.fn.name).split('::')[-1] == 'yy_get_next_buffer'

def r1(rep, v, prog, mod, F):
    n = 0
    for call, rf, srcs in F.consumers:
        fn = call.fn
        n += 1
        fams = F.families(srcs)
        rn = relname(F, call)
        nodes = [sc[1] for sc in srcs if sc[0] == 'node']
        what = ','.join(sorted({node_key(x) for x in nodes})) or 'direct'
        wstr = ','.join(sorted({node_str(x) for x in nodes})) or 'a fresh result'
        bad = False
        for f in sorted(fams):
            if f in ALLOC_FAMS and f != rf:
                bad = True
                rep.fail('C13.R1', 'C13.R1:%s:%s:%s:%s<-%s' % (skel(v), fkey(fn), what, rn, {'yy': 'yyalloc'}.get(f, f)), where(call),
                         '%s passes %s to %s, but that location may hold a block obtained from %s [variant %s]' %
                         (fn.name, wstr, rn, {'yy': 'yyalloc/yyrealloc', 'malloc': 'malloc'}.get(f, 'operator ' + f), v.name),
                         variant=v.describe(), replay_input=D20_REPLAY if (f == 'new[]' or rf == 'new[]') else None)
            elif f in ('static', 'stack'):
                bad = True
                rep.fail('C13.R1', 'C13.R1:%s:%s:%s:%s<-%s' % (skel(v), fkey(fn), what, rn, f), where(call),
                         '%s passes %s to %s, but that location may hold the address of a %s object [variant %s]' % (fn.name, wstr, rn, f, v.name), variant=v.describe())
        if 'caller' in fams:
            own_param = any(x[0] == 'P' and x[1] == fn.name for x in nodes)
            if own_param and len(nodes) == 1:
                pass                      # API contract: the function is documented to release its argument
            elif post_read_growth(prog, call):
                rep.note('%s %s:%s: post-read growth of yy_ch_buf excepted (dead unless yyread over-delivers)' % (v.name, fn.name, call.line))
            elif not guarded_by_ownership(prog, call):
                bad = True
                rep.fail('C13.R1', 'C13.R1:%s:%s:%s:%s-unguarded' % (skel(v), fkey(fn), what, rn), where(call),
                         '%s passes %s to %s although it may hold a caller-supplied block and the call is not controlled by yy_is_our_buffer [variant %s]'
                         % (fn.name, wstr, rn, v.name), variant=v.describe())
        if not bad:
            rep.ok('C13.R1', '%s %s:%s %s(%s) families=%s%s' % (v.name, fn.name, call.line, rn, wstr, '/'.join(sorted(fams)) or 'none',
                                                           ' guarded by yy_is_our_buffer' if 'caller' in fams and guarded_by_ownership(prog, call) else ''))
    return n

D20_REPLAY = ('%option c++ noyywrap\n%%\nr { REJECT; }\n.|\\n { }\n%%\nint main(){ yyFlexLexer l; std::istringstream in("x"); '
              'l.yy_switch_to_buffer(l.yy_create_buffer(in, 100000)); return l.yylex(); }  /* yyrealloc() of the new[] block from ctor_common */')

# ---------------------------------------------------------------- R2

DESTRUCTORS = ('yylex_destroy', 'yyFlexLexer::~yyFlexLexer')
ROOTS_BY_STRUCT = {'yytbl_hdr': ('yytbl_fload',), 'yytbl_dmap': ('yytables_destroy',)}

def struct_of(n):
    while n[0] == 'D': n = n[1]
    return n[1] if n[0] == 'F' else None

def r2(rep, v, prog, mod, F):
    n = 0
    byname = {}
    for f in mod.functions.values(): byname.setdefault(norm(f.name), []).append(f.name)
    # (1) no allocation result is dropped
    for call in F.alloc_calls:
        n += 1
        key = 'C13.R2:%s:%s:%s-result-dropped' % (skel(v), fkey(call.fn), F.names.get(call.callee, call.callee))
        if call in F.used_allocs: rep.ok('C13.R2', '%s %s:%s %s result is stored, returned or released' % (v.name, call.fn.name, call.line, call.callee))
        else: rep.fail('C13.R2', key, where(call), 'the result of %s in %s reaches no field, global, caller or release call: leaked [variant %s]' % (call.callee, call.fn.name, v.name), variant=v.describe())
    # (2) every allocation is released from the destructor's call tree, or handed to the caller who has an API function for it
    dtor = [x for d in DESTRUCTORS for x in byname.get(d, [])]
    if not dtor: rep.broken('variant %s has no yylex_destroy / ~yyFlexLexer' % v.name)
    cons_by_node = {}
    param_rel = set()
    for call, rf, srcs in F.consumers:
        for sc in srcs:
            if sc[0] == 'node':
                cons_by_node.setdefault(sc[1], []).append((call, rf))
                if sc[1][0] == 'P' and sc[1][1] == call.fn.name and call.fn.linkage == 'external':
                    for t, pn in call.fn.params:
                        if pn == sc[1][2]: param_rel.add((repr(t), rf))
    trees = {}
    def tree(roots):
        k = tuple(sorted(roots))
        if k not in trees: trees[k] = F.reachable_fns(list(k))
        return trees[k]
    sinks = {}
    for node, ls in F.lits.items():
        for fam, ins in ls:
            if ins is not None and fam in ALLOC_FAMS: sinks.setdefault(ins, set()).add(node)
    esc_by_ins = {}
    for ty, fam, fn, ins, how in F.escapes:
        if ins is not None: esc_by_ins.setdefault(ins, []).append((ty, fam, how))
    for call in F.alloc_calls:
        if call not in F.used_allocs: continue
        fam = F.alloc_family(call.callee)
        start = sinks.get(call, set())
        R = set()
        for nn in start: R |= F.reach(nn)
        n += 1
        released = None
        for m in sorted(R, key=str):
            st = struct_of(m)
            roots = [x for d in ROOTS_BY_STRUCT.get(st, DESTRUCTORS) for x in byname.get(d, [])]
            if not roots: continue
            tr = tree(roots)
            for c2, rf in cons_by_node.get(m, ()):
                if c2.fn.name in tr: released = (m, c2, roots); break
            if released: break
        direct = [c2 for c2, rf, srcs in F.consumers if any(sc[0] == 'lit' and sc[2] is call for sc in srcs)]
        handed = []
        for m in R:
            if m[0] == 'R' and mod.functions[m[1]].linkage == 'external': handed.append((repr(mod.functions[m[1]].retty), 'returned by %s' % m[1]))
            if m[0] == 'D' and m[1][0] == 'P' and mod.functions[m[1][1]].linkage == 'external':
                for x in mod.functions[m[1][1]].ins:
                    if x.op == 'store' and x.ty is not None and x.ty.k == 'ptr' and m in F.addr_nodes(x.fn, x.ops[1]): handed.append((repr(x.ty), 'stored through parameter %s of %s' % (m[1][2], m[1][1])))
        first = sorted(node_key(x) for x in start)[0] if start else 'direct'
        key0 = 'C13.R2:%s:%s:%s->%s' % (skel(v), fkey(call.fn), F.names.get(call.callee, call.callee), first)
        if released:
            m, c2, roots = released
            rep.ok('C13.R2', '%s %s:%s %s -> %s; released by %s(%s)@%s in the call tree of %s' % (v.name, call.fn.name, call.line, call.callee, first, relname(F, c2), node_str(m), c2.fn.name, '/'.join(norm(r) for r in roots)))
        elif direct:
            rep.ok('C13.R2', '%s %s:%s %s result released directly by %s' % (v.name, call.fn.name, call.line, call.callee, relname(F, direct[0])))
        elif handed:
            okh = [h for h in handed if (h[0], fam) in param_rel]
            if okh: rep.ok('C13.R2', '%s %s:%s %s -> %s; %s (%s), which an API function releases' % (v.name, call.fn.name, call.line, call.callee, first, okh[0][1], okh[0][0]))
            else: rep.fail('C13.R2', key0 + ':handed-out-no-release', where(call),
                           'the block allocated in %s is handed to the caller (%s, %s) but no external function releases a parameter of that type [variant %s]' % (call.fn.name, handed[0][1], handed[0][0], v.name), variant=v.describe())
        else:
            rep.fail('C13.R2', key0 + ':never-released', where(call),
                     'the block allocated by %s in %s is stored in %s, but no function in the call tree of the destructor passes that location (or a copy of it) to a release function [variant %s]'
                     % (call.callee, call.fn.name, ', '.join(sorted(node_str(x) for x in start)), v.name), variant=v.describe())
    return n

def _alloc_via_transit(F, node):
    """does an allocation literal reach `node` through parameter / return-value nodes only?"""
    seen = set(); st = [x for x in F.edges.get(node, ()) if x[0] in ('P', 'R')]
    while st:
        x = st.pop()
        if x in seen: continue
        seen.add(x)
        if any(f in ALLOC_FAMS for f, _ in F.lits.get(x, ())): return True
        for y in F.edges.get(x, ()):
            if y[0] in ('P', 'R'): st.append(y)
    return False

# ---------------------------------------------------------------- R3

def _named(node, cname):
    """node is the field/global with canonical name cname"""
    if node[0] == 'F': return ccanon(node[2]) == cname
    if node[0] == 'G': return ccanon(node[1]) == cname
    return False

def _is_slot(node):
    return node[0] == 'D' and _named(node[1], 'yybufferstack')

def capacity_tests(F, fn):
    """conditional branches of fn whose condition reads yy_state_buf_max"""
    out = []
    res = F.o(fn) and F.res[fn.name]
    for b in fn.blocks:
        br = b.ins[-1]
        if br.op != 'br' or not br.ops: continue
        for d, l in flow.cond_loads(fn, br, res):
            if any(_named(nn, 'yystatebufmax') for nn in F.addr_nodes(fn, d.ops[0])): out.append(br); break
    return out

def always_tests(F, prog, fn, memo, depth=0):
    """every path from fn's entry to a return passes a capacity test (directly or in a callee)"""
    if fn.name in memo: return memo[fn.name]
    memo[fn.name] = False
    t = test_points(F, prog, fn, memo, depth)
    cfg = prog.cfg(fn)
    first = fn.entry.ins[0]
    ok = bool(t) and (first in t or not any(x.op == 'ret' for x in cfg.reach(first, avoid=t, include_start=True)))
    memo[fn.name] = ok
    return ok

def test_points(F, prog, fn, memo, depth=0):
    pts = set(capacity_tests(F, fn))
    if depth < 3:
        for x in fn.ins:
            if x.op in ('call', 'invoke'):
                tgt = F.callee_of(x)
                if tgt and tgt != fn.name and always_tests(F, prog, F.mod.functions[tgt], memo, depth + 1): pts.add(x)
    return pts

def has_reject(mod, F):
    """the variant records states for REJECT: some function other than the (re)initialisers reads or writes yy_state_buf_max"""
    for fn in mod.functions.values():
        if norm(fn.name).split('::')[-1] in ('yy_init_globals', 'ctor_common'): continue
        F.o(fn); res = F.res[fn.name]
        for x in fn.ins:
            if x.op in ('load', 'store'):
                c = ir.loc_class(res.loc(x.ops[0] if x.op == 'load' else x.ops[1]))
                if c and ((c[0] == 'field' and ccanon(c[2]) == 'yystatebufmax') or (c[0] == 'global' and ccanon(c[1]) == 'yystatebufmax')): return True
    return False

def r3(rep, v, prog, mod, F):
    n = 0; memo = {}
    loaders = {f for f in mod.functions if norm(f).split('::')[-1] == 'yy_load_buffer_state'}
    if not loaders: rep.broken('variant %s has no yy_load_buffer_state' % v.name)
    for fn in mod.functions.values():
        if not fn.blocks or fn.name in F.wrappers: continue
        events = []
        for x in fn.ins:
            if x.op != 'store': continue
            nodes = F.addr_nodes(fn, x.ops[1])
            if any(_is_slot(nn) for nn in nodes):
                if x.ops[0] == ('null',) or x.ops[0] == ('int', 0): continue
                events.append((x, 'stores a buffer into the current-buffer slot'))
            elif any(_named(nn, 'yybufferstacktop') for nn in nodes):
                if x.ops[0][0] == 'int': continue          # reset to a constant (fresh stack, yy_init_globals)
                events.append((x, 'moves yy_buffer_stack_top'))
        if not events: continue
        cfg = prog.cfg(fn)
        pts = test_points(F, prog, fn, memo)
        for x, what in events:
            # the new buffer becomes the one being scanned only when the scanning pointers are loaded from it
            after = cfg.reach(x)
            if not any(y.op in ('call', 'invoke') and (F.callee_of(y) or '') in loaders for y in after):
                rep.note('%s %s:%s %s but does not load the buffer state (the buffer is activated later by yylex/yyrestart)' % (v.name, fn.name, x.line, what)); continue
            n += 1
            # a path matters only if it activates the buffer (passes a call of yy_load_buffer_state): a pop that leaves the
            # stack empty makes no buffer current, and yylex loads (and tests) the one it creates later
            acts = [y for y in cfg.reach(x, avoid=pts) if y.op in ('call', 'invoke') and (F.callee_of(y) or '') in loaders]
            esc = [y for L in acts for y in cfg.reach(L, avoid=pts) if y.op == 'ret']
            if not esc:
                rep.ok('C13.R3', '%s %s:%s %s; every path that loads the buffer state passes a comparison with yy_state_buf_max before returning' % (v.name, fn.name, x.line, what))
            else:
                p = cfg.path(x, lambda y: y.op == 'ret', avoid=pts)
                rep.fail('C13.R3', 'C13.R3:%s:%s:no-capacity-test' % (skel(v), fkey(fn)), where(x),
                         '%s %s but can return without comparing yy_state_buf_max with the size of the buffer that is now current: the REJECT state buffer may be too small for it [variant %s]'
                         % (fn.name, what, v.name), witness=['%s:%s' % (y.blk.name, y.line) for y in p] if p else None, variant=v.describe(), replay_input=D16_REPLAY)
    return n

D16_REPLAY = ('%option noyywrap\n%%\n[a-z]+x { REJECT; }\n.|\\n { }\n%%\nint main(void){ yy_switch_to_buffer(yy_create_buffer(stdin, 16)); '
              'yypush_buffer_state(yy_create_buffer(stdin, 1 << 20)); return yylex(); }  /* input: 100000 letters; heap overflow of yy_state_buf (ASan) */')

# ---------------------------------------------------------------- R4

R4_EXCEPT = {
    ('yy_delete_buffer', 'yychbuf'): 'the buffer structure that contains the field is itself released by the next statement',
}
R4_DTOR_EXCEPT = 'yyFlexLexer::~yyFlexLexer'      # the object ceases to exist; members cannot be read afterwards

def overwrite_points(F, prog, fn, nodes, memo, depth=0):
    """instructions of fn after which the storage `nodes` hold a fresh value: pointer stores to them, and calls to scanner
    functions that store to them on every path (yy_init_globals after the frees of yylex_destroy)"""
    out = [x for x in fn.ins if x.op == 'store' and x.ty is not None and x.ty.k == 'ptr' and (F.addr_nodes(fn, x.ops[1]) & nodes)]
    if depth < 2:
        for x in fn.ins:
            if x.op in ('call', 'invoke'):
                tgt = F.callee_of(x)
                if tgt and tgt != fn.name and tgt not in F.wrappers and always_overwrites(F, prog, F.mod.functions[tgt], nodes, memo, depth + 1): out.append(x)
    return out

def always_overwrites(F, prog, fn, nodes, memo, depth):
    k = (fn.name, frozenset(nodes))
    if k in memo: return memo[k]
    memo[k] = False
    pts = overwrite_points(F, prog, fn, nodes, memo, depth)
    ok = bool(pts) and not any(x.op == 'ret' for x in prog.cfg(fn).reach(fn.entry.ins[0], avoid=pts, include_start=True))
    memo[k] = ok
    return ok

def r4(rep, v, prog, mod, F):
    n = 0; ovmemo = {}
    for call, rf, srcs in F.consumers:
        fn = call.fn
        stor = [sc[1] for sc in srcs if sc[0] == 'node' and sc[1][0] in ('F', 'G', 'D')]
        if not stor: continue
        base = norm(fn.name)
        n += 1
        if base == R4_DTOR_EXCEPT:
            rep.ok('C13.R4', '%s %s: release in the destructor, object ends (excepted)' % (v.name, fn.name)); continue
        cfg = prog.cfg(fn)
        ov = overwrite_points(F, prog, fn, set(stor), ovmemo)
        again = [c2 for c2, _, s2 in F.consumers if c2.fn is fn and c2 is not call and any(sc[0] == 'node' and sc[1] in stor for sc in s2)]
        after = cfg.reach(call, avoid=ov)
        esc = [y for y in after if y.op == 'ret' or y in again]
        what = ','.join(sorted(node_key(x) for x in stor))
        if not esc:
            rep.ok('C13.R4', '%s %s:%s %s(%s): the location is overwritten on every path to return' % (v.name, fn.name, call.line, relname(F, call), what))
            continue
        ex = [k for k in R4_EXCEPT if k[0] == base.split('::')[-1] and any(x[0] == 'F' and ccanon(x[2]) == k[1] for x in stor)]
        if ex:
            # the exception is valid only while the container really is released afterwards
            later = [c2 for c2, _, s2 in F.consumers if c2.fn is fn and c2 is not call and any(sc[0] == 'node' and sc[1][0] == 'P' and sc[1][1] == fn.name for sc in s2)]
            if later and not any(y.op == 'ret' for y in cfg.reach(call, avoid=later)) and not any(y in again for y in esc):
                rep.ok('C13.R4', '%s %s:%s %s(%s): excepted - %s' % (v.name, fn.name, call.line, relname(F, call), what, R4_EXCEPT[ex[0]])); continue
        p = cfg.path(call, lambda y: y.op == 'ret' or y in again, avoid=ov)
        rep.fail('C13.R4', 'C13.R4:%s:%s:%s' % (skel(v), fkey(fn), what), where(call),
                 '%s releases the block held in %s and can %s with the stale pointer still stored there [variant %s]' % (fn.name, what, 'release it again' if any(y in again for y in esc) else 'return', v.name),
                 witness=['%s:%s' % (y.blk.name, y.line) for y in p] if p else None, variant=v.describe())
    # the current-buffer slot must be cleared when the buffer it names is deleted
    for fn in mod.functions.values():
        if norm(fn.name) not in ('yy_delete_buffer', 'yyFlexLexer::yy_delete_buffer'): continue
        n += 1
        clr = [x for x in fn.ins if x.op == 'store' and x.ops[0] in (('null',), ('int', 0)) and any(_is_slot(nn) for nn in F.addr_nodes(fn, x.ops[1]))]
        if clr: rep.ok('C13.R4', '%s %s: clears the current-buffer slot (line %s)' % (v.name, fn.name, clr[0].line))
        else: rep.fail('C13.R4', 'C13.R4:%s:yy_delete_buffer:current-slot' % skel(v), fwhere(fn),
                       'yy_delete_buffer never clears the current-buffer slot: deleting the current buffer leaves a dangling YY_CURRENT_BUFFER [variant %s]' % v.name, variant=v.describe())
    return n

# ---------------------------------------------------------------- R5

COMPANIONS = {'yybufferstack': ('yybufferstacktop', 'yybufferstackmax'), 'yystartstack': ('yystartstackptr', 'yystartstackdepth'),
              'yystatebuf': ('yystatebufmax', 'yystateptr')}
R5_NOT_STATE = {
    'yylookingfortrailbegin': 'transient inside one pass of the find_rule loop: it is cleared on the only edge that leaves the loop with it set, so it is 0 whenever an action runs or yylex returns',
}

def zero_tested_then_stored(F, prog, fn):
    """storage nodes n for which fn has a branch on (load n == 0) whose zero edge dominates a store to n"""
    out = {}
    cfg = prog.cfg(fn, cut=False)
    res = F.res.get(fn.name) or (F.o(fn) and F.res[fn.name])
    stores = {}
    for x in fn.ins:
        if x.op == 'store':
            for nn in F.addr_nodes(fn, x.ops[1]):
                if nn[0] in ('F', 'G'): stores.setdefault(nn, []).append(x)
    if not stores: return out
    for b in fn.blocks:
        br = b.ins[-1]
        if br.op != 'br' or not br.ops or len(br.targets) != 2: continue
        z = zero_edge(fn, br)
        if z is None: continue
        ld, zt = z
        zb = fn.bmap[zt]
        if zb is b or len(cfg.pred[zb]) != 1:
            # the zero target must be entered only through this edge for "dominates" to mean "because it was zero"
            if len([p for p in cfg.pred[zb]]) != 1: continue
        for nn in F.addr_nodes(fn, ld.ops[0]):
            if nn not in stores: continue
            for st in stores[nn]:
                if cfg.dominates(zb, st.blk): out.setdefault(nn, (br, st)); break
    return out

def zero_edge(fn, br):
    """(load instruction, label taken when the loaded value is 0/NULL/false) for `if (x)`, `if (!x)`, `if (x == 0)` shapes"""
    c = br.ops[0]; neg = False
    d = fn.def_of(c)
    while d is not None and d.op == 'xor' and d.ops[1] == ('int', 1): neg = not neg; d = fn.def_of(d.ops[0])
    if d is None: return None
    if d.op == 'trunc':        # bool member: trunc i8 -> i1, true edge = non-zero
        ld = fn.def_of(d.ops[0])
        if ld is None or ld.op != 'load': return None
        return (ld, br.targets[0] if neg else br.targets[1])
    if d.op != 'icmp' or d.pred not in ('eq', 'ne'): return None
    a, b = d.ops
    if b in (('null',), ('int', 0)): o = a
    elif a in (('null',), ('int', 0)): o = b
    else: return None
    o = flow.int_origin(fn, flow.strip_casts(fn, o))
    ld = fn.def_of(o)
    if ld is None or ld.op != 'load': return None
    zero_on_true = (d.pred == 'eq') != neg
    return (ld, br.targets[0] if zero_on_true else br.targets[1])

def r5(rep, v, prog, mod, F):
    n = 0
    byname = {}
    for f in mod.functions.values(): byname.setdefault(norm(f.name), f)
    init = byname.get('yy_init_globals') or byname.get('yyFlexLexer::ctor_common')
    if init is None: rep.broken('variant %s has neither yy_init_globals nor ctor_common' % v.name)
    init_stores = set()
    for x in init.ins:
        if x.op == 'store':
            for nn in F.addr_nodes(init, x.ops[1]):
                if nn[0] in ('F', 'G'): init_stores.add(nn)
    guts = {nn[1] for nn in init_stores if nn[0] == 'F'}
    lazy = {}
    for fn in mod.functions.values():
        if not fn.blocks or fn.name in F.wrappers or fn is init: continue
        for nn, (br, st) in zero_tested_then_stored(F, prog, fn).items():
            if nn[0] == 'F' and nn[1] not in guts: continue          # member of a buffer / loader structure, not scanner state
            if nn[0] == 'G' and (mod.globals.get(nn[1]) is None or mod.globals[nn[1]].constant): continue
            if ccanon(nn[2] if nn[0] == 'F' else nn[1]) in R5_NOT_STATE: continue
            lazy.setdefault(nn, (fn, br, st))
    for nn in sorted(lazy, key=str):
        fn, br, st = lazy[nn]
        n += 1
        if nn in init_stores:
            rep.ok('C13.R5', '%s %s: zero-tested then assigned in %s (line %s); reset by %s' % (v.name, node_str(nn), fn.name, br.line, init.name))
        else:
            rep.fail('C13.R5', 'C13.R5:%s:%s:not-reset:%s' % (skel(v), fkey(init), node_key(nn)), where(br),
                     '%s decides initialisation by testing %s for zero, but %s does not reset it: a destroyed scanner that is used again skips that initialisation [variant %s]'
                     % (fn.name, node_str(nn), init.name, v.name), variant=v.describe())
    # yylex_destroy: init is called, after the frees; companions reset
    d = byname.get('yylex_destroy')
    if d is not None:
        cfg = prog.cfg(d)
        calls = [x for x in d.ins if x.op == 'call' and x.callee == init.name]
        n += 1
        frees = [c for c, rf, srcs in F.consumers if c.fn is d and any(sc[0] == 'node' and sc[1][0] in ('F', 'G') for sc in srcs)]
        if not calls:
            rep.fail('C13.R5', 'C13.R5:%s:yylex_destroy:no-reinit' % skel(v), fwhere(d), 'yylex_destroy does not call yy_init_globals: the scanner cannot be used again [variant %s]' % v.name, variant=v.describe())
        else:
            ic = calls[0]
            late = [c for c in frees if c in cfg.reach(ic)]
            unreached = [x for x in cfg.reach(d.entry.ins[0], avoid=calls, include_start=True) if x.op == 'ret']
            if late:
                rep.fail('C13.R5', 'C13.R5:%s:yylex_destroy:free-after-reinit' % skel(v), where(late[0]), 'yylex_destroy releases %s after yy_init_globals has reset it: the block is leaked [variant %s]'
                         % (relname(F, late[0]), v.name), variant=v.describe())
            elif unreached:
                rep.fail('C13.R5', 'C13.R5:%s:yylex_destroy:reinit-skipped' % skel(v), where(unreached[0]), 'yylex_destroy can return without calling yy_init_globals [variant %s]' % v.name, variant=v.describe())
            else:
                rep.ok('C13.R5', '%s yylex_destroy: %d frees, then %s on every path' % (v.name, len(frees), init.name))
        for c, rf, srcs in F.consumers:
            if c.fn is not d: continue
            for sc in srcs:
                if sc[0] != 'node' or sc[1][0] not in ('F', 'G'): continue
                nm = ccanon(sc[1][2] if sc[1][0] == 'F' else sc[1][1])
                for comp in COMPANIONS.get(nm, ()):
                    n += 1
                    hit = [s_ for s_ in init_stores if _named(s_, comp)]
                    if hit: rep.ok('C13.R5', '%s %s released in yylex_destroy; companion %s reset by %s' % (v.name, nm, node_str(hit[0]), init.name))
                    else: rep.fail('C13.R5', 'C13.R5:%s:%s:companion:%s' % (skel(v), fkey(init), comp), fwhere(init),
                                   '%s is released by yylex_destroy but its companion %s is not reset by %s: stale capacity/index after reuse [variant %s]' % (nm, comp, init.name, v.name), variant=v.describe())
    return n

# ---------------------------------------------------------------- R6

def r6(rep, v, prog, mod, F):
    """size passed when allocating yy_ch_buf = yy_buf_size of the same buffer + 2 (room for the two end-of-buffer sentinels).
    yy_buf_size is either read in the size expression, or assigned (from the same local) right after the call."""
    n = 0
    for call in F.alloc_calls:
        fn = call.fn
        dst = None
        for x in fn.ins:
            if x.op == 'store' and x.ty is not None and x.ty.k == 'ptr':
                if any(sc[0] == 'lit' and sc[2] is call for sc in F.sources(fn, x.ops[0])):
                    for nn in F.addr_nodes(fn, x.ops[1]):
                        if nn[0] == 'F' and ccanon(nn[2]) == 'yychbuf': dst = x
        if dst is None: continue
        n += 1
        size = call.ops[1] if F.names.get(call.callee) == 'yyrealloc' else call.ops[0]
        lin = linear(F, fn, size)
        key = 'C13.R6:%s:%s:%s' % (skel(v), fkey(fn), F.names.get(call.callee, call.callee))
        if lin is None:
            rep.broken('C13.R6: cannot normalise the size expression of %s in %s [variant %s]' % (call.callee, fn.name, v.name))
        const, terms = lin
        isbs = lambda k: k[0] == 'F' and ccanon(k[2]) == 'yybufsize'
        if any(isbs(k) for k in terms):
            bs = [(k, c) for k, c in terms.items() if isbs(k)]
            other = [(k, c) for k, c in terms.items() if not isbs(k)]
            if len(bs) == 1 and bs[0][1] == 1 and not other and const == 2:
                rep.ok('C13.R6', '%s %s:%s %s size = yy_buf_size + 2' % (v.name, fn.name, call.line, call.callee))
            else:
                rep.fail('C13.R6', key, where(call), 'size passed to %s for yy_ch_buf is %s, expected yy_buf_size + 2 (two end-of-buffer sentinels) [variant %s]' %
                         (call.callee, lin_str(const, terms), v.name), variant=v.describe())
            continue
        # yy_buf_size is assigned after the call: size - assigned value must be the constant 2
        cfg = prog.cfg(fn)
        after = cfg.reach(call)
        sts = [x for x in fn.ins if x.op == 'store' and x in after and any(nn[0] == 'F' and ccanon(nn[2]) == 'yybufsize' for nn in F.addr_nodes(fn, x.ops[1]))]
        if not sts:
            rep.broken('C13.R6: %s in %s sizes yy_ch_buf from %s but yy_buf_size is neither read in that expression nor assigned afterwards [variant %s]' % (call.callee, fn.name, lin_str(const, terms), v.name))
        for st in sts:
            l2 = linear(F, fn, st.ops[0])
            if l2 is None: rep.broken('C13.R6: cannot normalise the value assigned to yy_buf_size in %s [variant %s]' % (fn.name, v.name))
            if l2[1] == terms and const - l2[0] == 2:
                rep.ok('C13.R6', '%s %s:%s %s size = %s, then yy_buf_size = size - 2 (line %s)' % (v.name, fn.name, call.line, call.callee, lin_str(const, terms), st.line))
            else:
                rep.fail('C13.R6', key, where(call), 'size passed to %s for yy_ch_buf is %s but yy_buf_size is then set to %s; expected a difference of exactly 2 [variant %s]' %
                         (call.callee, lin_str(const, terms), lin_str(l2[0], l2[1]), v.name), variant=v.describe())
    return n

def lin_str(c, terms):
    return ' + '.join(['%s*%s' % (k, node_str(t)) if k != 1 else node_str(t) for t, k in terms.items()] + [str(c)])

def linear(F, fn, v, depth=0):
    """(constant, {storage node: coefficient}) for an integer expression over loads of fields, or None"""
    if depth > 25: return None
    if v[0] == 'int': return (v[1], {})
    if v[0] != 'reg': return None
    O = F.o(fn)
    d = fn.def_of(v)
    if d is None: return None
    if d.op in ('sext', 'zext', 'trunc'): return linear(F, fn, d.ops[0], depth + 1)
    if d.op in ('add', 'sub'):
        a = linear(F, fn, d.ops[0], depth + 1); b = linear(F, fn, d.ops[1], depth + 1)
        if a is None or b is None: return None
        sg = 1 if d.op == 'add' else -1
        t = dict(a[1])
        for k, c in b[1].items(): t[k] = t.get(k, 0) + sg * c
        return (a[0] + sg * b[0], {k: c for k, c in t.items() if c})
    if d.op == 'mul':
        a = linear(F, fn, d.ops[0], depth + 1); b = linear(F, fn, d.ops[1], depth + 1)
        if a is None or b is None: return None
        if not a[1]: a, b = b, a
        if b[1]: return None
        return (a[0] * b[0], {k: c * b[0] for k, c in a[1].items() if c * b[0]})
    if d.op == 'load':
        a = d.ops[0]
        if a[0] == 'reg' and a[1] in O.allocas and a[1] not in O.escaped:
            st = O.stores.get(a[1], [])
            vals = [linear(F, fn, x.ops[0], depth + 1) for x in st]
            if vals and all(x is not None and x == vals[0] for x in vals): return vals[0]
            return (0, {('L', fn.name, a[1]): 1})          # the C local itself as a symbol
        ns = [nn for nn in F.addr_nodes(fn, a) if nn[0] in ('F', 'G')]
        if len(ns) == 1: return (0, {ns[0]: 1})
        return None
    return None

# ---------------------------------------------------------------- positive control

def r7(rep, v, prog, mod, F):
    """R7 locally owned allocations are released on every path.  A callee that stores an allocation result into a field
    of a struct it receives by pointer makes the caller's *local* struct the owner; from such a call, every path to a
    return of the caller or back to another such call must pass the release of that field (edges on which the field
    was just tested null are removed).  Instance today: th.th_version in yytbl_fload (allocated by yytbl_hdr_read)."""
    import flow as flow_
    from ir import Resolver
    acq = {}      # callee name -> (param index, struct, field)
    allocs = {n for n in list(mod.functions) + list(mod.declares) if F.alloc_family(n) == 'yy'}
    for g in mod.functions.values():
        res = Resolver(g)
        for x in g.ins:
            if x.op != 'store': continue
            src = flow_.strip_casts(g, x.ops[0]); d = g.def_of(src)
            if d is None or d.op != 'call' or d.callee not in allocs: continue
            l = res.loc(x.ops[1])
            if l[0] == 'field' and l[3][0] == 'deref' and l[3][1][0] == 'local' and l[3][1][1].endswith('.addr'):
                pname = l[3][1][1][:-5]
                idx = [k for k, (t, nm) in enumerate(g.params) if nm == pname]
                if idx: acq[g.name] = (idx[0], l[1], l[2])
    n = 0
    for f in mod.functions.values():
        res = Resolver(f); cfg = prog.cfg(f)
        calls = [c for c in f.ins if c.op == 'call' and c.callee in acq]
        for c in calls:
            pi, S, fld = acq[c.callee]
            if pi >= len(c.ops): continue
            base = res.loc(c.ops[pi])
            if base[0] != 'local': continue           # not a local owner: covered by R2
            owner = ('field', S, fld, base)
            def is_owner_load(val):
                d = f.def_of(flow_.strip_casts(f, val))
                return d is not None and d.op == 'load' and res.loc(d.ops[0]) == owner
            frees = [x for x in f.ins if x.op == 'call' and F.release_family(x.callee) and x.ops and is_owner_load(x.ops[0])]
            skip = set()
            for b in f.blocks:
                br = b.ins[-1]
                bn = flow_.branch_on_null(f, br) if br.op == 'br' else None
                if bn is not None and is_owner_load(bn[0]): skip.add((b, f.bmap[bn[1]]))
            same = [k for k in calls if k.callee == c.callee and res.loc(k.ops[pi]) == base]
            reach = cfg.reach(c, avoid=frees, edge_filter=lambda a, b: (a, b) not in skip)
            n += 1
            key = 'C13.R7:%s:%s:%s.%s' % (skel(v), fkey(f), base[1], fld)
            bad = [x for x in reach if x.op == 'ret'] + [k for k in same if k in reach]
            if not frees:
                rep.fail('C13.R7', key + ':never-released', where(c), '%s() makes the local %s own an allocation (%s.%s) that %s never releases [variant %s]' % (c.callee, base[1], S, fld, f.name, v.name), variant=v.describe())
            elif bad:
                wit = cfg.path(c, lambda x: x is bad[0], avoid=frees, edge_filter=lambda a, b: (a, b) not in skip)
                rep.fail('C13.R7', key + ':leak-path', where(bad[0]),
                         'a path from %s(&%s) reaches %s without releasing %s.%s: the block allocated for it leaks [variant %s]' % (
                             c.callee, base[1], 'the next ' + c.callee + ' call' if bad[0].op == 'call' else 'the return', base[1], fld, v.name),
                         witness=['%s:%s' % (x.blk.name, x.line) for x in wit] if wit else None, variant=v.describe())
            else:
                rep.ok('C13.R7', '%s %s: %s.%s (from %s) is released on every path to return or re-acquisition' % (v.name, f.name, base[1], fld, c.callee))
    return n

# ---------------------------------------------------------------- R8

R8_EXCEPT = {
    'yystateptr': 'assigned from yy_state_buf at the start of every match before any read',
    'yylp': 'assigned from yy_accept[] in find_rule before it is tested',
    'yyfullmatch': 'assigned in find_rule before the action that may read it through REJECT runs; the one break that does not assign it is taken only '
                   'after yy_looking_for_trail_begin was set, which happens together with the assignment',
}
R8_WEAK = {'yyfullmatch'}      # data-dependent order: only "yylex assigns it" is checked

def state_fields_accessed(F, fn, ops=('load', 'store')):
    """{canonical name: instruction} of the fields / globals that fn loads or stores (any type)"""
    out = {}
    F.o(fn); res = F.res[fn.name]
    for x in fn.ins:
        if x.op not in ops: continue
        c = ir.loc_class(res.loc(x.ops[0] if x.op == 'load' else x.ops[1]))
        if c and c[0] == 'field': out.setdefault(ccanon(c[2]), x)
        elif c and c[0] == 'global': out.setdefault(ccanon(c[1]), x)
    return out

def c_init_set(mod, F):
    """canonical names of the scanner-state objects that yy_init_globals of a C scanner (cpp skeleton) stores"""
    for fn in mod.functions.values():
        if fkey(fn) == 'yy_init_globals': return set(state_fields_accessed(F, fn, ('store',)))
    return set()

def r8(rep, v, prog, mod, F, cinit, rule='C13.R8'):
    """C++: every member that the C sibling's yy_init_globals resets, and that some member function reads, is given a value on
    every constructor path (a lexer object built in recycled storage must not inherit the previous occupant's state)"""
    n = 0
    ctors = [f for f in mod.functions.values() if f.blocks and re.match(r'_ZN\d+\w+FlexLexerC2E', f.name) and f.linkage != 'linkonce']
    if not ctors: rep.broken('C++ variant %s defines no yyFlexLexer constructor' % v.name)
    members = set()
    for t in mod.types:
        if re.match(r'class\.(\w*FlexLexer)(\.base)?$', t):
            members |= {ccanon(x) for x in (mod.struct_fields(t) or [])}
    reads = {}
    for fn in mod.functions.values():
        if not fn.blocks or fn in ctors or fn.name in F.wrappers or fn.linkage == 'linkonce': continue
        if '::' not in norm(fn.name): continue
        for k, x in state_fields_accessed(F, fn, ('load',)).items(): reads.setdefault(k, x)
    need = sorted(cinit & members & set(reads))
    if len(need) < 8: rep.broken('C13.R8: only %d members of the C++ lexer of %s are both reset by the C initialiser and read (%s)' % (len(need), v.name, need))
    byk = {}
    for f in mod.functions.values(): byk.setdefault(fkey(f), []).append(f)
    for ct in ctors:
        tree = F.reachable_fns([ct.name])
        inited = set()
        for fname in tree:
            f = mod.functions.get(fname)
            if f is None or not f.blocks: continue
            inited |= set(state_fields_accessed(F, f, ('store',)))
            # members of class type are initialised by a constructor call on their address (yyin, yyout)
            F.o(f); res = F.res[f.name]
            for x in f.ins:
                if x.op in ('call', 'invoke') and x.ops:
                    c = ir.loc_class(res.loc(x.ops[0]))
                    if c and c[0] == 'field': inited.add(ccanon(c[2]))
        for k in need:
            n += 1
            if k in inited:
                rep.ok(rule, '%s %s: member %s (reset by yy_init_globals in C scanners, read in %s) is initialised' % (v.name, norm(ct.name), k, reads[k].fn.name)); continue
            if k in R8_EXCEPT and _written_before_read(F, prog, byk.get('yylex', []), k, k in R8_WEAK):
                rep.ok(rule, '%s %s: member %s excepted - %s (checked in yylex)' % (v.name, norm(ct.name), k, R8_EXCEPT[k])); continue
            rep.fail(rule, '%s:%s:ctor_common:uninitialised:%s' % (rule, skel(v), k), fwhere(ct),
                     'the C++ lexer constructor leaves member %s without a value although %s reads it and yy_init_globals of the C scanners resets it: an object '
                     'constructed in recycled storage inherits the previous occupant\'s value [variant %s]' % (k, reads[k].fn.name, v.name), variant=v.describe(),
                     replay_input='%option c++ stack; { yyFlexLexer *a = new yyFlexLexer; run it with yy_push_state; delete a; yyFlexLexer *b = new yyFlexLexer; b->yylex() with a yy_push_state action }')
    return n

def _written_before_read(F, prog, fns, k, weak=False):
    """in each of fns no load of field k is reachable from the entry without passing a store to k"""
    if not fns: return False
    for fn in fns:
        F.o(fn); res = F.res[fn.name]
        st = []; ld = []
        for x in fn.ins:
            if x.op in ('load', 'store'):
                c = ir.loc_class(res.loc(x.ops[0] if x.op == 'load' else x.ops[1]))
                if c and c[0] == 'field' and ccanon(c[2]) == k: (st if x.op == 'store' else ld).append(x)
        if not ld: continue
        if weak:
            if not st: return False
            continue
        r = prog.cfg(fn).reach(fn.entry.ins[0], avoid=st, include_start=True)
        if any(x in r for x in ld): return False
    return True

# ---------------------------------------------------------------- R9

COPY_CALLS = {'strncpy': (0, 2), 'memcpy': (0, 2), 'memmove': (0, 2), 'llvm.memcpy.p0i8.p0i8.i64': (0, 2), 'llvm.memmove.p0i8.p0i8.i64': (0, 2)}
UNBOUNDED_COPY = {'strcpy': 0, 'strcat': 0, 'sprintf': 0, 'vsprintf': 0, 'gets': 0}

def _writes_through_param(F, fn, pname):
    O = F.o(fn)
    return any(x.op == 'store' and ('param', pname) in O.roots(x.ops[1]) for x in fn.ins)

def _yytext_dest(F, fn, a):
    """if pointer value a is &yytext[off] of the %array text: (capacity, offset value or None for 0, array node), else None"""
    for _ in range(6):
        if a[0] == 'ccast': a = a[2]; continue
        d = fn.def_of(a)
        if d is not None and d.op == 'bitcast': a = d.ops[0]; continue
        break
    if a[0] == 'cgep': srcty, base, idx = a[1], a[2], a[3]
    else:
        d = fn.def_of(a)
        if d is None or d.op != 'getelementptr': return None
        srcty, base, idx = d.srcty, d.ops[0], d.ops[1:]
    if srcty is None or srcty.k != 'arr' or repr(srcty.b) != 'i8' or len(idx) != 2 or idx[0] != ('int', 0): return None
    nodes = [nn for nn in F.addr_nodes(fn, base) if nn[0] in ('F', 'G') and ccanon(nn[2] if nn[0] == 'F' else nn[1]) == 'yytext']
    if not nodes: return None
    return (srcty.a, None if idx[1] == ('int', 0) else idx[1], nodes[0])

def _lin_add(a, b, sg=1):
    t = dict(a[1])
    for k, c in b[1].items(): t[k] = t.get(k, 0) + sg * c
    return (a[0] + sg * b[0], {k: c for k, c in t.items() if c})

def r9(rep, v, prog, mod, F):
    """%array: every bulk copy into the yytext array is dominated by a comparison with the array capacity whose compared value
    covers destination offset + copied length, and whose failing edge is fatal"""
    n = 0
    for fn in mod.functions.values():
        if not fn.blocks or fn.name in F.wrappers: continue
        for call in fn.ins:
            if call.op not in ('call', 'invoke') or not call.ops: continue
            spec = None
            cn = call.callee if isinstance(call.callee, str) else None
            tgt = F.callee_of(call)
            if cn in COPY_CALLS: spec = COPY_CALLS[cn]
            elif cn in UNBOUNDED_COPY: spec = (UNBOUNDED_COPY[cn], None)
            elif tgt and len(call.ops) >= 3 and fkey(tgt) == 'yy_flex_strncpy': spec = (0, 2)
            dests = [(i, _yytext_dest(F, fn, a)) for i, a in enumerate(call.ops)]
            dests = [(i, d) for i, d in dests if d]
            if not dests: continue
            if spec is None:
                # a scanner function that stores through the parameter it receives the array in, with no known length argument
                if tgt and any(mod.functions[tgt].params[i][1] and _writes_through_param(F, mod.functions[tgt], mod.functions[tgt].params[i][1]) for i, d in dests if i < len(mod.functions[tgt].params)):
                    rep.broken('C13.R9: %s passes the yytext array to %s, which writes through it, and the rule does not know its length argument [variant %s]' % (fn.name, tgt, v.name))
                continue
            d = [x for i, x in dests if i == spec[0]]
            if not d: continue
            cap, offv, node = d[0]
            n += 1
            key = 'C13.R9:%s:%s:copy-into-yytext' % (skel(v), fkey(fn))
            if spec[1] is None:
                rep.fail('C13.R9', key + ':unbounded', where(call), '%s copies into the %d-byte yytext array with %s, which has no length limit [variant %s]' % (fn.name, cap, cn, v.name), variant=v.describe()); continue
            off = (0, {}) if offv is None else linear(F, fn, offv)
            ln = linear(F, fn, call.ops[spec[1]])
            if off is None or ln is None: rep.broken('C13.R9: cannot normalise offset/length of the copy into yytext in %s [variant %s]' % (fn.name, v.name))
            need = _lin_add(off, ln)                          # last byte written is at index need-1: need <= cap must hold
            cfg = prog.cfg(fn)
            good = None; why = 'no comparison with the array capacity dominates the copy'
            for b in fn.blocks:
                br = b.ins[-1]
                if br.op != 'br' or not br.ops or len(br.targets) != 2 or not cfg.ins_dominates(br, call): continue
                c = fn.def_of(br.ops[0])
                if c is None or c.op != 'icmp' or c.pred not in ('sge', 'uge', 'sgt', 'ugt', 'slt', 'ult', 'sle', 'ule'): continue
                lhs = linear(F, fn, c.ops[0]); rhs = linear(F, fn, c.ops[1])
                if lhs is None or rhs is None: continue
                pred = c.pred[1:]
                if lhs[1] and not rhs[1]: X, C = lhs, rhs[0]
                elif rhs[1] and not lhs[1]: X, C = rhs, lhs[0]; pred = {'ge': 'le', 'gt': 'lt', 'le': 'ge', 'lt': 'gt'}[pred]
                else: continue
                # "too large" edge, and the bound X <= bound that holds on the other edge
                if pred in ('ge', 'gt'): big = br.targets[0]; bound = C - 1 if pred == 'ge' else C
                else: big = br.targets[1]; bound = C - 1 if pred == 'lt' else C
                if C > cap + 1 or C < cap // 2: continue          # not a capacity comparison
                if call in cfg.reach_from_block(fn.bmap[big]):
                    why = 'the too-large edge of the capacity test is not fatal'; continue
                rest = _lin_add(need, (0, X[1]), -1)          # need - variable part of X
                if rest[1]:
                    miss = ', '.join(sorted(node_str(t) for t in rest[1]))
                    why = 'the capacity test (%s) does not account for %s, which is part of destination offset + length' % (lin_str(X[0], X[1]), miss); continue
                # need = Xvars + rest[0] <= (bound - X[0]) + rest[0] must be <= cap
                if bound - X[0] + rest[0] > cap:
                    why = 'the capacity test allows offset + length up to %d for an array of %d bytes' % (bound - X[0] + rest[0], cap); continue
                # the compared state must not change between the test and the copy
                moved = [x for x in fn.ins if x.op == 'store' and cfg.ins_dominates(br, x) and cfg.ins_dominates(x, call) and (F.addr_nodes(fn, x.ops[1]) & set(need[1]))]
                if moved:
                    why = '%s is modified between the capacity test and the copy' % ', '.join(sorted(node_str(t) for x in moved for t in F.addr_nodes(fn, x.ops[1]))); continue
                good = br; break
            if good is not None:
                rep.ok('C13.R9', '%s %s:%s copy of %s bytes to yytext+%s guarded by the capacity test at line %s (cap %d)' % (
                    v.name, fn.name, call.line, lin_str(ln[0], ln[1]), lin_str(off[0], off[1]) if off[1] or off[0] else '0', good.line, cap))
            else:
                rep.fail('C13.R9', key, where(call), '%s copies %s bytes to yytext + %s (array of %d bytes): %s [variant %s]' % (
                    fn.name, lin_str(ln[0], ln[1]), lin_str(off[0], off[1]) if off[1] or off[0] else '0', cap, why, v.name), variant=v.describe(),
                    replay_input='%array scanner with yymore(): pieces accumulated with yymore() whose total length reaches YYLMAX while the last piece is shorter')
    return n

# ---------------------------------------------------------------- R10

def _state_accesses(F, fn, pred):
    """(loads, stores) of yylex whose address is a field/global with a canonical name satisfying pred"""
    F.o(fn); res = F.res[fn.name]
    ld = []; st = []
    for x in fn.ins:
        if x.op not in ('load', 'store'): continue
        c = ir.loc_class(res.loc(x.ops[0] if x.op == 'load' else x.ops[1]))
        if not c: continue
        nm = ccanon(c[2]) if c[0] == 'field' else ccanon(c[1]) if c[0] == 'global' else None
        if nm and pred(nm): (ld if x.op == 'load' else st).append((nm, x))
    return ld, st

def r10(rep, v, prog, mod, F):
    """REJECT: every cell the yyreject() expansion loads to restore the scan state (yy_full_match, yy_full_lp, yy_full_state) has
    been saved for the current token.  Two-part typestate inside yylex:
      (a) from the start of a token (yy_state_ptr = yy_state_buf) no restore-load is reachable without passing a save of that
          cell or the arm that ends the search for a trailing-context head (yy_looking_for_trail_begin = 0), which can only be
          reached after the search was started;
      (b) from every point where that search is started (a non-constant store to yy_looking_for_trail_begin) no restore-load is
          reachable without passing a save of that cell."""
    n = 0
    lex = [f for f in mod.functions.values() if f.blocks and fkey(f) == 'yylex']
    for fn in lex:
        ld, st = _state_accesses(F, fn, lambda nm: nm.startswith('yyfull') or nm in ('yylookingfortrailbegin', 'yystateptr'))
        cells = sorted({nm for nm, x in ld if nm.startswith('yyfull')})
        if not cells: continue
        O = F.o(fn)
        starts = []
        for nm, x in st:
            if nm != 'yystateptr': continue
            for o_ in O.of(x.ops[0]):
                if o_[0] == 'load' and not o_[-1] and any(_named(nn, 'yystatebuf') for nn in F.addr_nodes(fn, o_[1])): starts.append(x); break
        if not starts: rep.broken('C13.R10: %s of %s restores %s but has no token start (yy_state_ptr = yy_state_buf) [variant]' % (fn.name, v.name, cells))
        lk_on = [x for nm, x in st if nm == 'yylookingfortrailbegin' and x.ops[0][0] != 'int']
        lk_off = [x for nm, x in st if nm == 'yylookingfortrailbegin' and x.ops[0] == ('int', 0)]
        cfg = prog.cfg(fn)
        for cell in cells:
            saves = [x for nm, x in st if nm == cell]
            loads = [x for nm, x in ld if nm == cell]
            field = {'yyfullmatch': 'yy_full_match', 'yyfulllp': 'yy_full_lp', 'yyfullstate': 'yy_full_state'}.get(cell, cell)
            key = 'C13.R10:%s:yylex:%s:restored-but-never-saved' % (skel(v), field)
            probes = [(t, 'the start of a token', saves + lk_off, False) for t in starts]
            arms = []
            for s_ in lk_on:
                # the arm begins where the branch that decides to start the search lands (statement order inside the arm is free)
                ents = [t for br, t in prog.cfg(fn, cut=False).control_deps(s_.blk) if cfg.dominates(t, s_.blk)] or [s_.blk]
                for t in ents:
                    if t not in arms: arms.append(t); probes.append((t.ins[0], 'the arm that starts looking for the head of a trailing-context rule', saves, True))
            for src, what, avoid, incl in probes:
                n += 1
                r = cfg.reach(src, avoid=avoid, include_start=incl)
                bad = [x for x in loads if x in r]
                if not bad:
                    rep.ok('C13.R10', '%s %s: %s is saved on every path from %s (line %s) to its %d restore site(s)' % (v.name, fn.name, field, what, src.line, len(loads)))
                else:
                    p = cfg.path(src, lambda y: y is bad[0], avoid=avoid, include_start=incl)
                    rep.fail('C13.R10', key, where(bad[0]),
                             'yyreject() restores the scan state from %s, but a path from %s (line %s) reaches that load without saving it for this token: the scanner '
                             'backs up to a stale or never-written position [variant %s]' % (field, what, src.line, v.name),
                             witness=['%s:%s' % (y.blk.name, y.line) for y in p] if p else None, variant=v.describe(),
                             replay_input='%option noyywrap\n%%\n[a-z]+/[0-9]+x { REJECT; }\n[a-z]+ { }\n[0-9]+ { }\n.|\\n ;\n%%\n/* input: bar77x */')
    return n

# ---------------------------------------------------------------- R11

def r11(rep, v, prog, mod, F):
    """REJECT state stack: at every site that allocates or grows yy_state_buf, the number of elements the allocation provides, the
    number recorded in yy_state_buf_max and the threshold of the guard that decides whether to grow are one quantity (the same
    linear expression over yy_buf_size and the EXTRA constant): a guard that is satisfied by less than what is demanded leaves a
    buffer current whose last states do not fit."""
    n = 0
    for call in F.alloc_calls:
        fn = call.fn
        dst = None
        for x in fn.ins:
            if x.op == 'store' and x.ty is not None and x.ty.k == 'ptr' and any(sc[0] == 'lit' and sc[2] is call for sc in F.sources(fn, x.ops[0])):
                if any(_named(nn, 'yystatebuf') for nn in F.addr_nodes(fn, x.ops[1])): dst = x
        if dst is None: continue
        esz = mod.sizeof(dst.ty.a) if dst.ty.a is not None else 0
        if esz <= 0: rep.broken('C13.R11: element size of yy_state_buf unknown in %s [variant %s]' % (fn.name, v.name))
        size = call.ops[1] if F.names.get(call.callee) == 'yyrealloc' else call.ops[0]
        lin = linear(F, fn, size)
        if lin is None: rep.broken('C13.R11: cannot normalise the size passed to %s in %s [variant %s]' % (call.callee, fn.name, v.name))
        key0 = 'C13.R11:%s:%s:yy_state_buf' % (skel(v), fkey(fn))
        cfg = prog.cfg(fn)
        after = cfg.reach(call)
        recs = [x for x in fn.ins if x.op == 'store' and x in after and any(_named(nn, 'yystatebufmax') for nn in F.addr_nodes(fn, x.ops[1]))]
        n += 1
        if not recs:
            rep.fail('C13.R11', key0 + ':capacity-not-recorded', where(call), '%s (re)allocates yy_state_buf but does not record the new capacity in yy_state_buf_max [variant %s]' % (fn.name, v.name), variant=v.describe()); continue
        prov = None; bad = None
        for st in recs:
            l2 = linear(F, fn, st.ops[0])
            if l2 is None: rep.broken('C13.R11: cannot normalise the value stored to yy_state_buf_max in %s [variant %s]' % (fn.name, v.name))
            want = (l2[0] * esz, {k: c * esz for k, c in l2[1].items()})
            if want != lin: bad = (st, l2)
            else: prov = l2
        if bad:
            rep.fail('C13.R11', key0 + ':bytes-differ-from-capacity', where(call),
                     '%s passes %s bytes to %s for yy_state_buf but records a capacity of %s states of %d bytes (= %s bytes) in yy_state_buf_max: the block and the recorded capacity disagree [variant %s]' % (
                         fn.name, lin_str(*lin), call.callee, lin_str(*bad[1]), esz, lin_str(bad[1][0] * esz, {k: c * esz for k, c in bad[1][1].items()}), v.name), variant=v.describe(),
                     replay_input='REJECT scanner; a token as long as the input buffer: the state stack is written up to the recorded capacity')
            continue
        rep.ok('C13.R11', '%s %s:%s %s gets (%s) * %d bytes and yy_state_buf_max records %s' % (v.name, fn.name, call.line, call.callee, lin_str(*prov), esz, lin_str(*prov)))
        # the guard: branches that decide whether the call runs and read yy_state_buf_max
        F.o(fn); res = F.res[fn.name]
        for br, t in prog.cfg(fn, cut=False).control_deps_closure(call.blk):
            if br.op != 'br' or not br.ops: continue
            if not any(any(_named(nn, 'yystatebufmax') for nn in F.addr_nodes(fn, d.ops[0])) for d, l in flow.cond_loads(fn, br, res)): continue
            c = fn.def_of(br.ops[0])
            neg = False
            while c is not None and c.op == 'xor' and c.ops[1] == ('int', 1): neg = not neg; c = fn.def_of(c.ops[0])
            n += 1
            if c is None or c.op != 'icmp' or c.pred[1:] not in ('lt', 'le', 'gt', 'ge'):
                rep.broken('C13.R11: the capacity guard of %s in %s is not an ordering comparison [variant %s]' % (call.callee, fn.name, v.name))
            a = linear(F, fn, c.ops[0]); b = linear(F, fn, c.ops[1])
            if a is None or b is None: rep.broken('C13.R11: cannot normalise the capacity guard in %s [variant %s]' % (fn.name, v.name))
            ismax = lambda l: len(l[1]) == 1 and l[0] == 0 and all(_named(k, 'yystatebufmax') and cc == 1 for k, cc in l[1].items())
            pred = c.pred[1:]
            if ismax(a): other = b
            elif ismax(b): other = a; pred = {'lt': 'gt', 'gt': 'lt', 'le': 'ge', 'ge': 'le'}[pred]
            else: rep.broken('C13.R11: the capacity guard in %s does not compare yy_state_buf_max itself [variant %s]' % (fn.name, v.name))
            taken_true = (fn.bmap[br.targets[0]] is t) != neg
            # grow when  max < T :  normalise the edge on which the call runs
            if not taken_true: pred = {'lt': 'ge', 'ge': 'lt', 'le': 'gt', 'gt': 'le'}[pred]
            if pred == 'lt': T = other
            elif pred == 'le': T = (other[0] + 1, other[1])
            else:
                rep.fail('C13.R11', key0 + ':guard-inverted', where(br), '%s grows yy_state_buf when yy_state_buf_max is large, not when it is small [variant %s]' % (fn.name, v.name), variant=v.describe()); continue
            diff = _lin_add(T, prov, -1)
            if diff[1] or diff[0] < 0:
                rep.fail('C13.R11', key0 + ':guard-below-allocation', where(br),
                         '%s keeps the REJECT state stack when yy_state_buf_max >= %s, but the buffer that is now current needs %s states (what the growth arm allocates and records): '
                         'the last %s state(s) of a full buffer are written past the block [variant %s]' % (fn.name, lin_str(*T), lin_str(*prov), -diff[0] if not diff[1] else 'few', v.name),
                         variant=v.describe(), replay_input='REJECT scanner: yy_switch_to_buffer() to a buffer 1-3 bytes larger than the previous one, then a token that fills it')
            else:
                rep.ok('C13.R11', '%s %s: grows when yy_state_buf_max < %s = allocated count' % (v.name, fn.name, lin_str(*T)))
    return n

# ---------------------------------------------------------------- R12

def reader_signedness(vs):
    """{width in bytes: 'sext'|'zext'} - how yytbl_data_load of the tables-file variants widens the 8/16-bit cells it reads"""
    out = {}
    for v in vs:
        mod = variants.module(v)
        f = next((x for x in mod.functions.values() if fkey(x) == 'yytbl_data_load'), None)
        if f is None: continue
        res = ir.Resolver(f)
        for c in f.ins:
            if c.op != 'call' or fkey(c.callee or '') not in ('yytbl_read8', 'yytbl_read16') or not c.ops: continue
            tmp = res.loc(c.ops[0])
            if tmp[0] != 'local': continue
            w = 1 if fkey(c.callee).endswith('8') else 2
            for x in f.ins:
                if x.op in ('sext', 'zext'):
                    d = f.def_of(x.ops[0])
                    if d is not None and d.op == 'load' and res.loc(d.ops[0]) == tmp:
                        out.setdefault(w, set()).add(x.op)
    return out

def _const_of(fn, v):
    if v[0] == 'int': return v[1]
    d = fn.def_of(v)
    if d is not None and d.op in ('sext', 'zext', 'trunc'): return _const_of(fn, d.ops[0])
    if d is not None and d.op in ('add', 'sub', 'mul'):
        x = _const_of(fn, d.ops[0]); y = _const_of(fn, d.ops[1])
        if x is None or y is None: return None
        return x + y if d.op == 'add' else x - y if d.op == 'sub' else x * y
    if d is not None and d.op == 'load':
        a = fn.def_of(d.ops[0])
        if a is not None and a.op == 'alloca':
            st = [x for x in fn.ins if x.op == 'store' and x.ops[1] == d.ops[0]]
            if len(st) == 1: return _const_of(fn, st[0].ops[0])
    return None

def r12(ctx, rep, sign):
    """writer/reader agreement on cell widths of the serialized tables: min_int_size() may choose width w only when the largest
    absolute value fits the type yytbl_data_load reads w-byte cells into (signed when it sign-extends them)"""
    prog = ctx.flex
    fn = prog.fn('min_int_size')
    if fn is None: rep.broken('C13.R12: min_int_size() not found in flex')
    cfg = prog.cfg(fn, cut=False)
    rets = [x for x in fn.ins if x.op == 'store' and x.ops[1] == ('reg', 'retval') and x.ops[0][0] == 'int']
    if len(rets) < 3: rep.broken('C13.R12: min_int_size() has %d constant returns, expected the three widths' % len(rets))
    n = 0
    for st in rets:
        w = st.ops[0][1]
        n += 1
        upper = None; var = None
        for br, t in cfg.control_deps_closure(st.blk):
            if br.op != 'br' or not br.ops: continue
            c = fn.def_of(br.ops[0])
            if c is None or c.op != 'icmp': rep.broken('C13.R12: a branch of min_int_size() is not a comparison')
            if c.pred[1:] not in ('lt', 'le', 'gt', 'ge'): continue
            ka = _const_of(fn, c.ops[0]); kb = _const_of(fn, c.ops[1])
            pred = c.pred[1:]
            if kb is not None and ka is None: K = kb; x = c.ops[0]
            elif ka is not None and kb is None: K = ka; x = c.ops[1]; pred = {'lt': 'gt', 'gt': 'lt', 'le': 'ge', 'ge': 'le'}[pred]
            else: continue            # the maximum-tracking comparison of the scan loop (two variables)
            if fn.bmap[br.targets[0]] is not t: pred = {'lt': 'ge', 'ge': 'lt', 'le': 'gt', 'gt': 'le'}[pred]
            if pred == 'le': u = K
            elif pred == 'lt': u = K - 1
            else: continue            # a lower bound
            upper = u if upper is None else min(upper, u)
        if w >= 4:
            rep.ok('C13.R12', 'min_int_size: width %d takes every 32-bit value' % w); continue
        how = sign.get(w)
        if not how: rep.broken('C13.R12: no tables-file variant shows how yytbl_data_load widens %d-byte cells' % w)
        limit = (1 << (8 * w - 1)) - 1 if 'sext' in how else (1 << (8 * w)) - 1
        key = 'C13.R12:tables.c:min_int_size:width%d-range' % w
        if upper is None:
            rep.fail('C13.R12', key, where(st), 'min_int_size() can choose %d-byte cells without an upper bound on the largest value' % w)
        elif upper > limit:
            rep.fail('C13.R12', key, where(st), 'min_int_size() chooses %d-byte cells for maxima up to %d, but yytbl_data_load reads such cells into a %s %d-bit temporary (%s): values %d..%d '
                     'come back negative' % (w, upper, 'signed' if 'sext' in how else 'unsigned', 8 * w, '/'.join(sorted(how)), limit + 1, upper),
                     replay_input='--tables-file with a table whose largest entry lies in %d..%d (e.g. a scanner with more than %d DFA states / base offsets)' % (limit + 1, upper, limit))
        else:
            rep.ok('C13.R12', 'min_int_size: width %d chosen only for maxima <= %d <= %d (reader %s)' % (w, upper, limit, '/'.join(sorted(how))))
    return n

def controls(ctx):
    rep = ctx.rep
    mod = compile_control(ctx, 'c13_control.c')
    prog = ir.Program([mod])
    fv = _FakeVariant('selftest/c13_control.c', 'r', 'c13_control.c')
    pr = _Probe()
    pr.broken = rep.broken
    F = Flow(prog, mod)
    r1(pr, fv, prog, mod, F); r2(pr, fv, prog, mod, F); r3(pr, fv, prog, mod, F); r4(pr, fv, prog, mod, F); r5(pr, fv, prog, mod, F); r6(pr, fv, prog, mod, F)
    keys = {k for _, k in pr.fails}
    want = ['C13.R1:cpp-flex.skl:yylex_destroy:yy_names:yyfree<-malloc',          # malloc'ed field released with yyfree
            'C13.R1:cpp-flex.skl:yy_ctl_grow:yy_state_buf:yyrealloc<-static',      # field may hold the address of a static array
            'C13.R1:cpp-flex.skl:yy_ctl_drop_text:yy_ch_buf:yyfree-unguarded',     # caller-supplied text freed without the ownership test
            'C13.R2:cpp-flex.skl:yy_ctl_leak:yyalloc-result-dropped',
            'C13.R2:cpp-flex.skl:yy_ctl_names:yyalloc->yy_scratch:never-released',
            'C13.R2:cpp-flex.skl:yy_ctl_make_thing:yyalloc->result-of-yy_ctl_make_thing:handed-out-no-release',
            'C13.R3:cpp-flex.skl:yy_ctl_push:no-capacity-test', 'C13.R3:cpp-flex.skl:yy_ctl_pop:no-capacity-test',
            'C13.R4:cpp-flex.skl:yy_ctl_shrink:yy_start_stack',
            'C13.R5:cpp-flex.skl:yy_init_globals:not-reset:yy_scratch',
            'C13.R5:cpp-flex.skl:yy_init_globals:companion:yystartstackdepth',
            'C13.R5:cpp-flex.skl:yylex_destroy:free-after-reinit',
            'C13.R6:cpp-flex.skl:yy_ctl_new_buffer:yyalloc']
    for k in want:
        if k not in keys: rep.broken('positive control: rule did not fire on selftest/c13_control.c (%s missing; got %s)' % (k, sorted(keys)))
    # clean twins: nothing about them except the field-based spill-over of the yy_state_buf family into yy_ctl_ok_switch (R1)
    clean = [k for k in keys if re.search(r':(yy_ctl_ok_buffer|yy_ctl_ok_push_state|yy_delete_buffer|yyensure_buffer_stack|yy_ctl_wrap_text|yylex_init):', k)
             or (':yy_ctl_ok_switch:' in k and not k.startswith('C13.R1:')) or ':yy_buffer_stack:' in k or ':not-reset:yy_buffer_stack' in k or ':not-reset:yy_start_stack' in k]
    if clean: rep.broken('positive control: rule fired on a clean construct of selftest/c13_control.c: %s' % clean)
    rep.note('positive controls: %d expected reports raised on selftest/c13_control.c, clean constructs silent' % len(want))
    return len(want)

# ---------------------------------------------------------------- driver

def run(ctx):
    rep = ctx.rep
    nctl = controls(ctx)
    vs = ctx.variants()
    rep.require(len(vs) >= 100, 'only %d scanner variants compiled to IR' % len(vs))
    tot = dict(R1=0, R2=0, R3=0, R4=0, R5=0, R6=0, R8=0); nrej = 0; nfn = 0
    # what the C scanners of the cpp skeleton reset in yy_init_globals (union over the nr / r variants): reference for R8
    cinit = set(); flows = {}; nr10 = set()
    for v in vs:
        if v.backend in ('nr', 'r'):
            mod = variants.module(v); flows[v.name] = Flow(variants.program(v), mod)
            cinit |= c_init_set(mod, flows[v.name])
    rep.require(len(cinit) >= 12, 'yy_init_globals of the C scanners resets only %d objects (%s)' % (len(cinit), sorted(cinit)))
    for v in vs:
        mod = variants.module(v); prog = variants.program(v)
        F = flows.pop(v.name, None) or Flow(prog, mod)
        if v.backend == 'cxx': tot['R8'] += r8(rep, v, prog, mod, F, cinit)
        if 'M4_MODE_YYTEXT_IS_ARRAY' in variants.mode_symbols(v):
            k = r9(rep, v, prog, mod, F)
            if k < 1: rep.broken('C13.R9: %%array variant %s has no bulk copy into the yytext array' % v.name)
            tot['R9'] = tot.get('R9', 0) + k
        if 'M4_MODE_USES_REJECT' in variants.mode_symbols(v):
            k = r10(rep, v, prog, mod, F)
            tot['R10'] = tot.get('R10', 0) + k
            if has_reject(mod, F): tot['R11'] = tot.get('R11', 0) + r11(rep, v, prog, mod, F)
            if k: nr10.add(('vartrail' if 'M4_MODE_VARIABLE_TRAILING_CONTEXT_RULES' in variants.mode_symbols(v) else 'plain', v.backend))
        nfn += len(mod.functions)
        tot['R1'] += r1(rep, v, prog, mod, F)
        tot['R2'] += r2(rep, v, prog, mod, F)
        if has_reject(mod, F):
            nrej += 1
            k = r3(rep, v, prog, mod, F)
            if k < 4: rep.broken('C13.R3: variant %s uses REJECT but only %d buffer-switch events were found' % (v.name, k))
            tot['R3'] += k
        tot['R4'] += r4(rep, v, prog, mod, F)
        tot['R5'] += r5(rep, v, prog, mod, F)
        tot['R6'] += r6(rep, v, prog, mod, F)
        tot['R7'] = tot.get('R7', 0) + r7(rep, v, prog, mod, F)
    rep.require(nrej >= 15, 'only %d REJECT variants analysed' % nrej)
    rep.setcount('variants_analysed', len(vs)); rep.setcount('reject_variants', nrej); rep.setcount('scanner_functions_analysed', nfn)
    for r_, c in tot.items(): rep.setcount('instances_' + r_, c)
    rep.setcount('positive_control_reports', nctl)
    rep.floor('C13.R1', 950, 'measured 1030: 6-14 release calls in each of 118 variants')
    rep.floor('C13.R2', 2200, 'measured 2440: two obligations per allocation call site (8-14 sites) in each of 118 variants')
    rep.floor('C13.R3', 100, 'measured 114: 6 buffer-activation events in each of 19 REJECT variants')
    rep.floor('C13.R4', 880, 'measured 966: 6-14 releases of stored pointers + the slot clearing per variant')
    rep.floor('C13.R5', 1100, 'measured 1195: 4-7 lazily initialised locations + destroy order + 4-6 companions per variant')
    rep.floor('C13.R8', 280, 'measured 316 (quick): 10-16 members x 2 constructors in each C++ variant')
    for need in (('vartrail', 'nr'), ('vartrail', 'r'), ('vartrail', 'cxx'), ('vartrail', 'c99'), ('plain', 'nr')):
        if need not in nr10: rep.broken('C13.R10: no %s variant with a yyreject() expansion (%s) was analysed' % (need[1], need[0]))
    tot['R12'] = r12(ctx, rep, reader_signedness(vs))
    rep.floor('C13.R12', 3, 'the three widths min_int_size() can return')
    rep.floor('C13.R11', 85, 'bytes = recorded capacity * element size at each (re)allocation of yy_state_buf (yy_load_buffer_state, first call of yylex, C++ constructor) + the guard threshold at the growth site, in every REJECT variant')
    rep.floor('C13.R10', 100, 'start-of-token and start-of-search probes for 1-3 restored cells in each REJECT variant that contains a yyreject() expansion')
    rep.floor('C13.R9', 6, 'one copy in YY_DO_BEFORE_ACTION / yy_do_before_action of each of the >=6 %array variants')
    rep.floor('C13.R7', 6, 'th.th_version in yytbl_fload of every tables-file variant')
    rep.floor('C13.R6', 300, 'measured 335: 2-3 allocation sites of yy_ch_buf per variant')
    rep.undecided += ['absence of out-of-bounds accesses driven by table contents or input length', 'use of uninitialised memory',
                      'that the ownership flag yy_is_our_buffer is set correctly for every buffer (only that releases test it)',
                      'object-sensitive facts: which buffer a field belongs to (the analysis is field-based)',
                      'user-supplied yyalloc/yyrealloc/yyfree replacements']
    rep.assumptions += ['clang -O0 IR of the instantiated skeleton is a faithful rendering of the generated C/C++ source',
                        'yyalloc/yyrealloc/yyfree form one allocator family (the default wrappers map to malloc/realloc/free)',
                        'a pointer is "the allocation" only when no pointer arithmetic was applied (interior pointers are not tracked)']
    return rep.finish('other',
        'Field-based pointer value-flow analysis over the LLVM IR of %d instantiated scanner variants (all back ends): allocation families are '
        'propagated from allocation calls, parameters of external functions and addresses of objects through fields, globals, pointer slots, '
        'parameters and return values; every release call is checked against the families that can reach it, every allocation against the releases '
        'reachable from the documented destructor, plus path rules for free-then-forget, REJECT state-buffer capacity after a buffer switch, '
        'reset-for-reuse in yy_init_globals and the yy_buf_size+2 sizing of yy_ch_buf.' % len(vs))
