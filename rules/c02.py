"""C02 - behaviour independent of table representation / API / back end: the decidable parts.

R1  every m4 mode symbol a skeleton tests can be defined (by the generator, the skeleton or the filter prelude).
R2  every configuration flex accepts instantiates to well-formed C/C++ (clang front end as oracle); quick = the
    core variant list (every back end x table representation x interactive/batch + one per feature), thorough adds
    a 3-wise covering array over 22 option dimensions.  Skeleton line coverage by the variants is measured.
R3  the M4_GEN_* macros, which are copies of each other in the three skeletons, have the same m4 structure.
R4  refusals stay in place: each recorded combination of option fields still controls a flexerror/lerr call.
"""
import os, re, subprocess, hashlib
from concurrent.futures import ThreadPoolExecutor
import ir, flow, skl, variants, e0
from common import where, fwhere, VERIF

DOCUMENTED_BACKENDS = ('nr', 'r', 'cxx', 'c99')      # the property names C, the C++ class and c99; go is listed as a note only
BACKEND_UNSUPPORTED = {'header-file', 'tables-file', 'tables-verify', 'bison-bridge', 'bison-locations'}
PRELUDE = {'M4_YY_IN_HEADER', 'M4_YY_NOOP', 'M4_YY_OUTFILE_NAME'}
R1_EXCEPT = {
    'M4_YY_NO_DESTROY': 'negative-sense test; no option requests omitting yylex_destroy, the default arm (emit it) is the documented behaviour',
    'M4_HOOK_MKFTBL_TYPE': 'tested only to choose between two equivalent table declarations; never defined means the portable arm is always used',
}

def generator_defined(prog):
    """all m4 symbols flex itself can emit (definer calls with constant names + m4_define in string constants of
    flex's own modules, excluding the compiled-in skeleton text)"""
    out = {}
    for f in set(prog.functions.values()):
        for i in f.ins:
            if i.op == 'call' and i.callee in skl.DEFINERS and i.ops:
                s_ = flow.const_arg(f, i.ops[0])
                if s_ is not None: out.setdefault(s_, '%s() %s' % (f.name, where(i)))
    for m in prog.modules:
        if os.path.basename(m.path).startswith('skeletons'): continue
        for g in m.globals.values():
            if g.init is not None and g.init[0] == 'cstr':
                t = ir.decode_cstr(g.init[1])
                for mm in re.finditer(r'm4_define\(\s*\[\[([A-Za-z0-9_.<>]+)\]\]', t):
                    out.setdefault(mm.group(1), 'string constant in ' + os.path.basename(m.path))
    return out

def r1(ctx):
    rep = ctx.rep
    gen = generator_defined(ctx.flex)
    rep.require(len(gen) >= 130, 'only %d generator-defined m4 symbols found' % len(gen))
    for lang in ('cpp', 'c99', 'go'):
        sk = skl.load(ctx.art, lang)
        rep.require(len(sk.tested) >= 80, '%s skeleton: only %d tested symbols' % (lang, len(sk.tested)))
        for sym in sorted(sk.tested):
            if sym in gen or sym in sk.defined or sym in PRELUDE:
                rep.ok('C02.R1', '%s skeleton: %s can be defined (%s)' % (lang, sym, gen.get(sym) or ('skeleton line %s' % sk.defined[sym][0][0] if sym in sk.defined else 'filter prelude')))
            elif sym in R1_EXCEPT:
                rep.ok('C02.R1', '%s skeleton: %s is never defined - excepted: %s' % (lang, sym, R1_EXCEPT[sym]))
            else:
                rep.fail('C02.R1', 'C02.R1:%s-flex.skl:%s:undefinable' % (lang, sym), '%s-flex.skl line(s) %s of the compiled-in skeleton' % (lang, sk.tested[sym][:4]),
                         'the %s skeleton tests m4 symbol %s, which nothing can ever define: one arm of this mode switch is dead and some option combination silently takes the other code path' % (lang, sym))

# ------------------------------------------------------------------ R2

STRICT = ['-fsyntax-only', '-Werror=implicit-function-declaration', '-Werror=int-conversion', '-Werror=incompatible-pointer-types',
          '-Werror=return-type', '-Werror=excess-initializers', '-Wno-everything', '-Werror=implicit-function-declaration',
          '-Werror=int-conversion', '-Werror=incompatible-pointer-types', '-Werror=return-type', '-ferror-limit=3']

def syntax_check(art, v):
    """returns (ok, first error text, offending source line) for the scanner and, with header-file, a TU including only the header"""
    if v.src is None: return None
    if v.backend == 'cxx': cc = ['clang++', '-std=gnu++17', '-I', art.src]
    else: cc = ['clang', '-std=gnu11']
    outs = []
    p = subprocess.run(cc + STRICT + [os.path.basename(v.src)], cwd=v.dir, stdout=subprocess.PIPE, stderr=subprocess.STDOUT)
    outs.append(('scanner', p.returncode, p.stdout.decode(errors='replace')))
    if v.header and v.hdr:
        hp = os.path.join(v.dir, 'hdr_only.' + ('cc' if v.backend == 'cxx' else 'c'))
        pre = ''       # the probe's %top block (YYSTYPE etc.) is copied into the header by flex, as documented
        open(hp, 'w').write(pre + '#include "lex.h"\n#include "lex.h"\nint verif_header_user(void) { return 0; }\n')
        p = subprocess.run(cc + STRICT + [os.path.basename(hp)], cwd=v.dir, stdout=subprocess.PIPE, stderr=subprocess.STDOUT)
        outs.append(('header', p.returncode, p.stdout.decode(errors='replace')))
    elif v.header and not v.hdr:
        outs.append(('header', 1, 'lex.h: error: header file was not written'))
    for what, rc, txt in outs:
        if rc != 0:
            m = re.search(r'^(\S+?):(\d+):\d+: (?:fatal )?error: (.*)$', txt, re.M)
            # prefer the location inside the generated file (errors in user text are reported at spec.l through #line)
            msg = m.group(3) if m else txt.strip().split('\n')[0]
            srcline = ''
            if m:
                # clang echoes the offending source line right after the diagnostic
                after = txt[m.end():].split('\n')
                if len(after) > 1: srcline = after[1].strip()
                srcline = re.sub(r'\b(foo|bar)(?=[a-z_A-Z])', 'yy', srcline)
                srcline = re.sub(r'\byyg->', '', srcline)
            return (False, what, msg, srcline, txt[:1500])
    return (True, None, None, None, None)

def norm_msg(msg):
    msg = re.sub(r"'[^']*'", "'…'", msg)
    msg = re.sub(r'\d+', 'N', msg)
    return re.sub(r'\s+', ' ', msg)[:80]

def skel_of(v):
    return {'nr': 'cpp', 'r': 'cpp', 'cxx': 'cpp', 'c99': 'c99', 'go': 'go'}[v.backend]

def r2(ctx, vs):
    rep = ctx.rep
    with ThreadPoolExecutor(max_workers=16) as ex:
        results = list(ex.map(lambda v: syntax_check(ctx.art, v), vs))
    accepted = refused = 0
    vectors = set()
    for v, r in zip(vs, results):
        vectors.add((v.backend, tuple(sorted(v.options)), tuple(sorted(v.feats))))
        rkey_opts = ' '.join(sorted(v.options))
        if v.crashed:
            rep.fail('C02.R2', 'C02.R2:flex:crash:%s' % hashlib.sha1((v.backend + rkey_opts).encode()).hexdigest()[:8], v.name,
                     'flex died with status %s instead of refusing the combination with a message: %s' % (v.status, v.describe()),
                     replay_input=v.spec(), variant=v.describe())
            continue
        if v.refused:
            refused += 1
            if not v.stderr.strip():
                rep.fail('C02.R2', 'C02.R2:flex:silent-refusal:%s' % hashlib.sha1((v.backend + rkey_opts).encode()).hexdigest()[:8], v.name,
                         'flex exited %s without any message for %s' % (v.status, v.describe()), variant=v.describe())
            else:
                rep.ok('C02.R2', '%s refused with a message: %s' % (v.name, v.stderr.strip().split('\n')[-1][:70]))
            continue
        if r is None:
            rep.fail('C02.R2', 'C02.R2:flex:no-output:%s' % v.name, v.name, 'flex exited 0 but wrote no scanner for %s' % v.describe(), variant=v.describe()); continue
        accepted += 1
        ok, what, msg, srcline, full = r
        unsup = [o.split('=')[0] for o in v.options if v.backend in ('c99', 'go') and o.split('=')[0] in BACKEND_UNSUPPORTED]
        if unsup and v.backend in DOCUMENTED_BACKENDS:
            # the manual: the c99 back end "omits the Bison bridge, header generation, and loadable tables"; the property requires
            # unsupported combinations to be refused.  Judged on acceptance alone (the output is not examined further).
            for o in sorted(set(unsup)):
                rep.fail('C02.R2', 'C02.R2:c99-flex.skl:unsupported-option-accepted:%s' % o, v.name,
                         'flex accepted %%option %s for the c99 back end, which is documented not to implement it, instead of refusing the combination' % o,
                         replay_input=v.spec(), variant=v.describe())
            continue
        if ok:
            rep.ok('C02.R2', '%s accepted and well-formed (%s%s)' % (v.name, v.lang, ', header' if v.header else ''))
        else:
            key = 'C02.R2:%s-flex.skl:%s:%s:%s' % (skel_of(v), what, norm_msg(msg).replace(' ', '_'), hashlib.sha1(re.sub(r'[\s()]+', '', srcline).encode()).hexdigest()[:8])
            text = 'flex accepted %s (exit 0) but the generated %s does not compile: %s  | offending line: %s' % (v.describe(), what, msg, srcline[:120])
            if v.backend not in DOCUMENTED_BACKENDS:
                rep.note('not judged (back end %s is not one of the documented back ends C / C++ / c99): %s' % (v.backend, text))
                continue
            rep.fail('C02.R2', key, '%s (%s)' % (v.name, os.path.basename(v.src)), text, replay_input=v.spec(), variant=v.describe())
    rep.setcount('variants_total', len(vs)); rep.setcount('variants_accepted', accepted); rep.setcount('variants_refused', refused)
    rep.setcount('distinct_configurations', len(vectors))
    return len(vectors)

# ---- skeleton coverage by the accepted variants (evidence; floor)

def premacro_symbols(art, v):
    """m4 symbols defined in the m4 input flex produces for this variant (flex --preproc=1 stops before m4)"""
    pd = os.path.join(v.dir, 'pre')          # separate directory: header/tables files named by %option must not clobber the variant's
    out = os.path.join(pd, 'pre.m4')
    if not os.path.exists(out):
        os.makedirs(pd, exist_ok=True)
        open(os.path.join(pd, 'spec.l'), 'w').write(v.spec())
        env = dict(os.environ); env['LC_ALL'] = 'C'
        subprocess.run([art.flex, '--preproc=1'] + v.flags + ['-o', 'pre.m4', 'spec.l'], cwd=pd, stdout=subprocess.PIPE, stderr=subprocess.PIPE, env=env)
    if not os.path.exists(out): return None
    t = open(out, errors='replace').read()
    return set(re.findall(r'm4_define\(\s*\[\[([A-Za-z0-9_.<>]+)\]\]', t))

def coverage(ctx, vs):
    rep = ctx.rep
    sks = {lang: skl.load(ctx.art, lang) for lang in ('cpp', 'c99', 'go')}
    covered = {lang: set() for lang in sks}
    total = {lang: {(l, c) for l, c, t in sk.text if t.strip() and not any(x[0].startswith('@') for x in c if x[0].startswith('@ifelse'))} for lang, sk in sks.items()}
    def work(v):
        if v.src is None: return None
        return (v, premacro_symbols(ctx.art, v))
    with ThreadPoolExecutor(max_workers=16) as ex:
        res = [r for r in ex.map(work, vs) if r]
    for v, syms in res:
        if syms is None: continue
        lang = skel_of(v); sk = sks[lang]
        for passname, extra in (('c', set()), ('h', {'M4_YY_IN_HEADER'}) if v.header else ('c', set())):
            env = set(syms) | extra
            if 'M4_YY_IN_HEADER' not in extra: env.discard('M4_YY_IN_HEADER')
            # the skeleton's own conditional definitions: iterate to a fixpoint over its m4_define nodes
            changed = True
            while changed:
                changed = False
                for sym, sites in sk.defined.items():
                    if sym in env: continue
                    for line, cond in sites:
                        if all((s_ in env) == pol for s_, pol in cond if not s_.startswith('@')):
                            env.add(sym); changed = True; break
            for (l, c) in total[lang]:
                if (l, c) in covered[lang]: continue
                if all(((s_ in env) == pol) for s_, pol in c if not s_.startswith('@')): covered[lang].add((l, c))
    for lang in sks:
        n = len(total[lang]); k = len(covered[lang])
        rep.setcount('skeleton_%s_text_chunks' % lang, n); rep.setcount('skeleton_%s_chunks_live_in_some_variant' % lang, k)
        unc = sorted(total[lang] - covered[lang])
        for l, c in unc[:12]:
            rep.note('%s skeleton line %d is live in no accepted variant; guard: %s' % (lang, l, ' & '.join(('' if p else '!') + s_ for s_, p in c if not s_.startswith('@'))[:120]))
    return {lang: (len(covered[lang]), len(total[lang])) for lang in sks}

# ------------------------------------------------------------------ R3

def m4_shape(nodes):
    """nesting structure of m4_ifdef tests in a node list"""
    out = []
    for x in nodes:
        if isinstance(x, skl.Quote): out += m4_shape(x.body)
        elif isinstance(x, skl.Call):
            if x.name == 'm4_ifdef':
                out.append((skl.argtext(x.args[0]), m4_shape(x.args[1]) if len(x.args) > 1 else [], m4_shape(x.args[2]) if len(x.args) > 2 else []))
            else:
                for a in x.args: out += m4_shape(a)
    return out

def r3(ctx):
    rep = ctx.rep
    sks = {lang: skl.load(ctx.art, lang) for lang in ('cpp', 'c99', 'go')}
    names = sorted(n for n in sks['cpp'].macros if n.startswith('M4_GEN_'))
    rep.require(len(names) >= 4, 'M4_GEN_* macros not found in the cpp skeleton')
    for n in names:
        ref = m4_shape(sks['cpp'].macros[n][0][0])
        for lang in ('c99', 'go'):
            if n not in sks[lang].macros:
                rep.fail('C02.R3', 'C02.R3:%s-flex.skl:%s:missing' % (lang, n), '%s-flex.skl' % lang, 'macro %s exists in the cpp skeleton but not in %s' % (n, lang)); continue
            sh = m4_shape(sks[lang].macros[n][0][0])
            if sh == ref: rep.ok('C02.R3', '%s: %s and cpp test the same mode symbols in the same nesting (%d tests)' % (n, lang, count_tests(ref)))
            else:
                rep.fail('C02.R3', 'C02.R3:%s-flex.skl:%s:structure' % (lang, n), '%s-flex.skl:%d' % (lang, sks[lang].macros[n][0][2]),
                         'mode structure of %s differs between cpp and %s: cpp %s / %s %s' % (n, lang, flat(ref), lang, flat(sh)))

def count_tests(sh): return sum(1 + count_tests(a) + count_tests(b) for _, a, b in sh)
def flat(sh): return '[' + ' '.join('%s(%s|%s)' % (s, flat(a), flat(b)) for s, a, b in sh) + ']'

# ------------------------------------------------------------------ R4

REFUSALS = [
    # reviewed reference table (today's tree): option-combination refusals and the option state that controls them
    ('-+ with -l', {'C_plus_plus', 'lex_compat'}),
    ('-f/-F with -l', {'fulltbl', 'fullspd', 'lex_compat'}),
    ('reentrant or bison-bridge with -l', {'reentrant', 'bison_bridge_lval', 'lex_compat'}),
    ('-Cf/-CF with -Cm', {'fulltbl', 'fullspd', 'usemecs'}),
    ('-Cf/-CF with -I', {'fulltbl', 'fullspd', 'interactive'}),
    ('-Cf with -CF', {'fulltbl', 'fullspd'}),
    ('-+ with -CF', {'C_plus_plus', 'fullspd'}),
    ('-+ with --reentrant', {'C_plus_plus', 'reentrant'}),
    ('-+ with bison bridge', {'C_plus_plus', 'bison_bridge_lval'}),
    ('REJECT with -f/-F', {'fulltbl', 'fullspd', 'reject'}),
    ('yyclass without -+', {'C_plus_plus', 'yyclass'}),
    ('[ or ] in the prefix', {'prefix'}),
    ('%option main with -+', {'do_main', 'C_plus_plus'}),                               # D44
    ('%option main with the bison bridge', {'do_main', 'bison_bridge_lval', 'bison_bridge_lloc'}),  # D44
]

def r4(ctx):
    rep = ctx.rep; prog = ctx.flex
    sites = []
    for f in set(prog.functions.values()):
        for c in f.ins:
            if c.op == 'call' and c.callee in ('flexerror', 'lerr', 'synerr', 'format_synerr', 'lerr_fatal'):
                locs = flow.controlling_locs(prog, c)
                # the condition of the innermost branch may also call strchr() etc. on an option field: include loads feeding calls
                names = set()
                for l in locs:
                    if l[0] == 'field': names.add(l[2])
                    elif l[0] == 'global': names.add(l[1])
                sites.append((c, names))
        # a refusal may also be recorded as a failing exit status (flexend() must not re-enter itself through flexerror: D54)
        if f.name == 'flexend':
            res = ir.Resolver(f)
            for x in f.ins:
                if x.op == 'store' and res.loc(x.ops[1]) == ('local', 'exit_status.addr') and x.ops[0][0] == 'int' and x.ops[0][1] != 0:
                    names = set()
                    for l in flow.controlling_locs(prog, x):
                        if l[0] == 'field': names.add(l[2])
                        elif l[0] == 'global': names.add(l[1])
                    sites.append((x, names))
    rep.require(len(sites) >= 40, 'only %d refusal sites found' % len(sites))
    for label, need in REFUSALS:
        hit = [c for c, names in sites if need <= names]
        if hit: rep.ok('C02.R4', 'refusal "%s" is in place: %s under {%s}' % (label, where(hit[0]), ', '.join(sorted(need))))
        else:
            rep.fail('C02.R4', 'C02.R4:main.c:refusal:%s' % label.replace(' ', '_'), 'main.c',
                     'no flexerror/lerr call is controlled by option state {%s} any more: the combination "%s" is now accepted' % (', '.join(sorted(need)), label))

def r4_vartrail(ctx):
    """variable trailing context is refused with -f/-F through `reject`: the store reject=true under
    variable_trailing_context_rules must reach the REJECT refusal"""
    rep = ctx.rep; prog = ctx.flex
    f = prog.fn('readin'); rep.require(f is not None, 'readin not found')
    res = ir.Resolver(f); cfg = prog.cfg(f)
    st = [x for x in f.ins if x.op == 'store' and res.loc(x.ops[1]) == ('global', 'reject') and x.ops[0] == ('int', 1)
          and ('global', 'variable_trailing_context_rules') in flow.controlling_locs(prog, x)]
    ref = [c for c in f.ins if c.op == 'call' and c.callee == 'flexerror' and {('global', 'reject'), ('field', 'ctrl_bundle_t', 'fulltbl')} <= flow.controlling_locs(prog, c)]
    if st and ref and any(r in cfg.reach(s_) for s_ in st for r in ref):
        rep.ok('C02.R4', 'variable trailing context sets reject (%s) before the -f/-F refusal (%s)' % (where(st[0]), where(ref[0])))
    else:
        rep.fail('C02.R4', 'C02.R4:main.c:refusal:variable_trailing_context_with_-f/-F', fwhere(f),
                 'variable trailing context rules no longer turn on `reject` before the -f/-F refusal in readin(): the combination is now accepted')

# ------------------------------------------------------------------ R7

def r7(ctx):
    """7-bit scanners: a pattern character the scanner's tables have no column for is refused.  check_char(c) is interpreted
    for every (c, csize) in {0, 1, 127, 128, 129, 200, 255} x {128, 256}: it must end in the error routine exactly when
    c >= csize (the value csize itself is the slot flex uses for NUL, so accepting it folds the character onto NUL)."""
    from genutil import MiniEval, EvalUnknown
    rep = ctx.rep; prog = ctx.flex
    f = prog.fn('check_char'); rep.require(f is not None and f.blocks, 'check_char() not found in flex')
    res = ir.Resolver(f)
    cells = set()
    for x in f.ins:
        if x.op == 'load' and ir.loc_class(res.loc(x.ops[0])) == ('field', 'ctrl_bundle_t', 'csize'): cells.add(flow._freeze(res.loc(x.ops[0])))
    rep.require(cells, 'check_char() does not read ctrl.csize')
    pname = f.params[0][1]
    for csize in (128, 256):
        for c in (0, 1, 127, 128, 129, 200, 255):
            want = c >= csize
            try:
                ev = MiniEval(prog, None, max_steps=20000, max_paths=64, inline=False)
                outs = ev.run(f, f.entry, 0, {pname: c}, {k: csize for k in cells})
            except EvalUnknown as e:
                rep.broken('C02.R7: check_char(%d) with csize %d could not be interpreted: %s' % (c, csize, e))
            kinds = {o[0] for o in outs}
            refused = kinds == {'exit'}
            accepted = kinds == {'ret'}
            if not (refused or accepted): rep.broken('C02.R7: check_char(%d) with csize %d has outcomes %s' % (c, csize, sorted(kinds)))
            if refused == want:
                rep.ok('C02.R7', 'check_char(%d), csize %d: %s' % (c, csize, 'refused' if refused else 'accepted'))
            else:
                rep.fail('C02.R7', 'C02.R7:misc.c:check_char:%s' % ('accepts-character-outside-the-character-set' if want else 'refuses-character-of-the-character-set'), fwhere(f),
                         'check_char(%d) with a %d-character set %s: %s' % (c, csize, 'returns normally' if want else 'ends in the error routine',
                         'a 7-bit scanner accepts an 8-bit pattern character and folds it onto the slot of NUL, so it behaves differently from the 8-bit scanner' if want else 'a character of the scanner\'s character set is rejected'),
                         replay_input='%%option 7bit\n%%%%\n[\\%o]  return 1;\n' % c if want else None)

def run(ctx):
    rep = ctx.rep
    r1(ctx)
    vs = list(ctx.core())      # thorough tier: core + 3-wise covering array (added by the driver)
    nvec = r2(ctx, vs)
    cov = coverage(ctx, [v for v in vs if not v.name.startswith('ca')])
    r3(ctx); r4(ctx); r4_vartrail(ctx); r7(ctx)
    import tbl
    tbl.rule_representations(ctx, 'C02.R5')
    # R6: the numbers of every emitted table fit the element type flex declared for it (core variants + language probes)
    import variants as _variants
    lang = [x[5] for x in tbl.language_results(ctx).values() if x[5] is not None and x[5].src]
    tbl.rule_value_ranges(ctx, 'C02.R6', [v for v in ctx.core() if v.src and not (v.crashed or v.refused)] + lang)
    for lang, (k, n) in cov.items():
        rep.require(n > 300, '%s skeleton model has only %d text chunks' % (lang, n))
    rep.require(cov['cpp'][0] >= 0.93 * cov['cpp'][1], 'core variants keep only %d of %d cpp skeleton chunks live' % cov['cpp'])
    rep.floor('C02.R1', 290, '114+96+91 tested symbols')
    rep.floor('C02.R2', 95, 'core variants (failures with one root cause share a key)')
    rep.floor('C02.R3', 8, '4 macros x 2 sibling skeletons')
    rep.floor('C02.R4', 15, 'reference table of refusals')
    rep.floor('C02.R5', 10, 'language probes, with and without REJECT')
    rep.floor('C02.R7', 14, 'check_char over 7 characters x 2 character-set sizes')
    rep.floor('C02.R6', 800, 'constant tables of the core variants and the language probes')
    rep.undecided += ['behavioural equality of the scanners across table representations, APIs and back ends (run-time quantity)',
                      'the go back end is analysed but its ill-formed outputs are notes, not violations (not a documented back end in the property)']
    rep.assumptions += ['clang 14 front end (gnu11 / gnu++17, glibc headers) as the well-formedness oracle',
                        'probe specifications use the action spellings each back end documents']
    return rep.finish('exploration',
        'Finite space of skeleton mode vectors explored by instantiation: %d distinct configurations generated by the freshly built flex and '
        'parsed by the clang front end (never run); plus symbol-definability over the m4 models, sibling-macro structure, and the refusal table.' % nvec,
        extra={'evaluations': len(vs), 'distinct_nontrivial': nvec,
               'rule': 'one evaluation per variant (back end x %option set x probe features); distinct = distinct (back end, option set, feature set) triples; '
                       'non-trivial = flex produced an outcome (accepted and parsed, or refused with a message)',
               'exhaustive': False,
               'skeleton_chunk_coverage': {k: '%d/%d' % v for k, v in cov.items()}})
