"""C05 - start conditions and the start-condition stack.

R1  who may write the start state: in every scanner variant the functions that store yy_start are a subset of
    {yylex, yy_push_state, yy_pop_state, yy_init_globals / ctor_common, yybegin()}, and no other function of the
    scanner (yyrestart, buffer switching, flush, refill, yyinput, ...) reaches one of the writers through the call
    graph.  Inside yylex the only skeleton store is the first-call initialisation; it is not reachable from the
    refill / yywrap calls (the end-of-file path).
R2  stack bounds, relationally: the push store is guarded by ptr < depth on the edge that does not grow, the growing
    edge enlarges depth and (re)allocates from the new depth with a fatal null test; pop and top read stack[ptr+k]
    only on an edge that implies ptr+k >= 0 exactly, the other edge of pop being fatal.
R3  generator: of the loops in parse.y that distribute a rule into scset[]/scbol[], the two over all conditions are
    control dependent on !scxclu[i] (same i), the explicit-list loops and the <*> expansion do not consult scxclu,
    and the default-rule loop is unguarded; every loop over all conditions runs i = 1 .. lastsc inclusive.
R4  two start states per condition: ntod()'s num_start_states = lastsc * K and the runtime's 1 + K*s / (x-1)/K
    agree (K read from the IR on both sides).
R6  the first yylex() call keeps a start condition selected before it (yybegin() / yy_push_state() before the first
    call, YY_USER_INIT): in every variant every store of a constant to the start state in yylex outside the rule arms
    (the first-call initialisation) is control dependent, on the CFG, on the zero edge of a test "start state == 0" of
    the same register, and no other store of the register lies between that test and the store.  The initialisation
    may only give a default to a scanner that has none yet.
R7  the <<EOF>> action is chosen from the start condition in force when end of file is processed, i.e. AFTER yywrap()
    ran (yywrap may call yybegin() / yy_push_state()).  In yylex of every variant, the value of every read of the start
    state (load of the register, or call of yystart()) that flows - through registers and locals - into the EOF action
    number YY_END_OF_BUFFER + yystart() + 1 is live from the read to the store of the action number and from there, in
    the local that holds the action number, to the dispatch that loads it: no call of yywrap (or of a scanner function
    that transitively stores the register) may lie on that range.  Value flow and path queries, not statement order.
"""
import re
import ir, flow, variants
from common import where, fwhere
import scanner_ids as S
from scanner_ids import scanner

# functions that legitimately (transitively) reach a store of the start state
MAY_REACH = {
    'yylex':                'the scanner: first-call initialisation and user actions',
    'yy_push_state':        'documented writer',
    'yy_pop_state':         'documented writer',
    'yybegin':              'documented writer (c99/go back ends: a function)',
    'yy_init_globals':      'instance (re)initialisation',
    'ctor_common':          'C++ instance initialisation',
    'yyFlexLexer::ctor':    'C++ constructors call ctor_common',
    'yylex_init':           'creates an instance, calls yy_init_globals',
    'yylex_init_extra':     'creates an instance, calls yy_init_globals',
    'yylex_destroy':        'resets the instance through yy_init_globals',
    'main':                 '%option main: calls yylex',
}
DIRECT_WRITERS = ('yylex', 'yy_push_state', 'yy_pop_state', 'yy_init_globals', 'ctor_common', 'yybegin')

def stores_of(sc, fn, canon):
    res = ir.Resolver(fn)
    return [x for x in fn.ins if x.op == 'store' and sc.is_var(res.loc(x.ops[1]), canon)]

def loads_of(sc, fn, canon):
    res = ir.Resolver(fn)
    return [x for x in fn.ins if x.op == 'load' and sc.is_var(res.loc(x.ops[0]), canon)]


def action_switch(fn):
    """the switch over yy_act in yylex (the one with the most cases)"""
    sws = [x for x in fn.ins if x.op == 'switch']
    sw = max(sws, key=lambda x: len(x.cases)) if sws else None
    return sw if sw is not None and len(sw.cases) >= 3 else None

def eof_action_stores(sc, fn):
    """stores into a local of  <constant> + yystart() [+ 1]  - where yylex forms an EOF action number: list of (constant, store)"""
    res = ir.Resolver(fn); out = []
    for x in fn.ins:
        if x.op != 'store': continue
        d = fn.def_of(x.ops[1])
        if d is None or d.op != 'alloca': continue
        sl = flow.value_slice(fn, x.ops[0])
        if not any((y.op == 'load' and sc.is_var(res.loc(y.ops[0]), 'yy_start')) or (y.op in ('call', 'invoke') and sc.callee(y) == 'yystart') for y in sl): continue
        cs_ = [o[1] for y in sl if y.op == 'add' for o in y.ops if o[0] == 'int' and o[1] > 1]
        if cs_: out.append((cs_[0], x))
    return out

def scanner_yylex(sc):
    """the yylex that contains the scanner (C++ with yyclass has a stub as well)"""
    fs = [f for f in sc.fns('yylex') if action_switch(f) is not None]
    return fs[0] if fs else None

def eob_constant(sc, fn):
    """YY_END_OF_BUFFER: the constant added to yystart() where yylex forms the EOF action number; returns (constant, first store)"""
    l = eof_action_stores(sc, fn) or eof_action_stores_deep(sc, fn)     # (the state may be kept in a local first)
    return l[0] if l else (None, None)

# ---------------------------------------------------------------- R1

def r1(ctx, sc):
    rep = ctx.rep; v = sc.v
    writers = {}
    for f in sc.mod.functions.values():
        st = stores_of(sc, f, 'yy_start')
        if st: writers[f.name] = st
    if not writers:
        rep.broken('C05.R1: no function of variant %s stores yy_start (identifier map out of date?)' % v.name)
    for fname, st in writers.items():
        c = sc.canon(fname)
        if c not in DIRECT_WRITERS:
            rep.fail('C05.R1', sc.key('C05.R1', c, 'writes-yy_start'), where(st[0]),
                     '%s stores the start state; only yybegin/yy_push_state/yy_pop_state, the first-call initialisation in yylex and '
                     'instance initialisation may [variant %s]' % (c, v.name), variant=v.describe())
    g = sc.callgraph()
    n = 0
    for f in sc.mod.functions.values():
        c = sc.canon(f)
        if c in MAY_REACH or re.search(r'::ctor$', c): continue
        n += 1
        # shortest call chain from f to a writer
        prev = {f.name: None}; q = [f.name]; hit = None
        while q and hit is None:
            x = q.pop(0)
            if x in writers: hit = x; break
            for y in sorted(g.get(x, ())):
                if y not in prev and y in sc.mod.functions: prev[y] = x; q.append(y)
        if hit is None:
            rep.ok('C05.R1', '%s %s: neither stores yy_start nor reaches a function that does' % (v.name, c))
        elif hit != f.name or c in DIRECT_WRITERS:
            chain = []; x = hit
            while x is not None: chain.append(sc.canon(x)); x = prev[x]
            chain.reverse()
            if hit == f.name: continue        # reported above as a direct writer
            rep.fail('C05.R1', sc.key('C05.R1', c, 'reaches-writer:' + chain[-1]), fwhere(f),
                     '%s changes the start state through %s [variant %s]' % (c, ' -> '.join(chain), v.name),
                     witness=chain, variant=v.describe())
    # inside yylex: the only store outside the rule arms is the first-call initialisation; nothing in the end-of-buffer arm
    # (NUL handling, refill, yywrap, dispatch to the EOF action) stores the start state
    for f in sc.fns('yylex'):
        st = writers.get(f.name, [])
        sw = action_switch(f)
        if sw is None: continue                     # yyclass stub
        EOB, _ = eob_constant(sc, f)
        if EOB is None: rep.broken('C05.R1: YY_END_OF_BUFFER not found in yylex of %s' % v.name)
        arm = [l for c_, l in sw.cases if c_ == EOB]
        if not arm: rep.broken('C05.R1: no YY_END_OF_BUFFER arm in the action switch of %s' % v.name)
        cfg = sc.prog.cfg(f, cut=False)
        armb = f.bmap[arm[0]]
        n += 1
        bad = [x for x in st if cfg.dominates(armb, x.blk)]
        if bad:
            rep.fail('C05.R1', sc.key('C05.R1', 'yylex', 'store-in-end-of-buffer-arm'), where(bad[0]),
                     'the end-of-buffer arm of yylex (refill / yywrap / end of file) stores the start state [variant %s]' % v.name, variant=v.describe())
        else:
            rep.ok('C05.R1', '%s yylex: no store of yy_start in the end-of-buffer arm (%d blocks)' % (v.name, sum(1 for b in f.blocks if cfg.dominates(armb, b))))
        for x in st:
            if cfg.dominates(sw.blk, x.blk): continue           # rule arms: user actions (yybegin macro)
            n += 1
            if x.ops[0] != ('int', 1) or x in sc.prog.cfg(f).reach(sw):
                rep.fail('C05.R1', sc.key('C05.R1', 'yylex', 'init-store'), where(x),
                         'a store of the start state in yylex outside the rule arms is not the first-call initialisation to state 1 [variant %s]' % v.name, variant=v.describe())
            else:
                rep.ok('C05.R1', '%s yylex:%s first-call initialisation yy_start = 1, before the scanning loop' % (v.name, x.line))
    return n

# ---------------------------------------------------------------- R2

def alloc_calls(sc, fn):
    return [x for x in fn.ins if x.op in ('call', 'invoke') and sc.callee(x) in ('yyalloc', 'yyrealloc')]

def r2(ctx, sc):
    rep = ctx.rep; v = sc.v; n = 0
    for canon in ('yy_push_state', 'yy_pop_state', 'yy_top_state'):
        f = sc.fn(canon)
        if f is None: continue
        n += 1
        cfg = sc.prog.cfg(f); res = ir.Resolver(f)
        isptr = lambda val: (lambda d: d is not None and d.op == 'load' and sc.is_var(res.loc(d.ops[0]), 'yy_start_stack_ptr'))(f.def_of(val))
        isdepth = lambda val: (lambda d: d is not None and d.op == 'load' and sc.is_var(res.loc(d.ops[0]), 'yy_start_stack_depth'))(f.def_of(val))
        deltas = S.var_deltas(sc, f, 'yy_start_stack_ptr', cfg)
        acc = [x for x in f.ins if x.op in ('load', 'store') and sc.elem_of(res.loc(x.ptr), 'yy_start_stack')]
        if canon == 'yy_push_state':
            acc = [x for x in acc if x.op == 'store']
        else:
            acc = [x for x in acc if x.op == 'load']
        if len(acc) != 1:
            rep.broken('C05.R2: %s of %s has %d accesses of yy_start_stack[..], expected 1' % (canon, v.name, len(acc)))
        a = acc[0]
        g = f.def_of(a.ptr)
        idx = g.ops[-1] if g is not None and g.op == 'getelementptr' else None
        af = S.affine(f, idx, isptr) if idx is not None else None
        if af is None:
            rep.broken('C05.R2: index of yy_start_stack[..] in %s of %s is not yy_start_stack_ptr + constant' % (canon, v.name))
        ld = f.def_of(af[0]); k = af[1]
        d_idx = deltas.get(ld)
        if d_idx is None:
            rep.fail('C05.R2', sc.key('C05.R2', canon, 'index'), where(a), 'value of yy_start_stack_ptr at the stack access is not a constant offset from its value at entry [variant %s]' % v.name, variant=v.describe()); continue
        # dominating guards on the stack pointer
        guards = []
        for b in f.blocks:
            br = b.ins[-1]
            if br.op != 'br' or not br.ops or not cfg.dominates(b, a.blk) or b is a.blk: continue
            # which successor leads to the access without the other?
            tos = [t for t in br.targets if a in cfg.reach_from_block(f.bmap[t], avoid=[br])]
            guards.append((br, tos))
        if canon == 'yy_push_state':
            ok = None
            for br, tos in guards:
                for t in br.targets:
                    con = S.edge_constraint(f, br, t)
                    if con is None: continue
                    loadsx = [strip for strip in (S.strip_ext(f, con[1]), S.strip_ext(f, con[2]))]
                    if not (any(isptr(x) for x in loadsx) and any(isdepth(x) for x in loadsx)): continue
                    other = [u for u in br.targets if u != t][0]
                    # the edge that reaches the store without passing an allocation call
                    allocs = alloc_calls(sc, f)
                    nogrow = a in cfg.reach_from_block(f.bmap[t], avoid=allocs + [br])
                    if not nogrow: continue
                    ok = (br, t, other, con)
            if ok is None:
                rep.fail('C05.R2', sc.key('C05.R2', canon, 'capacity-test'), where(a), 'the store into yy_start_stack[ptr] is not dominated by a test of '
                         'yy_start_stack_ptr against yy_start_stack_depth [variant %s]' % v.name, variant=v.describe()); continue
            br, t, other, con = ok
            gl = [x for x in (f.def_of(S.strip_ext(f, con[1])), f.def_of(S.strip_ext(f, con[2]))) if x is not None and isptr(('reg', x.res))]
            d_g = deltas.get(gl[0]) if gl else None
            if not S.strictly_less(f, con, isptr, isdepth) or d_g is None or d_g != d_idx + 0 or k != 0:
                rep.fail('C05.R2', sc.key('C05.R2', canon, 'capacity-test'), where(br),
                         'on the edge that reaches yy_start_stack[ptr] = ... without growing the stack the guard gives "%s" which does not imply ptr < depth '
                         '(one-past-the-end write when the stack is full) [variant %s]' % (con[0], v.name), variant=v.describe()); continue
            # depth only grows; the growing edge re-allocates from the new depth and tests the result
            problems = []
            dst = stores_of(sc, f, 'yy_start_stack_depth')
            for x in dst:
                aff = S.affine(f, x.ops[0], isdepth)
                if aff is None or aff[1] <= 0: problems.append((x, 'yy_start_stack_depth is not increased by a positive constant'))
            gb = f.bmap[other]
            allocs = alloc_calls(sc, f)
            if a in cfg.reach_from_block(gb, avoid=allocs + [br]):
                problems.append((br, 'the growing edge reaches the store without (re)allocating'))
            if a in cfg.reach_from_block(gb, avoid=dst + [br]):
                problems.append((br, 'the growing edge reaches the store without enlarging yy_start_stack_depth'))
            for c in allocs:
                sl = S.deep_slice(f, c.ops[0] if sc.callee(c) == 'yyalloc' else c.ops[1])     # (size[, scanner]) / (ptr, size[, scanner])
                dl = [y for y in sl if y.op == 'load' and sc.is_var(res.loc(y.ops[0]), 'yy_start_stack_depth')]
                if not dl: problems.append((c, 'allocation size does not depend on yy_start_stack_depth'))
                elif not any(cfg.ins_dominates(x, y) for x in dst for y in dl): problems.append((c, 'allocation size is computed from the old depth'))
                nt = []
                for b in f.blocks:
                    bn = flow.branch_on_null(f, b.ins[-1]) if b.ins[-1].op == 'br' else None
                    if bn is None: continue
                    dd = f.def_of(flow.strip_casts(f, bn[0]))
                    if dd is not None and dd.op == 'load' and sc.is_var(res.loc(dd.ops[0]), 'yy_start_stack'):
                        nt.append((b.ins[-1], bn))
                after = cfg.reach(c)
                nt = [(x, bn) for x, bn in nt if x in after]            # tests that follow this allocation
                if a in cfg.reach(c, avoid=[x for x, _ in nt]):
                    problems.append((c, 'the stack store is reachable from the allocation without a null test of yy_start_stack'))
                for x, bn in nt:
                    if any(y.op == 'ret' or y is a for y in cfg.reach_from_block(f.bmap[bn[1]])):
                        problems.append((x, 'the null edge after (re)allocation does not end in the fatal hook'))
            if problems:
                x, msg = problems[0]
                rep.fail('C05.R2', sc.key('C05.R2', canon, 'grow'), where(x), '%s [variant %s]' % (msg, v.name), variant=v.describe())
            else:
                rep.ok('C05.R2', '%s yy_push_state: store@%s guarded by ptr<depth on the no-grow edge of br@%s; grow edge enlarges depth, '
                       'allocates from it, null -> fatal' % (v.name, a.line, br.line))
        else:
            # need an edge implying ptr_at_access + k >= 0, tight
            best = None
            for br, tos in guards:
                if len(tos) != 1: continue
                con = S.edge_constraint(f, br, tos[0])
                if con is None: continue
                # the tested value: ptr load + c
                for side in (1, 2):
                    af2 = S.affine(f, con[side], isptr)
                    if af2 is None: continue
                    dg = deltas.get(f.def_of(af2[0]))
                    if dg is None: continue
                    lb = S.lower_bound(f, (con[0], ('reg', '$x'), con[2]) if side == 1 else (con[0], con[1], ('reg', '$x')), lambda val: val == ('reg', '$x'))
                    other = [u for u in br.targets if u != tos[0]][0]
                    best = (br, con, lb, dg + af2[1], other)
            if best is None:
                rep.fail('C05.R2', sc.key('C05.R2', canon, 'underflow-test'), where(a), 'the read of yy_start_stack[ptr%+d] is not dominated by a test of yy_start_stack_ptr [variant %s]' % (k, v.name), variant=v.describe()); continue
            br, con, lb, goff, other = best
            # tested expression T = P0 + goff >= lb  ;  index = P0 + d_idx + k
            if lb is None:
                rep.fail('C05.R2', sc.key('C05.R2', canon, 'underflow-test'), where(br), 'the guard "%s" gives no lower bound for the stack index on the edge that reads the stack [variant %s]' % (con[0], v.name), variant=v.describe()); continue
            least_index = lb - goff + d_idx + k
            if least_index != 0:
                rep.fail('C05.R2', sc.key('C05.R2', canon, 'underflow-test'), where(br),
                         'on the edge that reads yy_start_stack[..] the guard implies index >= %d, not index >= 0 (%s) [variant %s]' % (
                             least_index, 'reads below the stack' if least_index < 0 else 'the bottom entry can never be read', v.name), variant=v.describe()); continue
            if canon == 'yy_pop_state':
                if any(y.op == 'ret' for y in cfg.reach_from_block(f.bmap[other], avoid=[br])):
                    rep.fail('C05.R2', sc.key('C05.R2', canon, 'underflow-fatal'), where(br), 'the underflow edge of yy_pop_state does not end in the fatal hook [variant %s]' % v.name, variant=v.describe()); continue
            rep.ok('C05.R2', '%s %s: read@%s of stack[ptr%+d] guarded by br@%s which implies index >= 0 exactly%s' % (
                v.name, canon, a.line, k, br.line, '; underflow edge fatal' if canon == 'yy_pop_state' else ''))
    return n

def r2_reset(ctx, sc):
    """the guards of push/pop/top rely on 0 <= yy_start_stack_ptr <= yy_start_stack_depth.  push keeps it (checked above); every
    function that sets the depth to a constant (instance initialisation / re-initialisation after yylex_destroy) must, on every
    path, also set the index to a constant within 0..depth - otherwise a re-initialised scanner pushes at a stale index."""
    rep = ctx.rep; v = sc.v; n = 0
    for f in sc.mod.functions.values():
        dst = [x for x in stores_of(sc, f, 'yy_start_stack_depth') if x.ops[0][0] == 'int']
        if not dst: continue
        n += 1
        c = sc.canon(f); cfg = sc.prog.cfg(f)
        cap = min(x.ops[0][1] for x in dst)
        pst = [x for x in stores_of(sc, f, 'yy_start_stack_ptr') if x.ops[0][0] == 'int' and 0 <= x.ops[0][1] <= cap]
        # `a = b = 0` stores the same constant through a register chain: accept stores of a value that is that constant store's operand
        key = sc.key('C05.R2', c, 'index-reset-with-depth')
        if not pst or any(y.op == 'ret' for y in S.entry_reach(cfg, f, avoid=pst)):
            rep.fail('C05.R2', key, where(dst[0]), '%s sets yy_start_stack_depth to %d but does not, on every path, set yy_start_stack_ptr to a value in 0..%d: after re-initialisation '
                     '(yylex_destroy, then reuse) yy_push_state stores at the stale index beyond the freshly allocated stack [variant %s]' % (c, cap, cap, v.name), variant=v.describe())
        else:
            rep.ok('C05.R2', '%s %s: depth := %d together with ptr := %d on every path' % (v.name, c, cap, pst[0].ops[0][1]))
    return n

# ---------------------------------------------------------------- R3 (generator, parse.y through parse.c IR)

def esig(fn, v, depth=0):
    """structural signature of a value: loads by address signature, constants, operators"""
    if depth > 12: return ('?',)
    if v[0] == 'int': return ('c', v[1])
    if v[0] == 'null': return ('null',)
    if v[0] == 'glob': return ('g', v[1])
    if v[0] in ('cgep',): return ('gep', esig(fn, v[2], depth + 1)) + tuple(esig(fn, i, depth + 1) for i in v[3])
    if v[0] == 'ccast': return esig(fn, v[2], depth + 1)
    if v[0] != 'reg': return ('?',)
    d = fn.def_of(v)
    if d is None: return ('p', v[1])
    if d.op == 'alloca': return ('l', d.res)
    if d.op in ('sext', 'zext', 'trunc', 'bitcast'): return esig(fn, d.ops[0], depth + 1)
    if d.op == 'load':
        # a named temporary (`int sc = scon_stk[i];`: one assignment, address never taken; not a parameter spill) has the
        # signature of the value assigned to it (neutral diff m5P4)
        a_ = fn.def_of(d.ops[0]) if isinstance(d.ops[0], tuple) and d.ops[0][0] == 'reg' else None
        if a_ is not None and a_.op == 'alloca' and not str(a_.res).endswith('.addr'):
            tv = flow.named_temporary(fn, d)
            if tv is not None and tv[0] == 'reg' and fn.def_of(tv) is not None: return esig(fn, tv, depth + 1)
        return ('ld', esig(fn, d.ops[0], depth + 1))
    if d.op == 'getelementptr': return ('gep',) + tuple(esig(fn, o, depth + 1) for o in d.ops)
    if d.op in ('call', 'invoke'): return ('call', d.callee if isinstance(d.callee, str) else '?', id(d))
    if d.op in ('phi', 'select'): return (d.op, id(d))
    return (d.op,) + tuple(esig(fn, o, depth + 1) for o in d.ops)

def sig_mentions(sig, name):
    if not isinstance(sig, tuple): return False
    if sig[:2] == ('g', name): return True
    return any(sig_mentions(x, name) for x in sig if isinstance(x, tuple))

def array_elem(fn, ptr, arrname):
    """ptr designates arr[idx] where arr is the global pointer `arrname`: returns the index value, else None"""
    g = fn.def_of(ptr)
    if g is None or g.op != 'getelementptr' or len(g.ops) != 2: return None
    b = fn.def_of(g.ops[0])
    if b is None or b.op != 'load' or b.ops[0] != ('glob', arrname): return None
    return g.ops[1]

def copies_of(fn, reg):
    """registers that hold the same value as register `reg`: loads of locals whose only store is a copy of it"""
    out = {reg}; changed = True
    while changed:
        changed = False
        for x in fn.ins:
            if x.op == 'store' and x.ops[0][0] == 'reg' and x.ops[0][1] in out:
                a = fn.def_of(x.ops[1])
                if a is None or a.op != 'alloca': continue
                if sum(1 for y in fn.ins if y.op == 'store' and y.ops[1] == x.ops[1]) != 1: continue
                for y in fn.ins:
                    if y.op == 'load' and y.ops[0] == x.ops[1] and y.res not in out: out.add(y.res); changed = True
    return out

class Cases:
    """regions of a bison action switch: blocks dominated by a case label"""
    def __init__(s, prog, fn):
        s.fn = fn; s.cfg = prog.cfg(fn, cut=False)
        sws = [x for x in fn.ins if x.op == 'switch']
        s.sw = max(sws, key=lambda x: len(x.cases)) if sws else None
        s.labels = sorted({l for _, l in s.sw.cases}) if s.sw is not None else []
    def label_of(s, blk):
        for l in s.labels:
            if s.cfg.dominates(s.fn.bmap[l], blk): return l
        return None
    def in_region(s, label, blk):
        return s.cfg.dominates(s.fn.bmap[label], blk)
    def deps(s, label, blk):
        """control dependences of blk that lie inside the case region"""
        return [(br, t) for br, t in s.cfg.control_deps_closure(blk) if s.in_region(label, br.blk) and br.blk is not s.sw.blk]
    def ins(s, label):
        for b in s.fn.blocks:
            if s.in_region(label, b):
                yield from b.ins

def loop_over_conditions(cs, label, blk, idxsig):
    """block `blk` of grammar action `label` lies in a loop `for (i = 1; i <= lastsc; ++i)` over the variable with signature
    idxsig: returns None, or the reason why not"""
    f = cs.fn; cfg = cs.cfg
    ok_bound = False
    for br, t in cs.deps(label, blk):
        con = S.edge_constraint(f, br, t.name)
        if con is None: continue
        a, b = esig(f, con[1]), esig(f, con[2])
        if con[0] == 'sle' and a == idxsig and b == ('ld', ('g', 'lastsc')): ok_bound = True
        if con[0] == 'sge' and b == idxsig and a == ('ld', ('g', 'lastsc')): ok_bound = True
    if not ok_bound: return 'the loop is not bounded by i <= lastsc'
    if idxsig[0] != 'ld': return 'loop index is not a variable'
    inits = [y for y in cs.ins(label) if y.op == 'store' and esig(f, y.ops[1]) == idxsig[1] and y.ops[0][0] == 'int' and cfg.dominates(y.blk, blk)]
    if not inits or inits[-1].ops[0] != ('int', 1): return 'the loop does not start at start condition 1'
    return None

def r3(ctx):
    rep = ctx.rep
    P = ctx.flex
    f = P.fn('yyparse')
    if f is None: rep.broken('C05.R3: yyparse not found in the IR of parse.c')
    cs = Cases(P, f)
    if cs.sw is None or len(cs.labels) < 40: rep.broken('C05.R3: action switch of yyparse not found')
    cfg = cs.cfg
    # rule-distribution stores: arr[idx] = mkbranch(arr[idx], pat)
    dist = []
    for x in f.ins:
        if x.op != 'store': continue
        for arr in ('scset', 'scbol'):
            idx = array_elem(f, x.ops[1], arr)
            if idx is None: continue
            d = f.def_of(x.ops[0])
            if d is None or d.op != 'call' or d.callee != 'mkbranch': continue
            dist.append((x, arr, idx, d))
    star = []
    for x in f.ins:
        if x.op != 'store': continue
        idx = array_elem(f, x.ops[1], 'scon_stk')
        if idx is not None: star.append((x, idx))
    if len(dist) < 5: rep.broken('C05.R3: found %d stores arr[..] = mkbranch(..) into scset/scbol in yyparse, 5 confirmed by hand' % len(dist))
    def loop_over_all(label, blk, idxsig, what, x):
        return loop_over_conditions(cs, label, blk, idxsig)
    n = 0
    for x, arr, idx, call in dist:
        label = cs.label_of(x.blk)
        if label is None: rep.broken('C05.R3: store into %s[] at %s is not inside a grammar action' % (arr, where(x)))
        isig = esig(f, idx)
        rmw = esig(f, call.ops[0]) == ('ld', esig(f, x.ops[1]))
        explicit = sig_mentions(isig, 'scon_stk')
        default = any(y.op == 'store' and y.ops[1] == ('glob', 'default_rule') for y in cs.ins(label))
        kind = 'default-rule' if default else ('explicit-list' if explicit else 'all-conditions')
        key = 'C05.R3:parse.y:%s:%s' % (kind, arr)
        n += 1
        if not rmw:
            rep.fail('C05.R3', key + ':rmw', where(x), '%s[k] is assigned mkbranch() of a different element than %s[k]' % (arr, arr)); continue
        deps = cs.deps(label, x.blk)
        reads_xclu = []
        guard_ok = False
        for br, t in deps:
            for d in flow.value_slice(f, br.ops[0]) if br.ops else []:
                if d.op == 'load':
                    gi = array_elem(f, d.ops[0], 'scxclu')
                    if gi is not None:
                        reads_xclu.append((br, t, gi, d))
        for br, t, gi, d in reads_xclu:
            con = S.edge_constraint(f, br, t.name)
            if con is None: continue
            zero = (con[0] == 'eq' and con[2] == ('int', 0) and S.strip_ext(f, con[1]) == ('reg', d.res)) or \
                   (con[0] == 'eq' and con[1] == ('int', 0) and S.strip_ext(f, con[2]) == ('reg', d.res))
            if zero and esig(f, gi) == isig: guard_ok = True
        if kind == 'all-conditions':
            why = loop_over_all(label, x.blk, isig, arr, x)
            if why:
                rep.fail('C05.R3', key + ':loop', where(x), 'distribution of a rule without <..> list into %s[]: %s' % (arr, why))
            elif not guard_ok:
                rep.fail('C05.R3', key + ':exclusive-guard', where(x),
                         'a rule without a start-condition list is added to %s[i] without the guard !scxclu[i] on the same i: it becomes active in exclusive start conditions' % arr,
                         replay_input='%x X\n%%\n<X>a  ;\nb  ECHO;\n%%\n-- after yybegin(X), input "b" must hit the default rule, not rule 2')
            else:
                rep.ok('C05.R3', 'parse.y:%s %s[i] = mkbranch(%s[i], pat) for i = 1..lastsc under !scxclu[i]' % (x.line, arr, arr))
        elif kind == 'explicit-list':
            if reads_xclu:
                rep.fail('C05.R3', key + ':guarded', where(x), 'a rule with an explicit <..> list is added to %s[] only under a test of scxclu[]: listed exclusive conditions would lose the rule' % arr)
            else:
                rep.ok('C05.R3', 'parse.y:%s %s[scon_stk[i]] = mkbranch(..): explicit list honoured without consulting scxclu' % (x.line, arr))
        else:
            why = loop_over_all(label, x.blk, isig, arr, x)
            extra = [ir.loc_str(l) for br, t in deps for d, l in flow.cond_loads(f, br) if ir.root_of(l) not in (('global', 'lastsc'),) and esig(f, ('reg', d.res)) != isig]
            if why:
                rep.fail('C05.R3', key + ':loop', where(x), 'default rule: %s' % why)
            elif extra or arr != 'scset':
                rep.fail('C05.R3', key + ':guarded', where(x), 'the default rule is added to %s[i] under a condition on %s; it must be active in every start condition, exclusive ones included' % (arr, ', '.join(extra) or '-'))
            else:
                rep.ok('C05.R3', 'parse.y:%s default rule: scset[i] = mkbranch(scset[i], def_rule) for i = 1..lastsc, unguarded' % x.line)
    # <*> : every condition is pushed on scon_stk
    found = 0
    for x, idx in star:
        label = cs.label_of(x.blk)
        if label is None: continue
        deps = cs.deps(label, x.blk)
        vs = esig(f, x.ops[0])
        names = set()
        for br, t in deps:
            for d, l in flow.cond_loads(f, br): names.add(ir.loc_str(ir.root_of(l)))
        if '@sceof' in names: continue                     # <<EOF>> without list: C10
        if vs[0] != 'ld': continue
        # the pushed value must be a loop variable of this action (var = var + 1 inside the region); sconname pushes sclookup()'s result
        steps = [y for y in cs.ins(label) if y.op == 'store' and esig(f, y.ops[1]) == vs[1] and esig(f, y.ops[0]) in (('add', vs, ('c', 1)), ('add', ('c', 1), vs))]
        if not steps: continue
        found += 1; n += 1
        key = 'C05.R3:parse.y:star:scon_stk'
        why = loop_over_all(label, x.blk, vs, 'scon_stk', x)
        if why:
            rep.fail('C05.R3', key + ':loop', where(x), '<*>: %s' % why)
        elif '@scxclu' in names:
            rep.fail('C05.R3', key + ':guarded', where(x), '<*> consults scxclu[]: exclusive start conditions must be included')
        else:
            rep.ok('C05.R3', 'parse.y:%s <*>: scon_stk[++scon_stk_ptr] = i for i = 1..lastsc (conditions: %s)' % (x.line, ', '.join(sorted(names))))
    if found != 1: rep.broken('C05.R3: found %d candidates for the <*> expansion loop, expected 1' % found)
    return n

# ---------------------------------------------------------------- R4

def r4_generator(ctx):
    """K of num_start_states = lastsc * K in ntod()"""
    rep = ctx.rep; P = ctx.flex
    f = P.fn('ntod')
    if f is None: rep.broken('C05.R4: ntod not found')
    ks = []
    for x in f.ins:
        if x.op in ('mul', 'shl'):
            sa, sb = esig(f, x.ops[0]), esig(f, x.ops[1])
            for a, b in ((sa, sb), (sb, sa)):
                if a == ('ld', ('g', 'lastsc')) and b[0] == 'c':
                    ks.append((x, b[1] if x.op == 'mul' else 1 << b[1]))
    if len(ks) != 1: rep.broken('C05.R4: ntod: %d computations lastsc * constant, expected 1' % len(ks))
    return ks[0]

def r4(ctx, sc, K, kins):
    rep = ctx.rep; v = sc.v; n = 0
    for f in sc.mod.functions.values():
        res = ir.Resolver(f)
        c = sc.canon(f)
        for x in stores_of(sc, f, 'yy_start'):
            if x.ops[0][0] == 'int': continue
            n += 1
            d = f.def_of(x.ops[0]); good = False; got = '?'
            if d is not None and d.op == 'add' and ('int', 1) in d.ops:
                m = f.def_of([o for o in d.ops if o != ('int', 1)][0]) if len([o for o in d.ops if o != ('int', 1)]) == 1 else None
                if m is not None and m.op == 'mul':
                    cs_ = [o[1] for o in m.ops if o[0] == 'int']
                    if cs_: got = '1 + %d*s' % cs_[0]; good = (cs_[0] == K)
                elif m is not None and m.op == 'shl' and m.ops[1][0] == 'int':
                    got = '1 + %d*s' % (1 << m.ops[1][1]); good = (1 << m.ops[1][1]) == K
            if good: rep.ok('C05.R4', '%s %s:%s yy_start = %s agrees with ntod num_start_states = lastsc*%d' % (v.name, c, x.line, got, K))
            else:
                if x.loc[0] == 'spec.l' and sc.backend in ('nr', 'r', 'cxx'): where_ = 'yybegin-macro'
                else: where_ = 'store'
                rep.fail('C05.R4', sc.key('C05.R4', c if x.loc[0] != 'spec.l' else 'yybegin', where_), where(x),
                         'start state is computed as %s, the generator lays out %d start states per condition starting at 1 (dfa.c ntod) [variant %s]' % (got, K, v.name), variant=v.describe())
        # inverse: (yy_start - 1) / K wherever yy_start feeds a division
        for l in loads_of(sc, f, 'yy_start'):
            for u in f.uses().get(l.res, []):
                if u.op not in ('sub', 'add'): continue
                off = u.ops[1] if u.ops[0] == ('reg', l.res) else None
                for w in f.uses().get(u.res, []):
                    if w.op not in ('sdiv', 'udiv', 'ashr', 'lshr'): continue
                    n += 1
                    kk = w.ops[1][1] if w.ops[1][0] == 'int' else None
                    if w.op in ('ashr', 'lshr') and kk is not None: kk = 1 << kk
                    o = off[1] if off and off[0] == 'int' else None
                    if u.op == 'add' and o is not None: o = -o
                    if kk == K and o == 1:
                        rep.ok('C05.R4', '%s %s:%s (yy_start - 1) / %d agrees with the generator' % (v.name, c, w.line, K))
                    else:
                        rep.fail('C05.R4', sc.key('C05.R4', c, 'yystart'), where(w), 'start condition is recovered as (yy_start - %s) / %s, generator uses %d states per condition from 1 [variant %s]' % (o, kk, K, v.name), variant=v.describe())
    return n

# ---------------------------------------------------------------- R6

def r6(ctx, sc):
    """stores of a constant to yy_start in yylex outside the rule arms only give a default: they run only on the `yy_start == 0`
    edge of a test of the same register (control dependence on the plain CFG, not source order)"""
    rep = ctx.rep; v = sc.v; n = 0
    for f in sc.fns('yylex'):
        sw = action_switch(f)
        if sw is None: continue                     # yyclass stub
        cfg = sc.prog.cfg(f, cut=False); res = ir.Resolver(f)
        allst = stores_of(sc, f, 'yy_start')
        for x in allst:
            if cfg.dominates(sw.blk, x.blk): continue           # rule arms: user actions (the yybegin macro)
            if x.ops[0][0] != 'int': continue                   # not a constant: R1 (init-store) / R4
            n += 1
            guard = None; stale = None
            for br, t in cfg.control_deps_closure(x.blk):
                con = S.edge_constraint(f, br, t.name)
                if con is None or con[0] != 'eq': continue
                a, b = S.strip_ext(f, con[1]), S.strip_ext(f, con[2])
                if a == ('int', 0): a, b = b, a
                if b != ('int', 0): continue
                d = f.def_of(a)
                if d is None or d.op != 'load' or not sc.is_var(res.loc(d.ops[0]), 'yy_start'): continue
                # the tested value is still the value of the register when the store runs
                between = [y for y in allst if y is not x and y in cfg.reach(d, avoid=[x]) and x in cfg.reach(y, avoid=[d])]
                if between: stale = between[0]; continue
                guard = br; break
            key = sc.key('C05.R6', 'yylex', 'first-call-start-state:unguarded')
            if guard is not None:
                rep.ok('C05.R6', '%s yylex:%s yy_start = %d only on the zero edge of the test of yy_start @%s' % (v.name, x.line, x.ops[0][1], guard.line))
            elif stale is not None:
                rep.fail('C05.R6', key, where(x), 'the first-call initialisation in yylex stores %d to the start state under a test of the start state against 0, '
                         'but the register is written again (%s) between the test and the store [variant %s]' % (x.ops[0][1], where(stale), v.name), variant=v.describe())
            else:
                rep.fail('C05.R6', key, where(x),
                         'yylex stores the constant %d to the start state outside the rule actions without being control dependent on a test "start state == 0": '
                         'the first call of yylex() forces this state and discards a start condition selected before it (yybegin()/yy_push_state() before the '
                         'first call, YY_USER_INIT) [variant %s]' % (x.ops[0][1], v.name), variant=v.describe(),
                         replay_input='%x X\n%%\n<X>a  { return 1; }\na  { return 2; }\n%%\n-- main: yybegin(X) (reentrant: after yylex_init) before the first yylex(); '
                                      'input "a" must return 1, returns 2 when the first call resets the start state')
    return n

# ---------------------------------------------------------------- R7

def start_state_writers(sc):
    """names of the functions of the scanner that store the start state, directly or through the functions they call"""
    g = sc.callgraph()
    w = {f.name for f in sc.mod.functions.values() if stores_of(sc, f, 'yy_start')}
    changed = True
    while changed:
        changed = False
        for n, cs_ in g.items():
            if n not in w and cs_ & w: w.add(n); changed = True
    return w

def eof_action_stores_deep(sc, fn):
    """like eof_action_stores, but the start state may reach the sum  <constant> + state + 1  through a local
    (`s = yystart(); ... yy_act = YY_STATE_EOF(s)`): list of (constant, store)"""
    out = list(eof_action_stores(sc, fn)); have = {x for _, x in out}
    res = ir.Resolver(fn)
    for x in fn.ins:
        if x.op != 'store' or x in have: continue
        d = fn.def_of(x.ops[1])
        if d is None or d.op != 'alloca': continue
        cs_ = [o[1] for y in flow.value_slice(fn, x.ops[0]) if y.op == 'add' for o in y.ops if o[0] == 'int' and o[1] > 1]
        if not cs_: continue
        if any((y.op == 'load' and sc.is_var(res.loc(y.ops[0]), 'yy_start')) or (y.op in ('call', 'invoke') and sc.callee(y) == 'yystart') for y in S.deep_slice(fn, x.ops[0])):
            out.append((cs_[0], x))
    return out

def r7(ctx, sc):
    """the start state that selects the <<EOF>> action is read after the last call that can change it (yywrap)"""
    rep = ctx.rep; v = sc.v; n = 0
    writers = None
    for f in sc.fns('yylex'):
        if action_switch(f) is None: continue                 # yyclass stub
        Es = eof_action_stores_deep(sc, f)
        if not Es: rep.broken('C05.R7: EOF action assignment not found in yylex of %s' % v.name)
        if writers is None: writers = start_state_writers(sc)
        res = ir.Resolver(f); cfg = sc.prog.cfg(f)
        hazards = []
        for c in f.ins:
            if c.op not in ('call', 'invoke'): continue
            cn = sc.callee(c)
            if cn is None: continue
            if cn == 'yywrap' or any(g.name in writers for g in sc.fns(cn)): hazards.append(c)
        for K, E in Es:
            n += 1
            srcs = [y for y in S.deep_slice(f, E.ops[0])
                    if (y.op == 'load' and sc.is_var(res.loc(y.ops[0]), 'yy_start')) or (y.op in ('call', 'invoke') and sc.callee(y) == 'yystart')]
            if not srcs: rep.broken('C05.R7: the EOF action number in yylex of %s is not computed from the start state' % v.name)
            key = sc.key('C05.R7', 'yylex', 'eof-action:start-state-read-before-yywrap')
            # the value read at a source is live from the read to the store of the action number, and from there - in the local
            # that holds the action number - to every load of that local not preceded by another store: no hazard on that range
            ystores = [y for y in f.ins if y.op == 'store' and y.ops[1] == E.ops[1]]
            yloads = [y for y in f.ins if y.op == 'load' and y.ops[0] == E.ops[1]]
            stale = []
            for h in hazards:
                if h in srcs: continue
                after = cfg.reach(h, avoid=srcs)
                if E in after and any(h in cfg.reach(l_, avoid=srcs) for l_ in srcs): stale.append(h); continue
                if h in cfg.reach(E, avoid=ystores) and any(u in cfg.reach(h, avoid=ystores) for u in yloads): stale.append(h)
            if stale:
                h = stale[0]
                for h_ in stale:
                    if sc.callee(h_) == 'yywrap': h = h_
                rep.fail('C05.R7', key, where(E),
                         'yylex forms the <<EOF>> action number from a start state read (%s) before the call of %s() (%s), which may change the start condition '
                         '(yybegin() / yy_push_state() in the user\'s yywrap): the <<EOF>> rule of the condition left behind runs, and yystart() inside it names another '
                         'condition [variant %s]' % (where(srcs[0]), sc.callee(h), where(h), v.name),
                         witness=['%s:%s' % (i.blk.name, i.line) for i in (cfg.path(srcs[0], lambda y: y is h) or [])], variant=v.describe(),
                         replay_input='%x TAIL\n%%\n<INITIAL><<EOF>> { puts("INITIAL"); return 0; }\n<TAIL><<EOF>> { puts("TAIL"); return 0; }\n.|\\n ;\n%%\n'
                                      'int yywrap(void) { yybegin(TAIL); return 1; }   -- end of input must print TAIL')
            elif not hazards:
                rep.vacuous.append('C05.R7 %s yylex: no call in yylex can change the start state (noyywrap, no start-condition calls)' % v.name)
                rep.ok('C05.R7', '%s yylex: EOF action @%s from the start state read @%s; no call of yylex can change the start state' % (v.name, E.line, srcs[0].line))
            else:
                rep.ok('C05.R7', '%s yylex: EOF action @%s uses the start state read @%s, behind every one of the %d calls that can change it (yywrap%s)' % (
                    v.name, E.line, srcs[0].line, len(hazards), '' if any(sc.callee(h) == 'yywrap' for h in hazards) else ' is a constant here'))
    return n

# ---------------------------------------------------------------- driver

def r9(ctx):
    """R9: start-condition (and definition) names are looked up by their complete spelling.  In sym.c every function that
    compares the `name` field of a hash_entry with a key decides equality with strcmp(): a length-limited comparison
    (strncmp/memcmp with the length of one side) makes a name that is a prefix of another one hit the other's entry when the
    two share a hash bucket - rules written for <c1> are then attached to c18."""
    rep = ctx.rep; P = ctx.flex
    n = 0
    import genutil
    for f in genutil.fns(P):
        if not f.blocks or not (f.file or '').endswith('sym.c'): continue
        res = ir.Resolver(f)
        for c in f.ins:
            if c.op != 'call' or c.callee not in ('strcmp', 'strncmp', 'memcmp', 'strcasecmp', 'strncasecmp', 'bcmp'): continue
            uses_name = False
            for o in c.ops:
                d = f.def_of(o) if isinstance(o, tuple) and o[0] == 'reg' else None
                if d is not None and d.op == 'load':
                    cl = ir.loc_class(res.loc(d.ops[0]))
                    if cl and cl[0] == 'field' and cl[1] == 'hash_entry' and cl[2] == 'name': uses_name = True
            if not uses_name: continue
            n += 1
            if c.callee == 'strcmp':
                rep.ok('C05.R9', 'sym.c %s@%s: symbol-table keys are compared with strcmp (complete names)' % (f.name, c.line))
            else:
                rep.fail('C05.R9', 'C05.R9:sym.c:%s:name-compared-with-%s' % (f.name, c.callee), where(c),
                         '%s() compares a symbol-table entry name with %s(): names are no longer matched by their complete spelling, so a start condition '
                         '(or definition) whose name is a prefix of another one in the same hash bucket is resolved to the other entry' % (f.name, c.callee),
                         replay_input='%x ' + ' '.join('c%d' % i for i in range(20)) + '\n%%\n<c1>x  { return 1; }\n<c18>x { return 18; }\n')
    return n

def run(ctx):
    rep = ctx.rep
    vs = ctx.variants()
    rep.require(len(vs) >= 100, 'only %d scanner variants compiled to IR' % len(vs))
    n1 = n2 = n4 = n6 = n7 = 0; stackv = 0; backs6 = set(); backs7 = set()
    kins, K = r4_generator(ctx)
    rep.ok('C05.R4', 'dfa.c:%s ntod: num_start_states = lastsc * %d' % (kins.line, K))
    backs = set()
    for v in vs:
        sc = scanner(v)
        n1 += r1(ctx, sc)
        k = r2(ctx, sc)
        if k: stackv += 1; backs.add(v.backend)
        r2_reset(ctx, sc)
        n2 += k
        n4 += r4(ctx, sc, K, kins)
        k = r6(ctx, sc)
        if k: backs6.add(v.backend)
        n6 += k
        k = r7(ctx, sc)
        if k and sc.calls(scanner_yylex(sc), 'yywrap'): backs7.add(v.backend)
        n7 += k
    n3 = r3(ctx)
    r9(ctx)
    rep.floor('C05.R9', 1, 'findsym() in sym.c')
    rep.require(backs >= {'nr', 'r', 'cxx', 'c99', 'go'}, 'C05.R2 ran only on back ends %s' % sorted(backs))
    rep.require(backs6 >= {'nr', 'r', 'cxx', 'c99', 'go'}, 'C05.R6 found a first-call initialisation of the start state only in back ends %s' % sorted(backs6))
    rep.require(backs7 >= {'nr', 'r', 'cxx', 'c99', 'go'}, 'C05.R7 found a yylex that calls yywrap only in back ends %s' % sorted(backs7))
    rep.setcount('variants_analysed', len(vs))
    rep.setcount('variants_with_start_stack', stackv)
    rep.setcount('functions_checked_for_yy_start_writes', n1)
    rep.floor('C05.R1', 3500, '>=30 non-writer functions in each of >=115 variants')
    rep.floor('C05.R2', 250, 'push/pop/top in each of >=55 variants with %option stack, plus the reset pairing in the initialisation function of >=100 variants')
    rep.floor('C05.R3', 6, '5 distribution stores + the <*> loop in parse.y')
    rep.floor('C05.R4', 250, 'ntod + >=2 sites in every variant with start-condition functions')
    rep.floor('C05.R6', 115, 'one first-call initialisation store in yylex of each of >=115 variants')
    rep.floor('C05.R7', 115, 'one EOF action assignment in yylex of each of >=115 variants')
    rep.undecided += ['which rules are active for a given input in a given start condition (value-level: NFA construction)',
                      'LIFO order of the values on the start-condition stack',
                      'user code that assigns yy_start directly']
    rep.assumptions += ['clang -O0 IR of the instantiated skeleton is a faithful rendering of the generated source',
                        'C++ virtual calls resolve to the yyFlexLexer implementations (no user subclass overrides)',
                        'yy_start_stack_ptr <= yy_start_stack_depth is an invariant maintained by push (upper bound in pop/top is not re-tested by the skeleton)']
    import tbl
    tbl.rule_language(ctx, 'C05.R5', probes=('sc', 'nest'), what='the rules active in every start condition (nested scopes, <*>, inclusive/exclusive)')
    rep.floor('C05.R5', 18, 'language probes x table representations')
    import macro_hygiene
    macro_hygiene.check(ctx, 'C05.R8', {'BEGIN', 'yybegin'}, ['yybegin'])
    rep.floor('C05.R8', 3, 'yybegin() in the nr, r and C++ instantiation of the cpp skeleton')
    return rep.finish('other',
        'Who-may-write analysis of the start-state register over the LLVM IR of %d instantiated scanner variants (all five back ends, call graph with '
        'C++ virtual calls resolved through the class vtable); relational check of the bounds guards of the start-condition stack (edge predicate over '
        'the same register, tracked through the increments/decrements); control-dependence check of the rule-distribution loops in the IR of parse.c; '
        'constant agreement between dfa.c:ntod and the runtime start-state arithmetic; control dependence of the first-call initialisation of the '
        'start state in yylex on a test of the same register against 0; value flow of the start state into the EOF action number and must-pass-through of '
        'its read behind every call that can change it (yywrap).' % len(vs))
